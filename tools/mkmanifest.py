#!/usr/bin/env python3
"""Regenerates /verif/MANIFEST.json from the table below (one entry per claimed property)."""
import json, os

V = os.path.dirname(os.path.dirname(os.path.abspath(__file__)))
ids = [json.loads(l)["id"] for l in open(os.path.join(V, "properties.jsonl"))]

TB = ("Trusted: Lean 4.33.0 kernel and the axioms printed per theorem in the evidence (propext, Classical.choice, Quot.sound; "
      "bv_decide certificates only where named); the Lean compiler running cxdrv; the hand-written models in lean/Cx/Model, "
      "tied to /repo only through the correspondence run of this check; the Go harness (generators, dumpers, diff) and the toolchain's regexp/unicode packages. ")

CLAIMED = {
 "C04": dict(cat="proof", sec="§7 C04",
   text="Theorems (Lean, all inputs): each hand-written enumeration loop of coregex, modelled over an abstract single-match function, returns exactly what regexp's allMatches returns, for every input length, rune-width function and limit n (C04_findAllIndicesLoop, C04_count_loop, C04_iterator, C04_anchored_shortcut, C04_limit_is_prefix, C04_enumeration_wellformed). Tie: the real engine's FindIndicesAt/FindSubmatchAt table is recorded at every offset and the Lean loop models, run over it, must reproduce every enumeration API's output; a case is a violation only if the API also differs from regexp.",
   note=TB + "Hypotheses FindOK/WidthOK are checked on every recorded table (the engine contract itself is C02's subject). Known findings: see known_findings.json (C04-*).",
   tech="Lean 4 theorems over loop models + recorded-table correspondence"),
 "C14": dict(cat="proof", sec="§7 C14",
   text="Theorems: the bounded-backtracker model is sound and complete for the NFA path relation (boolean search with a visited set shared across start positions; span search: accepted span, leftmost start, none iff no match). The model is the executable reference: PikeVM (3 entry points), the real backtracker (*WithState, reused state) and the lazy DFA (8 cache/clear configurations incl. caches too small for one state) are driven directly on NFAs dumped from the code, over exhaustive short haystacks of byte-class representatives plus pattern-derived haystacks, every start offset.",
   note=TB + "The lazy DFA is not modelled; it is compared with the proved reference and its documented defect classes are open findings (C14-dfa-*). Priority (which end among ends at the leftmost start) is part of the reference, proved only for the backtracker.",
   tech="Lean 4 theorems (memoised DFS = NFA path relation) + engine-level correspondence on dumped NFAs"),
 "C18": dict(cat="proof", sec="§7 C18",
   text="Theorems (all haystacks, all lengths): the SWAR zero-byte detector is exact at its lowest set bit; memchr/memchr2/memchr3 generic, isASCII generic and the rare-byte memmem loop equal their one-line scalar definitions. Tie: every exported primitive x every length 0..130 (200 thorough) x placement against inaccessible pages (both ends, read-only data) x every hit position, with vector extensions enabled and masked, compared with the scalar definition; a sample replayed through the Lean models.",
   note=TB + "bv_decide is used for the fixed-width bit-vector lemmas of hasZero (axioms *_native.bv_decide.ax_* listed in evidence). The assembly kernels are not modelled (no ISA semantics in Lean): for them the exhaustive enumeration is the evidence (partial).",
   tech="Lean 4 theorems (BitVec + induction over chunks) + exhaustive guard-page correspondence"),
}

checks = []
for pid in ids:
    if pid not in CLAIMED:
        continue
    c = CLAIMED[pid]
    checks.append({
        "property_id": pid,
        "quick_cmd": "./check %s --tier quick" % pid,
        "thorough_cmd": "./check %s --tier thorough" % pid,
        "evidence_file": "evidence/%s.json" % pid,
        "replay_cmd_template": "./check %s --replay {path}" % pid,
        "engine": "lean-cx",
        "level_claimed": {"category": c["cat"], "text": c["text"], "design_ref": c["sec"]},
        "level_note": c["note"],
        "technique": c["tech"],
    })

m = {
    "version": 1,
    "setup_cmd": "./setup.sh",
    "hooks": {"guard": "verif", "enable": "harness built with `go build -tags verif` (module /verif/harness, replace github.com/coregx/coregex => /repo)",
              "baseline_off_cmd": "cd /repo && go test -mod=mod -vet=off -count=1 -timeout 25m ./...", "source_commits": [], "add_only": True},
    "engines": [{"name": "lean-cx", "path": "lean/", "serves_properties": sorted(CLAIMED), "kind_free_text":
                 "Lean 4 library Cx (Spec/Model/Proofs/Properties) + driver cxdrv; Go harness harness/cmd/vcheck; entry point ./check"}],
    "checks": checks,
    "not_applicable": [{"property_id": i, "reason": "check under construction in this session (model/theorems exist or are planned, see DESIGN.md §7); not yet registered"}
                       for i in ids if i not in CLAIMED],
    "notes": "Machine-checked proof in Lean 4 is the deciding technique for every claimed property; see DESIGN.md.",
}
json.dump(m, open(os.path.join(V, "MANIFEST.json"), "w"), indent=1)
print("claimed", sorted(CLAIMED), "not claimed", [i for i in ids if i not in CLAIMED])
