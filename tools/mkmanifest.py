#!/usr/bin/env python3
"""Regenerates /verif/MANIFEST.json from the table below (one entry per claimed property)."""
import json, os

V = os.path.dirname(os.path.dirname(os.path.abspath(__file__)))
ids = [json.loads(l)["id"] for l in open(os.path.join(V, "properties.jsonl"))]

TB = ("Trusted: Lean 4.33.0 kernel and the axioms printed per theorem in the evidence (propext, Classical.choice, Quot.sound; "
      "bv_decide certificates only where named); the Lean compiler running cxdrv; the hand-written models in lean/Cx/Model, "
      "tied to /repo only through the correspondence run of this check; the Go harness (generators, dumpers, diff) and the toolchain's regexp/unicode packages. ")

def E(cat, sec, text, note, tech):
    return dict(cat=cat, sec=sec, text=text, note=TB + note, tech=tech)

CLAIMED = {
 "C01": E("proof", "§7 C01", "Theorem chain (Lean): for every AST of the modelled fragment, backtracker-model(compile-model(re)) reports a match iff some substring is in the declarative language M re (compile_lang: Accepts (compile re) ⇔ M re, proved for the transliterated Thompson compiler; memoised DFS sound+complete). Ties: the compile model's NFA must equal, state by state, the NFA the real compiler produces (language comparison on all short inputs as fallback); Match/MatchString/MatchReader/package functions are compared with regexp on generated patterns and haystacks (valid, multi-byte, ill-formed, long).",
   "Partial: M ≈ regexp is validated, not proved; Unicode classes, folding and dot are verified per instance by C15's checker; the strategy dispatch around the NFA engines is only correspondence-checked and its defects are open findings keyed by (strategy, primary feature).",
   "Lean 4 theorems (Thompson compile correctness + memoised DFS) + NFA translation validation + differential against regexp"),
 "C02": E("proof", "§7 C02", "Theorems: the span reported by the backtracker model on the compiled NFA is a match of the AST, starts at the leftmost start with any match, and none iff nothing matches (composition of compile_lang with btSearchAt_sound/leftmost); the Pike VM model returns exactly the backtracker's span (pike_search_eq_bt: ordered-thread simulation = priority DFS). Ties: C14 drives every engine on dumped NFAs against this reference; Find/FindIndex/FindString/FindStringIndex/FindReaderIndex are compared with regexp end-to-end.",
   "Partial: equality of the automaton's priority order with regexp's is validated by correspondence; the reverse/bidirectional strategies are not modelled (open findings).",
   "Lean 4 theorems (leftmost start, Pike = priority DFS) + differential against regexp"),
 "C03": E("proof", "§7 C03", "Reference = the slot vector written along the first accepting path of the priority DFS over the compiled NFA (Caps.btCaps; its group 0 is the C02 reference). Theorems: reference well-formed (n slots, groups unset or nested inside the match); the Pike VM with per-state slot tables (transliterated from nfa/pikevm.go + slot_table.go) returns exactly the reference for every NFA the compiler emits, every haystack, every start offset at <= len; the one-pass DFA (builder, closure in priority order, match-wins flags, end-look handling, flat table, search loop — transliterated from dfa/onepass) returns exactly the anchored reference whenever it is built (sound AND complete, no restriction on where the match ends). Ties, every run: both models vs the real engines on dumped NFAs (every at; build accept/reject; Search), the real engines vs the reference, the Lean transliteration of regexp's own backtracker (Cx.GoRef on syntax.Prog) vs the real regexp (spec validation), and the five FindSubmatch APIs vs regexp end to end.",
   'Partial: the copy-on-write capture path (SearchWithCapturesInSpan) and SearchLongest captures are tied by correspondence only; the dispatch around the engines is checked end to end; defects there are open findings keyed by (strategy, primary feature).',
   'Lean 4 theorems (Pike slot-table captures = priority DFS; one-pass DFA = reference) + model ties on dumped NFAs + spec validation + differential against regexp'),
 "C04": E("proof", "§7 C04", "Theorems (Lean, all inputs): each hand-written enumeration loop of coregex, modelled over an abstract single-match function, returns exactly what regexp's allMatches returns, for every input length, rune-width function and limit n (C04_findAllIndicesLoop, C04_count_loop, C04_iterator, C04_anchored_shortcut, C04_limit_is_prefix, C04_enumeration_wellformed). Tie: the real engine's FindIndicesAt/FindSubmatchAt table is recorded at every offset and the Lean loop models, run over it, must reproduce every enumeration API's output; a case is a violation only if the API also differs from regexp.",
   "Hypotheses FindOK/WidthOK are checked on every recorded table (the engine contract itself is C02's subject). Open findings: C04-*.",
   "Lean 4 theorems over loop models + recorded-table correspondence"),
 "C05": E("proof", "§7 C05", "Theorems on cost-instrumented engine models (same results by erasure lemmas): backtracker boolean search ≤ 2·|N|·(|h|+1)+(|h|+1) steps; span search with one visited table for all starts is linear and returns the same answers (the formal basis of the fix commit), with a fresh table per start only a quadratic bound holds and a*b on a^n attains it; Pike VM ≤ 15·|N|·(|h|-at+1)+6. Tie: work of the real code = executed basic blocks (coverage counters around one call) on adversarial families per strategy at n = 512..8192; doubling n must at most ~double the work; compile work must stay polynomial.",
   "Partial: rescanning strategies (candidate loops, composite searcher, reverse searches) are measured, not modelled; constants relate model steps to blocks only up to a factor.",
   "Lean 4 step-count theorems + deterministic work measurement"),
 "C06": E("proof", "§7 C06", "Theorem: in every reachable state of the getSearchState/putSearchState protocol (atomic slot + pool, any interleaving, GC dropping pooled states) no per-search state is held twice. Ties: (a) go/ast source facts — every use of engine-/searcher-level scratch state on a search path must be a listed call site; (b) a -race build: 8 goroutines replay strategy-covering calls on shared values, results compared with sequential ones, race reports attributed to listed call sites.",
   "Partial: the Go memory model, sync.Pool and completeness of the fact extractor are trusted; schedules of the real runtime are sampled by the race detector. Open findings list the shared-simulator call sites.",
   "Lean 4 invariant over all interleavings + source-fact extraction + race-detector run"),
 "C07": E("proof", "§7 C07", "All model functions are total (accepted without `partial`; fuel proved sufficient); proved well-formedness: spans inside the input and ordered, enumerations ordered/non-overlapping, rune steps inside the input, prefilter matches are real occurrences. Tie: worker processes try arbitrary strings as patterns and every search API on haystacks placed against inaccessible pages (both ends, read-only) for every length 0..70, checking bounds, group nesting, ordering, aliasing of returned slices and that the input is unchanged; a crash names its input.",
   "Partial: faults, stack growth and what the assembly reads are runtime facts observed through guard pages, not modelled.",
   "Lean 4 totality/well-formedness theorems + guard-page worker runs"),
 "C08": E("proof", "§7 C08", "Theorems: the Replace* loop model equals regexp.replaceAll for every well-behaved matcher, source and replacement function (with the forced hypothesis RuneAligned and a machine-checked refutation of the unrestricted statement); the ported expand equals regexp.expand for every template, match vector and name list; the ported Split equals regexp.Split for every n. Ties: models run over recorded match tables vs the nine APIs; spec validation of Lean expand against real regexp.Expand.",
   "Hypotheses FindOK/WidthOK/RuneAligned are checked on every recorded table. unicode.IsLetter/IsDigit enter as a parameter supplied per template.",
   "Lean 4 theorems (loop/expand/split equivalence) + recorded-table correspondence"),
 "C09": E("proof", "§7 C09", "Theorems: QuoteMeta equals regexp.QuoteMeta, inserts exactly one backslash before each special byte and is invertible. Ties: QuoteMeta model/spec vs both implementations; differential on valid, near-valid and limit-probing strings: Compile/CompilePOSIX/MustCompile error presence and text, String, NumSubexp, SubexpNames, SubexpIndex, LiteralPrefix, Marshal/Unmarshal, Copy isolation, Compile(QuoteMeta(s)) matches exactly s.",
   "Partial: acceptance and metadata are delegated to regexp/syntax or regexp by the code; that part is correspondence, not theorem.",
   "Lean 4 theorems (QuoteMeta) + differential against regexp on generated strings"),
 "C10": E("proof", "§7 C10", "Theorem: in longest mode the Pike VM model returns the leftmost start and, for it, the greatest end of the NFA's language (declarative leftmost-longest), and both modes agree on existence. Ties: Pike longest model vs real PikeVM (C14 run); every API in longest mode and CompilePOSIX vs regexp; Longest on a Copy/second value leaves the first unchanged.",
   "Partial: that every dispatch path honours the flag is correspondence; strategies ignoring it are open findings.",
   "Lean 4 theorem (leftmost-longest) + mode x strategy x API differential"),
 "C11": E("proof", "§7 C11", "Theorems: Count = len(FindAll), iterators = FindAll(-1), FindAll(n) = prefix of FindAll(-1), FindAllSubmatch spans well-formed — corollaries of the loop theorems over one single-match function. Tie: ~20 relations between views of one value evaluated on the real code on inputs up to 64 KiB, no oracle.",
   "Partial: Match ⇔ Find, Find = group 0, string/bytes/reader agreement are relations between engine dispatchers, tied by correspondence only.",
   "Lean 4 corollaries + oracle-free relation checks on the real code"),
 "C12": E("proof", "§7 C12", "Every configuration selects among engines each of which is proved or tied equal to the NFA reference (C14 theorems); the check evaluates 12 configurations (DFA/prefilter off, state/determinisation limits, literal limits, ASCII optimisation) against the default and NFA-only configurations on generated patterns and haystacks.",
   "Partial: the configuration plumbing itself is not modelled; configurations that change answers are open findings keyed by configuration.",
   "Lean 4 engine theorems (reference is configuration-free) + configuration-lattice differential"),
 "C13": E("proof", "§7 C13", "Theorems for every history: after any sequence of searches of any sizes, bumps and markings (across the uint16 wrap and re-slicing) a new search sees no visited entry; marking is exact; a cache clear returns the accounting to that of a new cache. Ties: visited model vs BacktrackerState over 70 000 calls; reuse across the generation wrap vs fresh state; lazy DFA reused cache vs fresh cache; aged Regex vs fresh Regex call by call with GC in between.",
   "The lazy DFA's transition memo is not modelled; its history dependence for look-around patterns is an open finding.",
   "Lean 4 invariants over operation sequences + history correspondence"),
 "C14": E("proof", "§7 C14", 'Theorems: the bounded-backtracker model is sound and complete for the NFA path relation; the Pike VM model equals it (isMatch iff, search = priority DFS, longest); the lazy-DFA model (closure with look sets, look-behind bits in the state key, determinize with re-closure of the ordered thread list, break-at-match, start states, cache insert / clear-and-reinsert / give-up, exact acceleration, unrolled loop, anchored loop — transliterated from dfa/lazy) returns the reference END for EVERY automaton the compiler emits, WITH look-around (^ $ \\A \\z \\b \\B and their multiline forms), every cache capacity (also one too small for any state), every clear limit and every history of earlier SearchAt / IsMatch / IsMatchAt / SearchAtAnchored calls on the same cache, or hands over to the NFA (memoisation is invisible; uncached DFA = priority DFS). Hypotheses are decidable checks evaluated per dumped automaton (no rune states, disjoint sparse ranges, prefix shape, byte classes compatible with the ranges and the look-around of the automaton). Ties, every run: PikeVM (5 entry points), the real backtracker (reused state) and the lazy DFA (8 cache/clear configurations) are driven directly on NFAs dumped from the code against the reference, over exhaustive short haystacks of byte-class representatives plus pattern-derived haystacks, every start offset; the lazy-DFA model is replayed call by call against the real DFA on one reused cache per configuration.',
   'Reverse DFAs (SearchReverse*), prefilter skipping inside the DFA and the second result of SearchAtAnchoredStopAt are not modelled; the former deviations of the DFA are kept as machine-checked _fixed witnesses (C14_dfa_deviations_fixed).',
   'Lean 4 theorems (memoised DFS = NFA path relation; Pike = DFS; lazy DFA with cache and look-around = reference) + engine-level correspondence on dumped NFAs'),
 "C15": E("proof", "§7 C15", "Theorems: decode∘encode = id on scalar values, a decode step consumes the encoding of its rune or one byte; the class compiler (compileCharClass → compileUnicodeClass / compileUnicodeClassLarge → compileUTF8Range, the 1/2/3/4-byte range splitters and continuation-bound helpers, transliterated as the byte-range sequences it emits) accepts, for EVERY rune range with no precondition, exactly the encodings of the scalar values in the range, and for every class exactly the encodings of its members plus two named deviations (lone bytes >= 0x80 for classes containing every non-ASCII rune: deliberate; raw surrogate bytes on the small-class path: a defect, machine-checked and confirmed); the executable class checker is proved to be an exact decision procedure (classCheck = ok iff every scalar value and every enumerated ill-formed string is accepted exactly when regexp's decoding rule says so). Ties, every run: the byte-range sequences along all paths of the automaton the real compiler emitted must equal the model's output literally (inventory + ~500 generated multi-range classes around every encoding boundary); the verified checker sweeps all code points for the inventory (Perl/POSIX/Unicode classes, negations, folded literals/classes, dot, three compilation modes); every non-letter rune of the fold table (all runes in thorough) as (?i:r) against its SimpleFold orbit.",
   'Dot (compileUTF8Any*, utf8_suffix.go) and fold-case literals are covered by the checker per instance, not by the compiler theorem. Behaviour inside concatenations on ill-formed input is an open finding.',
   'Lean 4 theorems (UTF-8 range compiler exact for all ranges; verified class checker) + literal translation validation of compiled automata'),
 "C16": E("proof", "§7 C16", "Theorems (slim Teddy model): mask soundness, Find = least offset where a literal occurs, reported match is a real occurrence, reported literal is the first in pattern order for any number of literals (after the fix commit); memmem = naive. Ties: every prefilter implementation (memchr, memmem, slim/fat Teddy, Aho-Corasick, wrappers, digit) vs the naive definition on systematic plants across 16/32/64-byte blocks, near misses, all starts; complete prefilters vs regexp on the source alternation; Teddy vs the Lean model.",
   "Assembly kernels and the Aho-Corasick library are tied by correspondence only.",
   "Lean 4 theorems (fingerprint soundness, find = naive, priority) + systematic correspondence"),
 "C17": E("proof", "§7 C17", "A verified checker (Lean, soundness theorems checkPrefix/Suffix/Inner_sound) decides on the dumped NFA that EVERY match in EVERY haystack starts with / ends with / contains one of the extracted literals; it runs on the real extractor's output under default and tight limits; a failing check yields a witness validated against regexp; complete literals must themselves match.",
   "Look-around is over-approximated (ok is still a proof; a failure crossing look-around is validated or counted inconclusive). The quantifier over patterns and limits is sampled.",
   "Lean 4 verified checker (NFA x literal-automaton product) on real extractor output"),
 "C18": E("proof", "§7 C18", "Theorems (all haystacks, all lengths): the SWAR zero-byte detector is exact at its lowest set bit; memchr/memchr2/memchr3 generic, isASCII generic and the rare-byte memmem loop equal their one-line scalar definitions. Tie: every exported primitive x every length 0..130 (200 thorough) x placement against inaccessible pages (both ends, read-only data) x every hit position, with vector extensions enabled and masked, compared with the scalar definition; a sample replayed through the Lean models.",
   "bv_decide is used for the fixed-width bit-vector lemmas of hasZero (axioms *_native.bv_decide.ax_* listed in evidence). The assembly kernels are not modelled: for them the exhaustive enumeration is the evidence (partial).",
   "Lean 4 theorems (BitVec + induction over chunks) + exhaustive guard-page correspondence"),
 "C19": E("proof", "§7 C19", "Per fast path, a Lean transliteration of predicate, constructor and searcher and an exactness theorem against the reference leftmost-first matcher of the WHOLE pattern: char-class searcher (incl. streaming enumeration), composite searcher (only parser-output invariants RepeatOK/ClassSorted as hypotheses, each shown necessary), branch dispatcher (every accepted pattern; hypotheses FoldSound for the supplied fold table and the reference's depth bound, each shown necessary), anchored-literal matcher (text anchors), first-byte filter. Ties, every run: models vs real predicates/searchers on templates and all one-node mutations (trailing parts, (?i), (?U), lazy, (?m), empty branches, non-ASCII) over exhaustive short haystacks; accepted patterns vs the reference matcher and regexp; the first-byte property on the real code (a non-empty match at offset 0 starts with a byte of a complete set).",
   'Partial: reverse-anchored/suffix/inner strategies are not modelled (covered end to end by C01/C02); the anchored-literal theorem reads (?m)^/$ as text anchors (counterexample kept).',
   'Lean 4 exactness theorems per fast path + mutation-boundary correspondence'),
 "C20": E("proof", "§7 C20", "Theorems: cache memory ≤ capacity + one state's worth for every history of inserts and clears; the visited table never exceeds the largest admitted request; a sequential caller never makes the pool allocate after warm-up. Ties: MemoryUsage() after every directly driven search with capacities 1 B..2 MB vs the proved bound; visited length vs MaxVisitedSize; heap held after 1800/3300 searches; AllocsPerRun == 0 for the documented zero-allocation calls on strategy templates.",
   "Partial: escape analysis, map growth and the allocator are measured; zero-allocation failures under DFA-based strategies are an open finding.",
   "Lean 4 accounting invariants + memory/allocation measurement"),
}

REGISTERED = ["C%02d" % i for i in range(1, 21)]

checks = []
for pid in ids:
    if pid not in REGISTERED:
        continue
    c = CLAIMED[pid]
    checks.append({
        "property_id": pid,
        "quick_cmd": "./check %s --tier quick" % pid,
        "thorough_cmd": "./check %s --tier thorough" % pid,
        "evidence_file": "evidence/%s.json" % pid,
        "replay_cmd_template": "./check %s --replay {path}" % pid,
        "engine": "lean-cx",
        "level_claimed": {"category": c["cat"], "text": c["text"], "design_ref": c["sec"]},
        "level_note": c["note"],
        "technique": c["tech"],
    })

m = {
    "version": 1,
    "setup_cmd": "./setup.sh",
    "hooks": {"guard": "verif", "enable": "harness built with `go build -tags verif` (module /verif/harness, replace github.com/coregx/coregex => /repo)",
              "baseline_off_cmd": "cd /repo && go test -mod=mod -vet=off -count=1 -timeout 25m ./...", "source_commits": [], "add_only": True},
    "engines": [{"name": "lean-cx", "path": "lean/", "serves_properties": sorted(REGISTERED), "kind_free_text":
                 "Lean 4 library Cx (Spec/Model/Proofs/Properties) + driver cxdrv; Go harness harness/cmd/vcheck; entry point ./check"}],
    "checks": checks,
    "not_applicable": [{"property_id": i, "reason": "check under construction in this session (model/theorems exist or are planned, see DESIGN.md §7); not yet registered"}
                       for i in ids if i not in REGISTERED],
    "notes": "Machine-checked proof in Lean 4 is the deciding technique for every claimed property; see DESIGN.md.",
}
json.dump(m, open(os.path.join(V, "MANIFEST.json"), "w"), indent=1)
print("claimed", sorted(CLAIMED), "not claimed", [i for i in ids if i not in REGISTERED])
