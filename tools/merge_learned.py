#!/usr/bin/env python3
"""Merges /tmp/learn_<prop>.json (output of `vcheck learn`) into known_findings.json; ill-formed-haystack groups collapse into one entry."""
import json, sys
prop = sys.argv[1]
new = json.load(open("/tmp/learn_%s.json" % prop)) or []
k = json.load(open('/verif/known_findings.json'))
ids = {f['id'] for f in k['findings']}
added = 0
for f in new:
    if f['signature'].get('pf') in ('nonascii-class-on-multibyte', 'multibyte-haystack') and list(f['signature']) == ['pf']:
        f['id'] = '%s-e2e-%s' % (prop, f['signature']['pf'])
    if f['signature'].get('pf') == 'ill-formed-haystack' and 'strategy' in f['signature']:
        f['id'] = '%s-e2e-illformed' % prop
        f['signature'] = {'pf': 'ill-formed-haystack'}
        f['what'] = 'on haystacks that are not valid UTF-8 results differ from regexp (byte-level automata vs regexp\'s rune decoding: every invalid byte is U+FFFD of width 1), under every strategy; e.g. ' + f['what'].split('e.g. ', 1)[-1]
    if f['id'] in ids:
        continue
    ids.add(f['id'])
    k['findings'].append(f)
    added += 1
json.dump(k, open('/verif/known_findings.json', 'w'), indent=1, ensure_ascii=False)
print('added', added)
