#!/usr/bin/env python3-vt
import json, sys, jsonschema, glob
jsonschema.validate(json.load(open('/verif/MANIFEST.json')), json.load(open('/root/.vp/MANIFEST.schema.json')))
print('manifest ok')
es = json.load(open('/root/.vp/EVIDENCE.schema.json'))
for f in sorted(glob.glob('/verif/evidence/*.json')):
    e = json.load(open(f)); jsonschema.validate(e, es); c = e['coverage']
    print(f.split('/')[-1], e['level'], 'obl', c.get('obligations'), 'dis', c.get('discharged'), 'eval', c.get('evaluations'), 'distinct', c.get('distinct_nontrivial'), 'viol', e.get('violations'))
