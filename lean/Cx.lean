import Cx.Basic
import Cx.Spec.Utf8
import Cx.Spec.GoRef
import Cx.Spec.StdLoops
import Cx.Model.Loops
import Cx.Proofs.Loops
import Cx.Properties.C04
