import Cx.Driver
import Cx.Model.LitCheck
/-
  Cx.DriverLit — line-protocol front end of the literal-necessity checker (`Cx.Model.LitCheck`,
  soundness in `Cx.Proofs.LitCheck`).

    litcheck <kind> <nfa> <lits>
      kind : prefix | suffix | inner
      nfa  : NFA dump in the `Cx.Driver.parseNfa` format
      lits : comma-separated hex strings; `-` is the empty literal; `none` is the empty set
    answers
      ok                 the property holds for every haystack and every match (verified)
      fail:<hex>         the check failed; <hex> = bytes of a path from the anchored start state to a match state
                         whose span violates the property (`-` = the empty span); to be replayed by the caller
      fail:fuel          the exploration ran out of fuel (no verdict)
      bad-op             malformed request
  `handle?` returns `none` for every other command.
-/
namespace Cx.DriverLit
open Cx

/-- `none` = empty set, otherwise comma-separated hex strings (`-` = empty literal) -/
def parseLits (s : String) : Option (List (List Nat)) :=
  if s = "none" then some [] else
  (s.splitOn ",").mapM fun tok => (parseHex tok).map (·.toList)

def showRes {σ : Type} (r : Lit.Res σ) : String :=
  match r with
  | .ok _ => "ok"
  | .bad w => "fail:" ++ toHex w.toArray
  | .fuel => "fail:fuel"

def handle? (toks : List String) : Option String :=
  match toks with
  | ["litcheck", kind, nfa, lits] =>
    match Driver.parseNfa nfa, parseLits lits with
    | some N, some ls =>
      match kind with
      | "prefix" => some (showRes (Lit.checkPrefixF Lit.defaultFuel N ls))
      | "suffix" => some (showRes (Lit.checkSuffixF Lit.defaultFuel N ls))
      | "inner" => some (showRes (Lit.checkInnerF Lit.defaultFuel N ls))
      | _ => some "bad-op"
    | _, _ => some "bad-op"
  | "litcheck" :: _ => some "bad-op"
  | _ => none

/-- the answer is `ok` exactly when the verified Boolean check passes -/
theorem showRes_ok {σ : Type} (r : Lit.Res σ) : showRes r = "ok" ↔ r.passed = true := by
  cases r with
  | ok v => simp [showRes, Lit.Res.passed]
  | bad w =>
    simp only [showRes, Lit.Res.passed, Bool.false_eq_true, iff_false]
    intro h
    have := congrArg String.length h
    have a : "fail:".length = 5 := by decide
    have b : "ok".length = 2 := by decide
    rw [String.length_append, a, b] at this
    omega
  | fuel => simp only [showRes, Lit.Res.passed, Bool.false_eq_true, iff_false]; decide

end Cx.DriverLit
