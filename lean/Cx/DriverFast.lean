import Cx.Driver
import Cx.Model.Fast
import Cx.Spec.Fast
import Cx.Spec.ReRef
/-
  Cx.DriverFast — line-protocol requests for the fast-path searcher models (Cx.Model.Fast) and their specs.

  Encodings
  * `hayhex`  : haystack, hex ("-" = empty).
  * `tblhex`  : 256-bit membership table as 32 bytes of hex; byte value `b` is a member iff bit `b % 8`
                (least-significant bit = 0) of table byte `b / 8` is set.  `[a-c]` = bytes 12..: "…0e…".
  * `parts`   : `min:max:tblhex` joined by `;`   (`max` is the Go `maxMatch` field verbatim: `0` or `-1` = unbounded).
  * `ast`     : a `syntax.Regexp` in preorder, nodes joined by `,`; node = `op/flags/nsub/runes/min/max`,
                `op` = Go's `syntax.Op` number (1 = OpNoMatch … 19 = OpAlternate), `flags` = 1·NonGreedy + 2·FoldCase,
                `runes` = `.`-separated decimal runes (may be empty).

  Requests (answer `bad-op` on malformed arguments, `none` for commands that are not ours)
  * `ccs search|ismatch|findall|count|spec|specall at hayhex minMatch tblhex`
        → `s,e`/`nil`; `true`/`false`; `s.e,s.e,…`/`-`; a number; (`spec` = Spec.ccFind, `specall` = stdlib loop over it)
  * `composite search|ismatch|spec at hayhex parts`       (`spec` = Spec.compFind on the translated parts)
  * `anchlit match|find|spec at hayhex prefixhex suffixhex tblhex ccMin wildcardMin minLength dotNL`  (tblhex may be a dash)
        `dotNL` (LAST argument, `0`/`1`) is the `WildcardMatchesNewline` field of the info
        (`spec` answers the byte-level specification with that `dotNL`; `specs` forces dotNL=true, `specn` dotNL=false)
  * `re-ccs ast`                      → `nil` or `lo-hi_lo-hi…`           (ExtractCharClassRanges)
  * `re-composite search|ismatch|is at hayhex ast` → result through NewCompositeSearcher (`nil-searcher` if nil);
                                        `is` = IsCompositeCharClassPattern
  * `re-spec at hayhex ast`           → the AST-level specification: Spec.plusFind for `cls+`/`cls+?`, Spec.compFind over
                                        Spec.astParts for a concatenation of quantified classes (`nil-spec` otherwise)
  * `re-ref at hayhex ast`            → Ref.refFind: the general leftmost-first reference matcher of Cx.Spec.ReRef
  * `re-bdspec hayhex ast`            → `nil-frag` unless `bdFrag re`; else `altFind` over the branches (the specification the
                                        BranchDispatcher is proved exact for)
  * `re-fbfrag ast`                   → whether the pattern lies in the fragment `fbFrag` on which the first-byte filter is
                                        proved sound
  * `re-anchlit info|match hayhex ast` → DetectAnchoredLiteral: `nil` or `prefix/suffix/tbl/ccMin/wMin/minLen/dotNL` (tbl may be
                                        a dash; `dotNL` = `WildcardMatchesNewline` as `0`/`1`, LAST field);
                                        `match` = `nil` or MatchAnchoredLiteral
  * `re-fb ast`                       → ExtractFirstBytes: `nil` or `count/complete/tblhex`
  * `re-bd is|search|ismatch hayhex ast` → IsBranchDispatchPattern; Search/IsMatch of the dispatcher meta builds
                                        (`nil-searcher` when NewBranchDispatcher fails)
-/
namespace Cx.DriverFast
open Cx Cx.Fast

def parseTable (s : String) : Option Table := do
  let b ← parseHex s
  if b.size ≠ 32 then none else
  some (Array.ofFn (n := 256) fun i => decide ((b.at (i.val / 8) >>> (i.val % 8)) % 2 = 1))

def showTable (t : Table) : String :=
  toHex (Array.ofFn (n := 32) fun i =>
    (List.range 8).foldl (fun acc k => acc + (if t.mem (i.val * 8 + k) then 2 ^ k else 0)) 0)

def parsePart (s : String) : Option CharClassPart :=
  match s.splitOn ":" with
  | [lo, hi, tbl] => do
    pure { minMatch := (← parseNat lo), maxMatch := (← parseInt hi), membership := (← parseTable tbl) }
  | _ => none

def parseParts (s : String) : Option (List CharClassPart) :=
  if s = "-" ∨ s = "" then some [] else (s.splitOn ";").mapM parsePart

def opOfNat : Nat → Option Op
  | 1 => some .noMatch | 2 => some .emptyMatch | 3 => some .literal | 4 => some .charClass
  | 5 => some .anyCharNotNL | 6 => some .anyChar | 7 => some .beginLine | 8 => some .endLine
  | 9 => some .beginText | 10 => some .endText | 11 => some .wordBoundary | 12 => some .noWordBoundary
  | 13 => some .capture | 14 => some .star | 15 => some .plus | 16 => some .quest | 17 => some .repeat_
  | 18 => some .concat | 19 => some .alternate | _ => none

/-- parse one node (and its children) from the token list; fuel = number of tokens. -/
def parseNode : Nat → List String → Option (Re × List String)
  | 0, _ => none
  | _, [] => none
  | fuel+1, tok :: rest =>
    match tok.splitOn "/" with
    | [op, flags, nsub, runes, lo, hi] => do
      let op ← (← parseNat op) |> opOfNat
      let flags ← parseNat flags
      let nsub ← parseNat nsub
      let runes ← (if runes = "" then some [] else (runes.splitOn ".").mapM parseNat)
      let lo ← parseInt lo
      let hi ← parseInt hi
      let rec kids : Nat → List String → List Re → Option (List Re × List String)
        | 0, toks, acc => some (acc.reverse, toks)
        | k+1, toks, acc =>
          match parseNode fuel toks with
          | some (r, toks') => kids k toks' (r :: acc)
          | none => none
      let (subs, rest') ← kids nsub rest []
      pure (Re.mk op (flags % 2 = 1) (flags / 2 % 2 = 1) subs runes lo hi, rest')
    | _ => none

def parseAst (s : String) : Option Re :=
  let toks := s.splitOn ","
  match parseNode (toks.length + 1) toks with
  | some (r, []) => some r
  | _ => none

def showSpans (l : List (Nat × Nat)) : String :=
  if l.isEmpty then "-" else ",".intercalate (l.map fun (s, e) => s!"{s}.{e}")

def showInfo (i : AnchoredLiteralInfo) : String :=
  s!"{toHex i.pfx}/{toHex i.sfx}/{match i.charClassTable with | some t => showTable t | none => "-"}/{i.charClassMin}/{i.wildcardMin}/{i.minLength}/{if i.wildcardMatchesNewline then 1 else 0}"

def handle? (toks : List String) : Option String :=
  match toks with
  | ["ccs", op, at_, hex, mm, tbl] => some <|
    match parseNat at_, parseHex hex, parseNat mm, parseTable tbl with
    | some at_, some h, some mm, some t =>
      let s : CharClassSearcher := { membership := t, minMatch := mm }
      match op with
      | "search" => Driver.showSpan (s.searchAt h at_)
      | "ismatch" => toString (s.isMatch h)
      | "findall" => showSpans (s.findAllIndices h)
      | "count" => toString (s.count h)
      | "spec" => Driver.showSpan (Spec.ccFind s.mem mm h at_)
      | "specall" => showSpans (Std.stdFindAll (Spec.ccFind s.mem mm h) id (fun _ => 1) h.size (-1))
      | _ => "bad-op"
    | _, _, _, _ => "bad-op"
  | ["composite", op, at_, hex, parts] => some <|
    match parseNat at_, parseHex hex, parseParts parts with
    | some at_, some h, some ps =>
      let c : CompositeSearcher := { parts := ps }
      match op with
      | "search" => Driver.showSpan (c.searchAt h at_)
      | "ismatch" => toString (c.isMatch h)
      | "spec" => Driver.showSpan (Spec.compFind (ps.map Spec.partOf) h at_)
      | _ => "bad-op"
    | _, _, _ => "bad-op"
  | ["anchlit", op0, at_, hex, pfx, sfx, tbl, ccMin, wMin, minLen, nl] => some <|
    match parseNat at_, parseHex hex, parseHex pfx, parseHex sfx, parseNat ccMin, parseNat wMin, parseNat minLen,
          (if nl = "1" then some true else if nl = "0" then some false else none) with
    | some at_, some h, some pfx, some sfx, some ccMin, some wMin, some minLen, some nl =>
      let (op, dotNL) := if op0 = "specs" then ("spec", true) else if op0 = "specn" then ("spec", false) else (op0, nl)
      match (if tbl = "-" then some none else (parseTable tbl).map some) with
      | none => "bad-op"
      | some t =>
        let info : AnchoredLiteralInfo :=
          { pfx := pfx, sfx := sfx, charClassTable := t, charClassMin := ccMin, wildcardMin := wMin, minLength := minLen,
            wildcardMatchesNewline := nl }
        match op with
        | "match" => toString (matchAnchoredLiteral h info)
        | "find" => Driver.showSpan (anchoredFindAt h info at_)
        | "spec" => toString (Spec.anchoredSpecB dotNL info h)
        | _ => "bad-op"
    | _, _, _, _, _, _, _, _ => "bad-op"
  | ["re-ccs", ast] => some <|
    match parseAst ast with
    | some re =>
      match extractCharClassRanges re with
      | none => "nil"
      | some rs => "_".intercalate (rs.map fun (a, b) => s!"{a}-{b}")
    | none => "bad-op"
  | ["re-composite", op, at_, hex, ast] => some <|
    match parseNat at_, parseHex hex, parseAst ast with
    | some at_, some h, some re =>
      if op = "is" then toString (isCompositeCharClassPattern re) else
      match newCompositeSearcher re with
      | none => "nil-searcher"
      | some c =>
        match op with
        | "search" => Driver.showSpan (c.searchAt h at_)
        | "ismatch" => toString (c.isMatch h)
        | _ => "bad-op"
    | _, _, _ => "bad-op"
  | ["re-spec", at_, hex, ast] => some <|
    match parseNat at_, parseHex hex, parseAst ast with
    | some at_, some h, some re =>
      if isSimpleCharClassPlus re then
        match re.sub with
        | [c] => Driver.showSpan (Spec.plusFind re.nonGreedy (tableOfRanges (pairs c.rune)).mem h at_)
        | _ => "bad-op"
      else match Spec.astParts re with
        | some ps => Driver.showSpan (Spec.compFind ps h at_)
        | none => "nil-spec"
    | _, _, _ => "bad-op"
  | ["re-ref", at_, hex, ast] => some <|
    match parseNat at_, parseHex hex, parseAst ast with
    | some at_, some h, some re => Driver.showSpan (Ref.refFind re h at_)
    | _, _, _ => "bad-op"
  | ["re-bdspec", hex, ast] => some <|
    match parseHex hex, parseAst ast with
    | some h, some re =>
      if bdFrag re then Driver.showSpan (altFind ((bdBranches re).map branchOf) h) else "nil-frag"
    | _, _ => "bad-op"
  | ["re-fbfrag", ast] => some <|
    match parseAst ast with
    | some re => toString (fbFrag 21 re)
    | none => "bad-op"
  | ["re-anchlit", op, hex, ast] => some <|
    match parseHex hex, parseAst ast with
    | some h, some re =>
      match detectAnchoredLiteral re with
      | none => "nil"
      | some info =>
        match op with
        | "info" => showInfo info
        | "match" => toString (matchAnchoredLiteral h info)
        | _ => "bad-op"
    | _, _ => "bad-op"
  | ["re-fb", ast] => some <|
    match parseAst ast with
    | some re =>
      match extractFirstBytes re with
      | none => "nil"
      | some fb => s!"{fb.count}/{fb.complete}/{showTable fb.bytes}"
    | none => "bad-op"
  | ["re-bd", op, hex, ast] => some <|
    match parseHex hex, parseAst ast with
    | some h, some re =>
      if op = "is" then toString (isBranchDispatchPattern re) else
      match metaBranchDispatcher re with
      | none => "nil-searcher"
      | some d =>
        match op with
        | "search" => Driver.showSpan (d.search h)
        | "ismatch" => toString (d.isMatch h)
        | _ => "bad-op"
    | _, _ => "bad-op"
  | _ => none

end Cx.DriverFast
