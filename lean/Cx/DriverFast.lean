import Cx.Driver
import Cx.Model.Fast
import Cx.Spec.Fast
import Cx.Spec.ReRef
/-
  Cx.DriverFast — line-protocol requests for the fast-path searcher models (Cx.Model.Fast) and their specs.

  Encodings
  * `hayhex`  : haystack, hex ("-" = empty).
  * `tblhex`  : 256-bit membership table as 32 bytes of hex; byte value `b` is a member iff bit `b % 8`
                (least-significant bit = 0) of table byte `b / 8` is set.  `[a-c]` = bytes 12..: "…0e…".
  * `parts`   : `min:max:tblhex` joined by `;`   (`max` is the Go `maxMatch` field verbatim: `0` or `-1` = unbounded).
  * `ast`     : a `syntax.Regexp` in preorder, nodes joined by `,`; node = `op/flags/nsub/runes/min/max`,
                `op` = Go's `syntax.Op` number (1 = OpNoMatch … 19 = OpAlternate), `flags` = 1·NonGreedy + 2·FoldCase,
                `runes` = `.`-separated decimal runes (may be empty).

  Requests (answer `bad-op` on malformed arguments, `none` for commands that are not ours)
  * `ccs search|ismatch|findall|count|spec|specall at hayhex minMatch tblhex`
        → `s,e`/`nil`; `true`/`false`; `s.e,s.e,…`/`-`; a number; (`spec` = Spec.ccFind, `specall` = stdlib loop over it)
  * `composite search|ismatch|spec at hayhex parts`       (`spec` = Spec.compFind on the translated parts)
  * `anchlit match|find|spec at hayhex prefixhex suffixhex tblhex ccMin wildcardMin minLength dotNL`  (tblhex may be a dash)
        `dotNL` (LAST argument, `0`/`1`) is the `WildcardMatchesNewline` field of the info
        (`spec` answers the byte-level specification with that `dotNL`; `specs` forces dotNL=true, `specn` dotNL=false)
  * `re-ccs ast`                      → `nil` or `lo-hi_lo-hi…`           (ExtractCharClassRanges)
  * `re-composite search|ismatch|is at hayhex ast` → result through NewCompositeSearcher (`nil-searcher` if nil);
                                        `is` = IsCompositeCharClassPattern
  * `re-spec at hayhex ast`           → the AST-level specification: Spec.plusFind for `cls+`/`cls+?`, Spec.compFind over
                                        Spec.astParts for a concatenation of quantified classes (`nil-spec` otherwise)
  * `re-ref at hayhex ast`            → Ref.refFind: the general leftmost-first reference matcher of Cx.Spec.ReRef
  * `re-bdspec hayhex ast`            → `nil-frag` unless `IsBranchDispatchPattern re`; else `Ref.refFind re h 0` (the reference
                                        semantics of the whole pattern, which the BranchDispatcher is proved equal to)
  * `re-fbfrag ast`                   → whether the pattern lies in the fragment `fbFrag` on which the first-byte filter is
                                        proved sound
  * `re-anchlit info|match hayhex ast` → DetectAnchoredLiteral: `nil` or `prefix/suffix/tbl/ccMin/wMin/minLen/dotNL` (tbl may be
                                        a dash; `dotNL` = `WildcardMatchesNewline` as `0`/`1`, LAST field);
                                        `match` = `nil` or MatchAnchoredLiteral
  * `re-fb ast`                       → ExtractFirstBytes: `nil` or `count/complete/tblhex`
  * `re-bd is|search|ismatch hayhex ast` → IsBranchDispatchPattern; Search/IsMatch of the dispatcher meta builds
                                        (`nil-searcher` when NewBranchDispatcher fails)

  `unicode.SimpleFold(r) != r` (used by the BranchDispatcher for `FoldCase` literals) is not part of the wire format:
  the model takes it as the parameter `hasFold`, and THIS driver supplies `hasSimpleFold`, a range table generated from
  Go's `unicode` package (see `simpleFoldRanges`; regenerate with `gocheck/gen` when the toolchain's Unicode version
  changes).  The exactness theorem (`C19_branchDispatcher`) holds for every `hasFold` that is `true` on the ASCII
  letters; `hasSimpleFold_sound` below checks that for the table.  Request and answer formats are unchanged.
-/
namespace Cx.DriverFast
open Cx Cx.Fast

/-- all runes `r` with `unicode.SimpleFold(r) != r`, as inclusive ranges
    (go1.25.4, Unicode 15.0.0: 2878 runes in 141 ranges) -/
def simpleFoldRanges : List (Nat × Nat) := [
  (0x41, 0x5A), (0x61, 0x7A), (0xB5, 0xB5), (0xC0, 0xD6), (0xD8, 0xF6), (0xF8, 0x12F), (0x132, 0x137), (0x139, 0x148),
  (0x14A, 0x18C), (0x18E, 0x19A), (0x19C, 0x1A9), (0x1AC, 0x1B9), (0x1BC, 0x1BD), (0x1BF, 0x1BF), (0x1C4, 0x1EF), (0x1F1, 0x220),
  (0x222, 0x233), (0x23A, 0x254), (0x256, 0x257), (0x259, 0x259), (0x25B, 0x25C), (0x260, 0x261), (0x263, 0x263), (0x265, 0x266),
  (0x268, 0x26C), (0x26F, 0x26F), (0x271, 0x272), (0x275, 0x275), (0x27D, 0x27D), (0x280, 0x280), (0x282, 0x283), (0x287, 0x28C),
  (0x292, 0x292), (0x29D, 0x29E), (0x345, 0x345), (0x370, 0x373), (0x376, 0x377), (0x37B, 0x37D), (0x37F, 0x37F), (0x386, 0x386),
  (0x388, 0x38A), (0x38C, 0x38C), (0x38E, 0x38F), (0x391, 0x3A1), (0x3A3, 0x3AF), (0x3B1, 0x3D1), (0x3D5, 0x3F5), (0x3F7, 0x3FB),
  (0x3FD, 0x481), (0x48A, 0x52F), (0x531, 0x556), (0x561, 0x586), (0x10A0, 0x10C5), (0x10C7, 0x10C7), (0x10CD, 0x10CD), (0x10D0, 0x10FA),
  (0x10FD, 0x10FF), (0x13A0, 0x13F5), (0x13F8, 0x13FD), (0x1C80, 0x1C88), (0x1C90, 0x1CBA), (0x1CBD, 0x1CBF), (0x1D79, 0x1D79), (0x1D7D, 0x1D7D),
  (0x1D8E, 0x1D8E), (0x1E00, 0x1E95), (0x1E9B, 0x1E9B), (0x1E9E, 0x1E9E), (0x1EA0, 0x1F15), (0x1F18, 0x1F1D), (0x1F20, 0x1F45), (0x1F48, 0x1F4D),
  (0x1F51, 0x1F51), (0x1F53, 0x1F53), (0x1F55, 0x1F55), (0x1F57, 0x1F57), (0x1F59, 0x1F59), (0x1F5B, 0x1F5B), (0x1F5D, 0x1F5D), (0x1F5F, 0x1F7D),
  (0x1F80, 0x1FB1), (0x1FB3, 0x1FB3), (0x1FB8, 0x1FBC), (0x1FBE, 0x1FBE), (0x1FC3, 0x1FC3), (0x1FC8, 0x1FCC), (0x1FD0, 0x1FD1), (0x1FD8, 0x1FDB),
  (0x1FE0, 0x1FE1), (0x1FE5, 0x1FE5), (0x1FE8, 0x1FEC), (0x1FF3, 0x1FF3), (0x1FF8, 0x1FFC), (0x2126, 0x2126), (0x212A, 0x212B), (0x2132, 0x2132),
  (0x214E, 0x214E), (0x2160, 0x217F), (0x2183, 0x2184), (0x24B6, 0x24E9), (0x2C00, 0x2C70), (0x2C72, 0x2C73), (0x2C75, 0x2C76), (0x2C7E, 0x2CE3),
  (0x2CEB, 0x2CEE), (0x2CF2, 0x2CF3), (0x2D00, 0x2D25), (0x2D27, 0x2D27), (0x2D2D, 0x2D2D), (0xA640, 0xA66D), (0xA680, 0xA69B), (0xA722, 0xA72F),
  (0xA732, 0xA76F), (0xA779, 0xA787), (0xA78B, 0xA78D), (0xA790, 0xA794), (0xA796, 0xA7AE), (0xA7B0, 0xA7CA), (0xA7D0, 0xA7D1), (0xA7D6, 0xA7D9),
  (0xA7F5, 0xA7F6), (0xAB53, 0xAB53), (0xAB70, 0xABBF), (0xFF21, 0xFF3A), (0xFF41, 0xFF5A), (0x10400, 0x1044F), (0x104B0, 0x104D3), (0x104D8, 0x104FB),
  (0x10570, 0x1057A), (0x1057C, 0x1058A), (0x1058C, 0x10592), (0x10594, 0x10595), (0x10597, 0x105A1), (0x105A3, 0x105B1), (0x105B3, 0x105B9), (0x105BB, 0x105BC),
  (0x10C80, 0x10CB2), (0x10CC0, 0x10CF2), (0x118A0, 0x118DF), (0x16E40, 0x16E7F), (0x1E900, 0x1E943)]

/-- `unicode.SimpleFold(r) != r` -/
def hasSimpleFold (r : Nat) : Bool := simpleFoldRanges.any fun p => decide (p.1 ≤ r) && decide (r ≤ p.2)

/-- the table is `true` on the ASCII letters: the side condition `FoldSound` of the exactness theorem -/
theorem hasSimpleFold_sound : FoldSound hasSimpleFold := by
  intro r hr
  unfold Ref.isAsciiLetter at hr
  simp only [Bool.or_eq_true, Bool.and_eq_true, decide_eq_true_eq] at hr
  unfold hasSimpleFold simpleFoldRanges
  rw [List.any_cons, List.any_cons]
  rcases hr with ⟨h1, h2⟩ | ⟨h1, h2⟩
  · simp [h1, h2]
  · simp [h1, h2]

def parseTable (s : String) : Option Table := do
  let b ← parseHex s
  if b.size ≠ 32 then none else
  some (Array.ofFn (n := 256) fun i => decide ((b.at (i.val / 8) >>> (i.val % 8)) % 2 = 1))

def showTable (t : Table) : String :=
  toHex (Array.ofFn (n := 32) fun i =>
    (List.range 8).foldl (fun acc k => acc + (if t.mem (i.val * 8 + k) then 2 ^ k else 0)) 0)

def parsePart (s : String) : Option CharClassPart :=
  match s.splitOn ":" with
  | [lo, hi, tbl] => do
    pure { minMatch := (← parseNat lo), maxMatch := (← parseInt hi), membership := (← parseTable tbl) }
  | _ => none

def parseParts (s : String) : Option (List CharClassPart) :=
  if s = "-" ∨ s = "" then some [] else (s.splitOn ";").mapM parsePart

def opOfNat : Nat → Option Op
  | 1 => some .noMatch | 2 => some .emptyMatch | 3 => some .literal | 4 => some .charClass
  | 5 => some .anyCharNotNL | 6 => some .anyChar | 7 => some .beginLine | 8 => some .endLine
  | 9 => some .beginText | 10 => some .endText | 11 => some .wordBoundary | 12 => some .noWordBoundary
  | 13 => some .capture | 14 => some .star | 15 => some .plus | 16 => some .quest | 17 => some .repeat_
  | 18 => some .concat | 19 => some .alternate | _ => none

/-- parse one node (and its children) from the token list; fuel = number of tokens. -/
def parseNode : Nat → List String → Option (Re × List String)
  | 0, _ => none
  | _, [] => none
  | fuel+1, tok :: rest =>
    match tok.splitOn "/" with
    | [op, flags, nsub, runes, lo, hi] => do
      let op ← (← parseNat op) |> opOfNat
      let flags ← parseNat flags
      let nsub ← parseNat nsub
      let runes ← (if runes = "" then some [] else (runes.splitOn ".").mapM parseNat)
      let lo ← parseInt lo
      let hi ← parseInt hi
      let rec kids : Nat → List String → List Re → Option (List Re × List String)
        | 0, toks, acc => some (acc.reverse, toks)
        | k+1, toks, acc =>
          match parseNode fuel toks with
          | some (r, toks') => kids k toks' (r :: acc)
          | none => none
      let (subs, rest') ← kids nsub rest []
      pure (Re.mk op (flags % 2 = 1) (flags / 2 % 2 = 1) subs runes lo hi, rest')
    | _ => none

def parseAst (s : String) : Option Re :=
  let toks := s.splitOn ","
  match parseNode (toks.length + 1) toks with
  | some (r, []) => some r
  | _ => none

def showSpans (l : List (Nat × Nat)) : String :=
  if l.isEmpty then "-" else ",".intercalate (l.map fun (s, e) => s!"{s}.{e}")

def showInfo (i : AnchoredLiteralInfo) : String :=
  s!"{toHex i.pfx}/{toHex i.sfx}/{match i.charClassTable with | some t => showTable t | none => "-"}/{i.charClassMin}/{i.wildcardMin}/{i.minLength}/{if i.wildcardMatchesNewline then 1 else 0}"

def handle? (toks : List String) : Option String :=
  match toks with
  | ["ccs", op, at_, hex, mm, tbl] => some <|
    match parseNat at_, parseHex hex, parseNat mm, parseTable tbl with
    | some at_, some h, some mm, some t =>
      let s : CharClassSearcher := { membership := t, minMatch := mm }
      match op with
      | "search" => Driver.showSpan (s.searchAt h at_)
      | "ismatch" => toString (s.isMatch h)
      | "findall" => showSpans (s.findAllIndices h)
      | "count" => toString (s.count h)
      | "spec" => Driver.showSpan (Spec.ccFind s.mem mm h at_)
      | "specall" => showSpans (Std.stdFindAll (Spec.ccFind s.mem mm h) id (fun _ => 1) h.size (-1))
      | _ => "bad-op"
    | _, _, _, _ => "bad-op"
  | ["composite", op, at_, hex, parts] => some <|
    match parseNat at_, parseHex hex, parseParts parts with
    | some at_, some h, some ps =>
      let c : CompositeSearcher := { parts := ps }
      match op with
      | "search" => Driver.showSpan (c.searchAt h at_)
      | "ismatch" => toString (c.isMatch h)
      | "spec" => Driver.showSpan (Spec.compFind (ps.map Spec.partOf) h at_)
      | _ => "bad-op"
    | _, _, _ => "bad-op"
  | ["anchlit", op0, at_, hex, pfx, sfx, tbl, ccMin, wMin, minLen, nl] => some <|
    match parseNat at_, parseHex hex, parseHex pfx, parseHex sfx, parseNat ccMin, parseNat wMin, parseNat minLen,
          (if nl = "1" then some true else if nl = "0" then some false else none) with
    | some at_, some h, some pfx, some sfx, some ccMin, some wMin, some minLen, some nl =>
      let (op, dotNL) := if op0 = "specs" then ("spec", true) else if op0 = "specn" then ("spec", false) else (op0, nl)
      match (if tbl = "-" then some none else (parseTable tbl).map some) with
      | none => "bad-op"
      | some t =>
        let info : AnchoredLiteralInfo :=
          { pfx := pfx, sfx := sfx, charClassTable := t, charClassMin := ccMin, wildcardMin := wMin, minLength := minLen,
            wildcardMatchesNewline := nl }
        match op with
        | "match" => toString (matchAnchoredLiteral h info)
        | "find" => Driver.showSpan (anchoredFindAt h info at_)
        | "spec" => toString (Spec.anchoredSpecB dotNL info h)
        | _ => "bad-op"
    | _, _, _, _, _, _, _, _ => "bad-op"
  | ["re-ccs", ast] => some <|
    match parseAst ast with
    | some re =>
      match extractCharClassRanges re with
      | none => "nil"
      | some rs => "_".intercalate (rs.map fun (a, b) => s!"{a}-{b}")
    | none => "bad-op"
  | ["re-composite", op, at_, hex, ast] => some <|
    match parseNat at_, parseHex hex, parseAst ast with
    | some at_, some h, some re =>
      if op = "is" then toString (isCompositeCharClassPattern re) else
      match newCompositeSearcher re with
      | none => "nil-searcher"
      | some c =>
        match op with
        | "search" => Driver.showSpan (c.searchAt h at_)
        | "ismatch" => toString (c.isMatch h)
        | _ => "bad-op"
    | _, _, _ => "bad-op"
  | ["re-spec", at_, hex, ast] => some <|
    match parseNat at_, parseHex hex, parseAst ast with
    | some at_, some h, some re =>
      if isSimpleCharClassPlus re then
        match re.sub with
        | [c] => Driver.showSpan (Spec.plusFind re.nonGreedy (tableOfRanges (pairs c.rune)).mem h at_)
        | _ => "bad-op"
      else match Spec.astParts re with
        | some ps => Driver.showSpan (Spec.compFind ps h at_)
        | none => "nil-spec"
    | _, _, _ => "bad-op"
  | ["re-ref", at_, hex, ast] => some <|
    match parseNat at_, parseHex hex, parseAst ast with
    | some at_, some h, some re => Driver.showSpan (Ref.refFind re h at_)
    | _, _, _ => "bad-op"
  | ["re-bdspec", hex, ast] => some <|
    match parseHex hex, parseAst ast with
    | some h, some re =>
      if isBranchDispatchPattern hasSimpleFold re then Driver.showSpan (Ref.refFind re h 0) else "nil-frag"
    | _, _ => "bad-op"
  | ["re-fbfrag", ast] => some <|
    match parseAst ast with
    | some re => toString (fbFrag 21 re)
    | none => "bad-op"
  | ["re-anchlit", op, hex, ast] => some <|
    match parseHex hex, parseAst ast with
    | some h, some re =>
      match detectAnchoredLiteral re with
      | none => "nil"
      | some info =>
        match op with
        | "info" => showInfo info
        | "match" => toString (matchAnchoredLiteral h info)
        | _ => "bad-op"
    | _, _ => "bad-op"
  | ["re-fb", ast] => some <|
    match parseAst ast with
    | some re =>
      match extractFirstBytes re with
      | none => "nil"
      | some fb => s!"{fb.count}/{fb.complete}/{showTable fb.bytes}"
    | none => "bad-op"
  | ["re-bd", op, hex, ast] => some <|
    match parseHex hex, parseAst ast with
    | some h, some re =>
      if op = "is" then toString (isBranchDispatchPattern hasSimpleFold re) else
      match metaBranchDispatcher hasSimpleFold re with
      | none => "nil-searcher"
      | some d =>
        match op with
        | "search" => Driver.showSpan (d.search h)
        | "ismatch" => toString (d.isMatch h)
        | _ => "bad-op"
    | _, _ => "bad-op"
  | _ => none

end Cx.DriverFast
