import Cx.Model.Guards
import Cx.DriverFast
/-
  Cx.DriverGuards — driver requests for the strategy guards (Cx.Model.Guards).

    guards <name> <ast>   → true | false      `<name>` one of the names below, `<ast>` in the wire format of `Cx.DriverFast.parseAst`
                                               (the harness produces it with `astWire(re)`)
    guards all <ast>      → the answers of ALL guards, comma separated, in the order of `Cx.Guards.allGuards`:
                              hasWordBoundary, hasNonGreedyQuantifier, hasAnchorAssertions, hasMultilineLineAnchor, canMatchEmpty,
                              canMatchNewline, isSafeForReverseSuffix, isSafeForReverseInner, isSafeForMultilineReverseSuffix,
                              isSimpleCharClass, isDigitLeadPattern, isDigitRunSkipSafe, hasWordBoundaryAnchorCombo,
                              hasCaseInsensitiveUnicode, hasNonLineAnchors, lineAnchorLeadsEveryBranch, isStartAnchorOnly,
                              containsAnchor, isWildcardSubexpression, containsLineStartAnchor, containsWildcard, isWildcardOp,
                              isOptionalElement, isOptionalDigitOnly, normalForm
                            (`normalForm` is not a Go function: the parser normal form the theorems of Cx.Proofs.Guards assume)
    guards names -        → the names, comma separated (so that the harness can check the order it relies on)
-/
namespace Cx.DriverGuards
open Cx Cx.Fast

def handle? (toks : List String) : Option String :=
  match toks with
  | ["guards", "names", _] => some (",".intercalate (Guards.allGuards.map (·.1)))
  | ["guards", name, ast] => some <|
    match DriverFast.parseAst ast with
    | none => "bad-op"
    | some re =>
      if name = "all" then ",".intercalate (Guards.allGuards.map fun g => toString (g.2 re))
      else match Guards.allGuards.find? (fun g => g.1 = name) with
        | some g => toString (g.2 re)
        | none => "bad-op"
  | _ => none

end Cx.DriverGuards
