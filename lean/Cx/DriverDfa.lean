import Cx.Driver
import Cx.Model.Dfa
import Cx.Model.DfaRev
/-
  Cx.DriverDfa — line-protocol handler for the lazy DFA model (`Cx.Model.Dfa`).

    dfa search <at> <hayhex> <nfa>              uncached `SearchAt`, no byte classes        → end | -1 | G
    dfa anchored <at> <hayhex> <nfa>            uncached `SearchAtAnchored`                  → end | -1 | G
    dfa ismatch <hayhex> <nfa>                  uncached `IsMatch`                           → true | false | G
    dfa searchcap <capacity> <at> <hayhex> <nfa> `SearchAt` on a fresh cache of `capacity` bytes (stride 256,
                                                no clears allowed)                           → end | -1 | G
    dfa run <stride> <capacity> <maxclears> <classhex|-> <nfa> <ops>
        `ops` = `;`-separated `<op>.<at>.<hayhex>` executed in order on ONE cache (fresh at the start);
        op: S = SearchAt, A = SearchAtAnchored, M = IsMatch, I = IsMatchAt (cached);
            s, a, m, i = the same entry points without a cache; X = Reset the cache (`at`, `hayhex` ignored)
        reverse searches (`Cx.Model.DfaRev`), meaningful for a reverse DFA, i.e. under `dfa rev`:
            R.<start>.<end>.<hayhex>             SearchReverse                → start | -1
            L.<start>.<end>.<minStart>.<hayhex>  SearchReverseLimited         → start | -1 | -2  (SearchReverseLimitedQuadratic)
            Q.<start>.<end>.<hayhex>             IsMatchReverse               → t | f
            r, l, q = the same without a cache (= the NFA fallbacks nfaFallbackReverse / …Limited / …IsMatchReverse,
            i.e. `reverseWalk`); the reverse searches never answer `G` (their fallback is part of the model)
        answer: the results joined by `,` (end | -1 | t | f | G)
    dfa fwd <stride> <capacity> <maxclears> <detlimit> <classhex|-> <nfa> <ops>
        the same as `dfa run` with `DeterminizationLimit = <detlimit>` (a forward DFA: `BreakAtMatch = true`)
    dfa rev <stride> <capacity> <maxclears> <detlimit> <classhex|-> <nfa> <ops>
        the same as `dfa run` for a REVERSE DFA: `Config.BreakAtMatch = false` (as meta builds every reverse DFA),
        `DeterminizationLimit = <detlimit>`; `<nfa>` is the reverse automaton (`nfa.Reverse(N)` / `nfa.ReverseAnchored(N)`)
    dfa classcompat <classhex> <nfa>            classCompatB,classStepB (byte classes respect every byte range of the NFA and
                                                the distinctions its look-around makes: `\n`, word bytes)
    dfa btfirst <at> <hayhex> <nfa>             the reference for `SearchAtAnchored`: end of the first match the priority DFS
                                                finds from start position `at` (`Pike.btFirst N h at at`)      → end | -1
    dfa anchoredhead <nfa>                      anchoredHeadB (always-anchored automaton whose start state is `\A`)
    dfa hyps <nfa>                              wf,lookFree,noRune,sparseDisjoint,prefixOK,hasWB,hasEndLine,alwaysAnchored
  `G` = the code gives up and runs the Pike VM (`SearchAt` for S/M/I, the ANCHORED `SearchAtAnchored` for A).
  Malformed arguments answer `bad-op`.
-/
namespace Cx.DriverDfa
open Cx Cx.Dfa

def showEnd : Outcome (Option Nat) → String
  | .gaveUp => "G"
  | .ok none => "-1"
  | .ok (some e) => toString e

def showBool : Outcome Bool → String
  | .gaveUp => "G"
  | .ok true => "t"
  | .ok false => "f"

def showBoolLong : Outcome Bool → String
  | .gaveUp => "G"
  | .ok b => toString b

structure Op where
  op : String
  at_ : Nat
  h : Bytes
  /-- all numeric fields (`at_` is the first one) -/
  args : List Nat := []

def parseOp (s : String) : Option Op :=
  match s.splitOn "." with
  | [op, at_, hex] => do pure { op := op, at_ := (← parseNat at_), h := (← parseHex hex) }
  | [op, a, b, hex] => do pure { op := op, at_ := (← parseNat a), h := (← parseHex hex), args := [← parseNat a, ← parseNat b] }
  | [op, a, b, c, hex] => do
    pure { op := op, at_ := (← parseNat a), h := (← parseHex hex), args := [← parseNat a, ← parseNat b, ← parseNat c] }
  | _ => none

def showRev : RevSuffix.RevAnswer → String
  | .found s => toString s
  | .none => "-1"
  | .cutOff => "-2"

def showB (b : Bool) : String := if b then "t" else "f"

def runOps (N : Nfa.NFA) (cfg : Config) : List Op → Cache → List String → Option (List String)
  | [], _, acc => some acc.reverse
  | o :: os, c, acc =>
    match o.op with
    | "S" => let r := apiSearchAt N cfg c o.h o.at_; runOps N cfg os r.2 (showEnd r.1 :: acc)
    | "A" => let r := apiSearchAtAnchored N cfg c o.h o.at_; runOps N cfg os r.2 (showEnd r.1 :: acc)
    | "M" => let r := apiIsMatch N cfg c o.h; runOps N cfg os r.2 (showBool r.1 :: acc)
    | "I" => let r := apiIsMatchAt N cfg c o.h o.at_; runOps N cfg os r.2 (showBool r.1 :: acc)
    | "s" => runOps N cfg os c (showEnd (apiSearchAtU N cfg o.h o.at_) :: acc)
    | "a" => runOps N cfg os c (showEnd (apiSearchAtAnchoredU N cfg o.h o.at_) :: acc)
    | "m" => runOps N cfg os c (showBool (apiIsMatchU N cfg o.h) :: acc)
    | "i" => runOps N cfg os c (showBool (apiIsMatchAtU N cfg o.h o.at_) :: acc)
    | "X" => runOps N cfg os Cache.empty ("x" :: acc)
    | "R" =>
      match o.args with
      | [st, e] => let r := searchReverseC N cfg c o.h st e; runOps N cfg os r.2 (showRev r.1 :: acc)
      | _ => none
    | "L" =>
      match o.args with
      | [st, e, m] => let r := searchReverseLimitedC N cfg c o.h st e m; runOps N cfg os r.2 (showRev r.1 :: acc)
      | _ => none
    | "Q" =>
      match o.args with
      | [st, e] => let r := isMatchReverseC N cfg c o.h st e; runOps N cfg os r.2 (showB r.1 :: acc)
      | _ => none
    | "r" =>
      match o.args with
      | [st, e] => runOps N cfg os c (showRev (searchReverseU N cfg o.h st e) :: acc)
      | _ => none
    | "l" =>
      match o.args with
      | [st, e, m] => runOps N cfg os c (showRev (searchReverseLimitedU N cfg o.h st e m) :: acc)
      | _ => none
    | "q" =>
      match o.args with
      | [st, e] => runOps N cfg os c (showB (isMatchReverseU N cfg o.h st e) :: acc)
      | _ => none
    | _ => none

def parseCls (s : String) : Option (Nat → Nat) :=
  if s = "-" then some id else
  match parseHex s with
  | some a => if a.size = 256 then some (fun b => a.getD b 0) else none
  | none => none

def handle? (toks : List String) : Option String :=
  match toks with
  | ["dfa", "search", at_, hex, nfa] =>
    match parseNat at_, parseHex hex, Driver.parseNfa nfa with
    | some at_, some h, some N => some (showEnd (apiSearchAtU N Config.plain h at_))
    | _, _, _ => some "bad-op"
  | ["dfa", "anchored", at_, hex, nfa] =>
    match parseNat at_, parseHex hex, Driver.parseNfa nfa with
    | some at_, some h, some N => some (showEnd (apiSearchAtAnchoredU N Config.plain h at_))
    | _, _, _ => some "bad-op"
  | ["dfa", "ismatch", hex, nfa] =>
    match parseHex hex, Driver.parseNfa nfa with
    | some h, some N => some (showBoolLong (apiIsMatchU N Config.plain h))
    | _, _ => some "bad-op"
  | ["dfa", "searchcap", cap, at_, hex, nfa] =>
    match parseNat cap, parseNat at_, parseHex hex, Driver.parseNfa nfa with
    | some cap, some at_, some h, some N =>
      some (showEnd (apiSearchAt N { Config.plain with capacity := cap } Cache.empty h at_).1)
    | _, _, _, _ => some "bad-op"
  | ["dfa", "run", stride, cap, clears, cls, nfa, ops] =>
    match parseNat stride, parseNat cap, parseNat clears, parseCls cls, Driver.parseNfa nfa,
        (ops.splitOn ";").mapM parseOp with
    | some stride, some cap, some clears, some cls, some N, some ops =>
      let cfg : Config := { capacity := cap, maxClears := clears, stride := stride, cls := cls }
      match runOps N cfg ops Cache.empty [] with
      | some rs => some (",".intercalate rs)
      | none => some "bad-op"
    | _, _, _, _, _, _ => some "bad-op"
  | ["dfa", "fwd", stride, cap, clears, det, cls, nfa, ops] =>
    match parseNat stride, parseNat cap, parseNat clears, parseNat det, parseCls cls, Driver.parseNfa nfa,
        (ops.splitOn ";").mapM parseOp with
    | some stride, some cap, some clears, some det, some cls, some N, some ops =>
      let cfg : Config := { capacity := cap, maxClears := clears, stride := stride, cls := cls, detLimit := det }
      match runOps N cfg ops Cache.empty [] with
      | some rs => some (",".intercalate rs)
      | none => some "bad-op"
    | _, _, _, _, _, _, _ => some "bad-op"
  | ["dfa", "rev", stride, cap, clears, det, cls, nfa, ops] =>
    match parseNat stride, parseNat cap, parseNat clears, parseNat det, parseCls cls, Driver.parseNfa nfa,
        (ops.splitOn ";").mapM parseOp with
    | some stride, some cap, some clears, some det, some cls, some N, some ops =>
      let cfg : Config :=
        { capacity := cap, maxClears := clears, stride := stride, cls := cls, detLimit := det, breakAtMatch := false }
      match runOps N cfg ops Cache.empty [] with
      | some rs => some (",".intercalate rs)
      | none => some "bad-op"
    | _, _, _, _, _, _, _ => some "bad-op"
  | ["dfa", "classcompat", cls, nfa] =>
    match parseCls cls, Driver.parseNfa nfa with
    | some cls, some N => some (toString (classCompatB N cls) ++ "," ++ toString (classStepB N cls))
    | _, _ => some "bad-op"
  | ["dfa", "btfirst", at_, hex, nfa] =>
    match parseNat at_, parseHex hex, Driver.parseNfa nfa with
    | some at_, some h, some N =>
      some (showEnd (.ok (Nfa.btFind { N := N, h := h, spanStart := at_ } (Nfa.btFuel N h) at_ N.startAnchored
        (Nfa.freshVis N h)).1))
    | _, _, _ => some "bad-op"
  | ["dfa", "anchoredhead", nfa] =>
    match Driver.parseNfa nfa with
    | some N => some (toString (anchoredHeadB N))
    | none => some "bad-op"
  | ["dfa", "hyps", nfa] =>
    match Driver.parseNfa nfa with
    | some N => some (",".intercalate ([wfB N, lookFreeB N, noRuneB N, sparseDisjointB N, prefixOKB N, hasWB N,
        hasEndLine N, alwaysAnchored N].map toString))
    | none => some "bad-op"
  | "dfa" :: _ => some "bad-op"
  | _ => none

end Cx.DriverDfa
