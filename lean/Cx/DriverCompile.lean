import Cx.Basic
import Cx.Model.Nfa
import Cx.Spec.Regex
import Cx.Model.Compile
/-
  Cx.DriverCompile — line-protocol commands for the compiler model.

    compile  <sexp>          model of `nfa.NewCompiler(cfg).CompileRegexp(re)` with
                             cfg = DefaultCompilerConfig() + Anchored: true   (no unanchored prefix)
    compileu <sexp>          the same with cfg = DefaultCompilerConfig()      (unanchored prefix unless the pattern
                             starts with \A)
    compiled <depth> <sexp>  like `compile` with MaxRecursionDepth = depth

  Answer: the NFA in the dump format `Cx.Driver.parseNfa` reads (`sa/su/st;st;…`, see there), or `error` when the
  model compiler returns an error (recursion limit, `OpNoMatch`, `{m,n}` with m > n, a class outside the model).
  `InvalidState` targets are printed as 4294967295, as the Go dump prints them.

  AST grammar (no spaces anywhere; tokens are `(`, `)`, `,` and atoms = maximal runs of other characters):

    re     ::= (empty)                       OpEmptyMatch
             | (nomatch)                     OpNoMatch
             | (lit,HEX)                     OpLiteral, HEX = the UTF-8 bytes, two hex digits each; `-` = no bytes
             | (cls,RANGES)  |  (cls)        OpCharClass; `(cls)` = the empty class
             | (look,K)                      K = 0 \A, 1 \z, 2 (?m)^, 3 (?m)$, 4 \b, 5 \B
             | (cap,IDX,re)                  OpCapture, IDX decimal
             | (star,G,re) | (plus,G,re) | (quest,G,re)       G = 1 greedy, 0 non-greedy
             | (rep,G,MIN,MAX,re)            MIN decimal, MAX decimal or `inf` (Go: -1)
             | (cat,re,…,re) | (cat)         OpConcat (any number of operands)
             | (alt,re,…,re) | (alt)         OpAlternate
    RANGES ::= RANGE | RANGE_RANGES          RANGE ::= HH-HH   (lo-hi, two hex digits each)

  Example: (cat,(lit,6162),(star,1,(cls,61-7a_30-39)))   for  ab[0-9a-z]*
-/
namespace Cx.DriverCompile
open Cx Cx.Nfa Cx.Compile

inductive Tok where
  | lp | rp | comma
  | atom (s : String)
  deriving Repr, BEq

def pushAtom (acc : List Char) (out : Array Tok) : Array Tok :=
  if acc.isEmpty then out else out.push (.atom (String.ofList acc.reverse))

def tokenize : List Char → List Char → Array Tok → List Tok
  | [], acc, out => (pushAtom acc out).toList
  | c :: cs, acc, out =>
    if c = '(' then tokenize cs [] ((pushAtom acc out).push .lp)
    else if c = ')' then tokenize cs [] ((pushAtom acc out).push .rp)
    else if c = ',' then tokenize cs [] ((pushAtom acc out).push .comma)
    else tokenize cs (c :: acc) out

def parseHexByte (s : String) : Option Nat :=
  match s.toList with
  | [a, b] => do pure ((← hexVal a) * 16 + (← hexVal b))
  | _ => none

def parseClsRanges (s : String) : Option (List (Nat × Nat)) :=
  (s.splitOn "_").mapM fun r =>
    match r.splitOn "-" with
    | [lo, hi] => do pure ((← parseHexByte lo), (← parseHexByte hi))
    | _ => none

def parseLook (s : String) : Option Look :=
  match s with
  | "0" => some .startText | "1" => some .endText | "2" => some .startLine
  | "3" => some .endLine | "4" => some .wordB | "5" => some .noWordB | _ => none

def parseGreedy (s : String) : Option Bool :=
  match s with
  | "1" => some true | "0" => some false | _ => none

def parseMax (s : String) : Option (Option Nat) :=
  if s = "inf" then some none else (parseNat s).map some

mutual
/-- one `re`; returns the rest of the token stream -/
def parseRe : Nat → List Tok → Option (Regex × List Tok)
  | 0, _ => none
  | fuel+1, toks =>
    match toks with
    | .lp :: .atom "empty" :: .rp :: rest => some (.emptyMatch, rest)
    | .lp :: .atom "nomatch" :: .rp :: rest => some (.noMatch, rest)
    | .lp :: .atom "lit" :: .comma :: .atom hx :: .rp :: rest =>
      match parseHex hx with
      | some bs => some (.lit bs.toList, rest)
      | none => none
    | .lp :: .atom "cls" :: .rp :: rest => some (.cls [], rest)
    | .lp :: .atom "cls" :: .comma :: .atom rs :: .rp :: rest =>
      match parseClsRanges rs with
      | some l => some (.cls l, rest)
      | none => none
    | .lp :: .atom "look" :: .comma :: .atom k :: .rp :: rest =>
      match parseLook k with
      | some k => some (.look k, rest)
      | none => none
    | .lp :: .atom "cap" :: .comma :: .atom idx :: .comma :: rest =>
      match parseNat idx, parseRe fuel rest with
      | some idx, some (r, .rp :: rest) => some (.cap idx r, rest)
      | _, _ => none
    | .lp :: .atom "star" :: .comma :: .atom g :: .comma :: rest =>
      match parseGreedy g, parseRe fuel rest with
      | some g, some (r, .rp :: rest) => some (.star r g, rest)
      | _, _ => none
    | .lp :: .atom "plus" :: .comma :: .atom g :: .comma :: rest =>
      match parseGreedy g, parseRe fuel rest with
      | some g, some (r, .rp :: rest) => some (.plus r g, rest)
      | _, _ => none
    | .lp :: .atom "quest" :: .comma :: .atom g :: .comma :: rest =>
      match parseGreedy g, parseRe fuel rest with
      | some g, some (r, .rp :: rest) => some (.quest r g, rest)
      | _, _ => none
    | .lp :: .atom "rep" :: .comma :: .atom g :: .comma :: .atom mn :: .comma :: .atom mx :: .comma :: rest =>
      match parseGreedy g, parseNat mn, parseMax mx, parseRe fuel rest with
      | some g, some mn, some mx, some (r, .rp :: rest) => some (.rep r mn mx g, rest)
      | _, _, _, _ => none
    | .lp :: .atom "cat" :: rest =>
      match parseArgs fuel rest with
      | some (rs, rest) => some (.cat rs, rest)
      | none => none
    | .lp :: .atom "alt" :: rest =>
      match parseArgs fuel rest with
      | some (rs, rest) => some (.alt rs, rest)
      | none => none
    | _ => none
/-- `(",", re)* ")"` -/
def parseArgs : Nat → List Tok → Option (List Regex × List Tok)
  | 0, _ => none
  | fuel+1, toks =>
    match toks with
    | .rp :: rest => some ([], rest)
    | .comma :: rest =>
      match parseRe fuel rest with
      | some (r, rest) =>
        match parseArgs fuel rest with
        | some (rs, rest) => some (r :: rs, rest)
        | none => none
      | none => none
    | _ => none
end

def parseSexp (s : String) : Option Regex :=
  let toks := tokenize s.toList [] #[]
  match parseRe (toks.length + 1) toks with
  | some (r, []) => some r
  | _ => none

def lookCode : Look → Nat
  | .startText => 0 | .endText => 1 | .startLine => 2 | .endLine => 3 | .wordB => 4 | .noWordB => 5

def showState : NState → String
  | .mtch => "M"
  | .fail => "F"
  | .byteRange lo hi nx => s!"B.{lo}.{hi}.{nx}"
  | .sparse ts => "S." ++ "_".intercalate (ts.map fun t => s!"{t.1}-{t.2.1}-{t.2.2}")
  | .split l r => s!"P.{l}.{r}"
  | .eps nx => s!"E.{nx}"
  | .cap idx st nx => s!"C.{idx}.{if st then 1 else 0}.{nx}"
  | .look k nx => s!"L.{lookCode k}.{nx}"
  | .runeAny nx => s!"A.{nx}"
  | .runeAnyNotNL nx => s!"N.{nx}"

def showNfa (N : NFA) : String :=
  s!"{N.startAnchored}/{N.startUnanchored}/" ++ ";".intercalate (N.states.toList.map showState)

def runCompile (cfg : Config) (sexp : String) : String :=
  match parseSexp sexp with
  | none => "bad-op"
  | some re =>
    match compileTop cfg re with
    | some N => showNfa N
    | none => "error"

def handle? (toks : List String) : Option String :=
  match toks with
  | ["compile", sexp] => some (runCompile { anchored := true, maxDepth := 100 } sexp)
  | ["compileu", sexp] => some (runCompile { anchored := false, maxDepth := 100 } sexp)
  | ["compiled", d, sexp] =>
    match parseNat d with
    | some d => some (runCompile { anchored := true, maxDepth := d } sexp)
    | none => some "bad-op"
  | _ => none

end Cx.DriverCompile
