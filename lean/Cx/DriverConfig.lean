import Cx.Model.Config
/-! `config validate <dfa 0|1> <pf 0|1> <maxStates> <detLimit> <minLit> <maxLits> <depth> <ascii 0|1>` → `ok` | field name -/
namespace Cx.DriverConfig
open Cx Cx.Config

def handle? (toks : List String) : Option String :=
  match toks with
  | ["config", "validate", d, p, ms, dl, ml, mx, dp, a] =>
    match parseNat ms, parseInt dl, parseInt ml, parseInt mx, parseInt dp with
    | some ms, some dl, some ml, some mx, some dp =>
      let c : Config := { enableDFA := d == "1", enablePrefilter := p == "1", maxDFAStates := ms, determinizationLimit := dl,
                          minLiteralLen := ml, maxLiterals := mx, maxRecursionDepth := dp, enableASCIIOptimization := a == "1" }
      some ((validate c).getD "ok")
    | _, _, _, _, _ => some "bad-op"
  | ["config", "default"] =>
    let c := Config.default
    some s!"{c.enableDFA} {c.enablePrefilter} {c.maxDFAStates} {c.determinizationLimit} {c.minLiteralLen} {c.maxLiterals} {c.maxRecursionDepth} {c.enableASCIIOptimization}"
  | _ => none

end Cx.DriverConfig
