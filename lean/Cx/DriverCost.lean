import Cx.Driver
import Cx.Model.Cost
/-
  Cx.DriverCost — line-protocol handler for the step-counting models (C05).
  Request `cost <op> <at> <hayhex> <nfa>` with op ∈ {bt-ismatch, bt-search, bt-search-shared, pike-search};
  answers `<steps>` (a natural number, units as documented in Cx/Model/Cost.lean):
    bt-ismatch         total `shouldVisit` evaluations of `IsMatchWithState` (`at` is ignored)
    bt-search          total `shouldVisit` evaluations of `SearchAtWithState` as it is (fresh visited set per start)
    bt-search-shared   the same search with ONE visited set for all start positions
    pike-search        cost of `SearchWithSlotTableAt(haystack, at, SearchModeFind)`, leftmost-first
  malformed arguments answer `bad-op`; any other command is not handled (`none`).
-/
namespace Cx.DriverCost
open Cx

def handle? (toks : List String) : Option String :=
  match toks with
  | ["cost", op, at_, hex, nfa] =>
    match parseNat at_, parseHex hex, Driver.parseNfa nfa with
    | some at_, some h, some N =>
      match op with
      | "bt-ismatch" => some (toString (Nfa.btIsMatchC N h).2)
      | "bt-search" => some (toString (Nfa.btSearchAtC N h at_).2)
      | "bt-search-shared" => some (toString (Nfa.btSearchAtSharedC N h at_).2)
      | "pike-search" => some (toString (Pike.searchAtC N h at_ false).2)
      | _ => some "bad-op"
    | _, _, _ => some "bad-op"
  | _ => none

end Cx.DriverCost
