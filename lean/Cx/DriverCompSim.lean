import Cx.DriverFast
import Cx.Model.CompositeSim
import Cx.DriverCompDfa
/-
  Cx.DriverCompSim — line-protocol requests for the model of the rewritten CompositeSearcher (Cx.Model.CompositeSim).
  `ast` / `hayhex` as in Cx.DriverFast (`re-composite`) and Cx.DriverCompDfa (`re-cdfa`).

  * `re-csim search at hayhex ast`  → `s,e` / `nil` (`nil-searcher` when `NewCompositeSearcher` returns nil)
  * `re-csim ismatch hayhex ast`    → `true` / `false` (`nil-searcher` …)
  * `re-csim steps at hayhex ast`   → `new/old/nconfigs`: step count of the instrumented new `SearchAt`, step count of the
                                      old backtracking `SearchAt` (Cx.Fast.CompositeSearcher), number of configurations
  * `re-csim tables - ast`          → `nconfigs/startMatches/startClosure/closures` (ids joined by `.`)
  * `re-csim sweep alphahex L ast`  → every haystack over the alphabet up to length `L` (order of gocheck's `hays`): for
                                      each, `IsMatch` as `T`/`F`, then `SearchAt` for `at = 0 … len` as `s,e` or `n`, joined
                                      by `;`.  Builds the tables once.
-/
namespace Cx.DriverCompSim
open Cx Cx.Fast Cx.CompSim

def showIds (l : List Nat) : String := if l.isEmpty then "-" else ".".intercalate (l.map toString)

def sweep (s : CompositeSim) (alpha : List Nat) (L : Nat) : String :=
  let hs := DriverCompDfa.sweepHays alpha L #[] #[]
  let parts := hs.foldl (fun (acc : Array String) h =>
    let acc := acc.push (if s.isMatch h then "T" else "F")
    (List.range (h.size + 1)).foldl (fun acc a => acc.push (DriverCompDfa.showShort (s.searchAt h a))) acc) #[]
  ";".intercalate parts.toList

def handle? (toks : List String) : Option String :=
  match toks with
  | ["re-csim", "ismatch", hex, ast] => some <|
    match parseHex hex, DriverFast.parseAst ast with
    | some h, some re =>
      match newCompositeSim re with
      | none => "nil-searcher"
      | some s => toString (s.isMatch h)
    | _, _ => "bad-op"
  | ["re-csim", "sweep", alpha, l, ast] => some <|
    match parseHex alpha, parseNat l, DriverFast.parseAst ast with
    | some al, some l, some re =>
      match newCompositeSim re with
      | none => "nil-searcher"
      | some s => sweep s al.toList l
    | _, _, _ => "bad-op"
  | ["re-csim", "tables", _, ast] => some <|
    match DriverFast.parseAst ast with
    | none => "bad-op"
    | some re =>
      match newCompositeSim re with
      | none => "nil-searcher"
      | some s => s!"{s.configs.size}/{s.startMatches}/{showIds s.startClosure}/{showIds s.closures.toList}"
  | ["re-csim", op, at_, hex, ast] => some <|
    match parseNat at_, parseHex hex, DriverFast.parseAst ast with
    | some at_, some h, some re =>
      match newCompositeSim re with
      | none => "nil-searcher"
      | some s =>
        match op with
        | "search" => Driver.showSpan (s.searchAt h at_)
        | "steps" => s!"{(s.searchC h at_ false).2}/{(oldSearchAtC s.parts h at_).2}/{s.configs.size}"
        | _ => "bad-op"
    | _, _, _ => "bad-op"
  | _ => none

end Cx.DriverCompSim
