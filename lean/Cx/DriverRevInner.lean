import Cx.Driver
import Cx.DriverRevSuffix
import Cx.Model.RevInner
/-
  Cx.DriverRevInner — line-protocol handler for the reverse-inner strategy model (`Cx.Model.RevInner`).

    revinner run <at|*> <hay hex> <lits> <innerLen> <dsl> <flags> <mt> <pre> <ref> <anch>
        at     one start offset, or `*` for every offset 0..len
        lits   the inner literals the prefilter looks for: hex strings, comma separated
        dsl    `dotStarLiteral`: hex, or `x` for nil
        flags  seven digits `NSELCGT`: N = prefixNullable, S = startAnchored, E = exactStart, L = lineBounded,
               C = cutMode (0 exact unless below minStart | 1 always cutOff when allowed | 2 mixed),
               G = `SearchReverse` gives up (1) or not (0), T = stopMode of failed anchored scans (0 len | 1 at | 2 between)
        mt     the match relation of the WHOLE pattern on this haystack: `s.e,s.e,…` (or `-`)
        pre    the match relation of the PREFIX portion: `s.p,s.p,…` (or `-`)
        ref    the reference's leftmost-first span from every offset 0..len: `s.e` or `x`, comma separated (len+1 entries)
        anch   the end of the leftmost-first match starting EXACTLY at every offset 0..len: `e` or `x` (len+1 entries)
      The oracles are derived from the tables by brute force (`RevInner.bruteOracles`); the MODEL then runs `isMatchT` and
      `findIndicesAtT` (for every requested offset).  Answer:
        im=<true|false> <A>;<A>;…      one `A` per offset:
        A = <s.e|none>/pf=<n>/lim=<lo.hi,…|->/anch=<lo.hi,…|->/ima=<a,…|->/full=<lo.hi|->/fwd=<from|->/rc=<revCost>/ac=<anchCost>
    revinner pf <hay hex> <lits> <start>      the reference prefilter: position or -1
  Malformed arguments answer `bad-op`; any other command is not handled (`none`).
-/
namespace Cx.DriverRevInner
open Cx Cx.RevInner
open Cx.DriverRevSuffix (parsePairs parseRefTab showSpan showWin digit)

def parseLits (s : String) : Option (List Bytes) :=
  if s = "-" ∨ s = "" then some [] else (s.splitOn ",").mapM parseHex

def parseOptTab (s : String) : Option (Array (Option Nat)) :=
  ((s.splitOn ",").mapM fun t => if t = "x" then some none else t.toNat?.map some).map List.toArray

def mkTab (n : Nat) (ps : List (Nat × Nat)) : Nat → Nat → Bool :=
  let tab : Array Bool := ps.foldl (fun a p => a.setIfInBounds (p.1 * n + p.2) true) (Array.replicate (n * n) false)
  fun s e => decide (s < n ∧ e < n) && tab.getD (s * n + e) false

def showWins (ws : List (Nat × Nat)) : String := if ws.isEmpty then "-" else ",".intercalate (ws.map showWin)

def showOne (r : Option (Nat × Nat)) (t : Trace) : String :=
  let full := match t.full with | some w => showWin w | none => "-"
  let fwd := match t.fwd with | some f => toString f | none => "-"
  s!"{showSpan r}/pf={t.pfCalls}/lim={showWins t.limited}/anch={showWins t.anch}/ima={showNatList t.isMatchAts}/full={full}/fwd={fwd}/rc={t.revCost}/ac={t.anchCost}"

def run (ats : Option Nat) (h : Bytes) (lits : List Bytes) (innerLen : Nat) (dsl : Option Bytes) (flags : List Nat)
    (mt pre : List (Nat × Nat)) (ref : Array (Option (Nat × Nat))) (anch : Array (Option Nat)) : String :=
  match flags with
  | [n_, s_, e_, l_, c, g, st] =>
    let n := h.size + 1
    let O := bruteOracles lits (mkTab n mt) (mkTab n pre) (fun a => ref.getD a none) (fun a => anch.getD a none) c (g == 1) st h.size
    let P : Params := { innerLen := innerLen, dotStarLiteral := dsl, prefixNullable := n_ == 1, startAnchored := s_ == 1,
                        exactStart := e_ == 1, lineBounded := l_ == 1 }
    let m := (isMatchT O P h).1
    let one := fun a => let (r, t) := findIndicesAtT O P h a; showOne r t
    let body := match ats with
      | some a => one a
      | none => ";".intercalate ((List.range n).map one)
    s!"im={m} {body}"
  | _ => "bad-op"

def handle? (toks : List String) : Option String :=
  match toks with
  | ["revinner", "run", at_, hay, lits, il, dsl, flags, mt, pre, ref, anch] =>
    let ats : Option (Option Nat) := if at_ = "*" then some none else at_.toNat?.map some
    let dslv : Option (Option Bytes) := if dsl = "x" then some none else (parseHex dsl).map some
    match ats, parseHex hay, parseLits lits, il.toNat?, dslv, flags.toList.mapM digit, parsePairs mt, parsePairs pre,
          parseRefTab ref, parseOptTab anch with
    | some a, some h, some ls, some i, some d, some fl, some m, some p, some r, some an => some (run a h ls i d fl m p r an)
    | _, _, _, _, _, _, _, _, _, _ => some "bad-op"
  | ["revinner", "pf", hay, lits, st] =>
    match parseHex hay, parseLits lits, st.toNat? with
    | some h, some ls, some s => some (match refPfFindSet ls h s with | some p => toString p | none => "-1")
    | _, _, _ => some "bad-op"
  | "revinner" :: _ => some "bad-op"
  | _ => none

end Cx.DriverRevInner
