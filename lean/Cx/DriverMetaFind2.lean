import Cx.Driver
import Cx.DriverRevSuffix
import Cx.DriverRevInner
import Cx.DriverMetaFind
import Cx.Model.MetaFind2
/-
  Cx.DriverMetaFind2 — line-protocol handler for the strategy loops of `Cx.Model.MetaFind2` (UseDigitPrefilter / UseTeddy /
  UseAhoCorasick of `meta/find_indices.go`, their `IsMatch` and `Find` twins, `isMatchBoundedBacktracker`).

    metafind2 <fn> <flags> <nums> <at|*> <hay hex> <suffix hex> <pike> <im> <find> <dig> <anch> <pf> <pfm> <aho> <fat> <fatat> <bools> <fb> [<ac>]
        fn     digit | digitat | digitatws | teddy | teddyat | aho | ahoat              one function of find_indices.go
               | fdigit | fdigitat | fteddy | fteddyat | faho | fahoat | enginefindat.<st> the `Find` / `FindAt` twins of find.go (span)
               | find.<st> | findat.<st> | findatws.<st>                                 FindIndices / FindIndicesAt / findIndicesAtWithState
               | ismatch.<st>                                                            IsMatch, st = digit | teddy | aho | bt
               | all.<st>      `fi=<A> at=<A;…> ws=<A;…> im=<b> fa=<A;…>` (`fa` = Engine.FindAt at 0..len+1; st = bt: `im=<b>` only)
               | cost.digit | cost.ismatch    the instrumented twins at `at` (a number):
                               `<A>/scans=<d.stop,…|->/im=<a|->/pike=<a|->/calls=<n>/cost=<c>/bound=<(F+3)(len-at)+A>`
               | perscan.digit                the WRONG loop that charges the budget per scan, same answer format
        flags  15 digits `LPCMVDENAFYGSHT`: L = longest, P = prefilter != nil, C = prefilter.IsComplete(), M = prefilter implements
               FindMatch, V = prefilterPartialCoverage, D = dfa != nil, E = canMatchEmpty, N = boundedBacktracker != nil,
               A = asciiBoundedBacktracker != nil, F = anchoredFirstBytes != nil, Y = nfa.IsAlwaysAnchored(),
               G = digitPrefilter != nil, S = digitRunSkipSafe, H = ahoCorasick != nil, T = fatTeddyFallback != nil
        nums   `literalLen,btLimit,asciiLimit,budgetFactor,budgetAllowance,fatThreshold`   (CanHandle(k) = k <= btLimit / asciiLimit)
        at     one start offset, or `*` for every offset 0..len (answers separated by `;`)
        suffix `anchoredSuffix` (hex, `-` = none)
      tables, one entry per offset 0..len — DENSE: `v,v,…` (len+1 entries), or SPARSE: `lo-hi=v,a=v,…` (offsets not listed: the
      `x` entry), or `-` (the `x` entry everywhere), or `=` (derived, see below):
        pike   the Pike VM's span from every offset: `s.e` or `x`
        im     `IsMatchAt` from every offset: `1` / `0` entries (dense form also as one string of digits), `=` for "pike is some"
        find   `FindAt` from every offset (only `!= -1` is read): `e` or `x`, `=` for "the end of pike"
        dig    `digitPrefilter.Find` from every offset: `p` or `x`; `=` for the model's `memchrDigit` on the haystack
        anch   `SearchAtAnchoredStopAt` at every offset: `e:stop` or `x:stop` (entry `x` = `x:0`)
        pf     `prefilter.Find` from every offset: `p` or `x`
        pfm    `prefilter.FindMatch` from every offset: `s.e` or `x`, `=` for "pike"
        aho    `ahoCorasick.Find` from every offset: `s.e` or `x`, `=` for "pike"
        fat    `fatTeddyFallback.Find(h, a)`: `s.e` or `x`, `=` for "pike";  fatat  `fatTeddyFallback.FindAt(h, a)`: the same
        bools  5 digits: pikevm.IsMatch, boundedBacktracker.IsMatchWithState, asciiBoundedBacktracker.IsMatch, ahoCorasick.IsMatch,
               fatTeddyFallback.IsMatch; or `=` for "pike from 0 is some" for all of them
        fb     the bytes of the first-byte set (hex), or `*` for all bytes
        ac     OPTIONAL trailing field (HEAD 21d622b; requests without it are answered as before, with the defaults `0,0`):
               `<nested>,<maxLen>` = `e.ahoCorasickNested` (0 | 1), `e.ahoCorasickMaxLen` — read by `ahoCorasickSpan` only
      `fatat` is no longer read by the model of HEAD (`findTeddyAt` searches with `fatTeddyFallback.Find` = the `fat` table); the
      field stays in the protocol, and `fteddyat.anchored` runs the earlier (wrong) `findTeddyAtAnchored` over it;
      `aho.direct` / `ahoat.direct` run the earlier `ahoCorasickSpanDirect` (the automaton's answer as it is).
      The oracles are the tables (`MetaFind2.bruteOracles2`); the MODEL runs the loops.  Answer: `<s.e|none>` per offset.
    metafind2 acpf <nested>,<maxLen> <hay hex> <find> <findat>
        the model of `prefilter.AhoCorasickPrefilter.Find` (`ahoPrefilterFind`) from every offset 0..len: `p` or `x`, separated by `;`;
        `find` / `findat` = the automaton's `Find(h, a)` / `FindAt(h, a)` tables (`s.e` or `x`, dense or sparse as above)
    metafind2 lits <fn> <at> <hay hex> <lit hex>,<lit hex>,…
        the executable definitions on a literal list: fn = nested (`hasNestedLiteral`: 0 | 1) | maxlen (`litMaxLen`) |
        reflit (`refLit` from `at`) | endsfirst (`endsFirst` from `at`); `at` / `hay` are ignored by nested / maxlen
  Malformed arguments answer `bad-op`; any other command is not handled (`none`).
-/
namespace Cx.DriverMetaFind2
open Cx Cx.MetaFind2
open Cx.MetaFind (Span)
open Cx.DriverRevSuffix (showSpan digit)
open Cx.DriverMetaFind (showAll)

def parseSpanV (s : String) : Option (Option Span) :=
  if s = "x" then some none else
  match (s.splitOn ".").mapM String.toNat? with
  | some [a, b] => some (some (a, b))
  | _ => none

def parseNatV (s : String) : Option (Option Nat) :=
  if s = "x" then some none else s.toNat?.map some

def parseAnchV (s : String) : Option (Option Nat × Nat) :=
  if s = "x" then some (none, 0) else
  match s.splitOn ":" with
  | [e, st] => do
    let e ← parseNatV e
    let st ← st.toNat?
    some (e, st)
  | _ => none

def parseBoolV (s : String) : Option Bool :=
  if s = "1" then some true else if s = "0" ∨ s = "x" then some false else none

/-- a table over offsets `0..n-1`: dense (`v,v,…`), sparse (`lo-hi=v,a=v,…`), or `-` -/
def parseTab {α : Type} (pv : String → Option α) (dflt : α) (n : Nat) (s : String) : Option (Array α) :=
  if s = "-" ∨ s = "" then some (Array.replicate n dflt)
  else if s.contains '=' then
    (s.splitOn ",").foldlM (init := Array.replicate n dflt) fun acc item =>
      match item.splitOn "=" with
      | [rng, v] => do
        let v ← pv v
        match rng.splitOn "-" with
        | [a] => do
          let a ← a.toNat?
          some (acc.setIfInBounds a v)
        | [lo, hi] => do
          let lo ← lo.toNat?
          let hi ← hi.toNat?
          some ((List.range (min hi (n - 1) + 1 - lo)).foldl (fun ac k => ac.setIfInBounds (lo + k) v) acc)
        | _ => none
      | _ => none
  else ((s.splitOn ",").mapM pv).map List.toArray

def tabFn {α : Type} (dflt : α) (t : Array α) : Nat → α := fun a => t.getD a dflt

def parseFlags (s : String) : Option Params2 := do
  let ds ← s.toList.mapM digit
  match ds with
  | [l, p, c, m, v, d, e, n, a, f, y, g, sk, ho, t] =>
    some { longest := l == 1, hasPrefilter := p == 1, pfComplete := c == 1, pfHasFindMatch := m == 1,
           prefilterPartialCoverage := v == 1, hasDFA := d == 1, canMatchEmpty := e == 1, hasBT := n == 1, hasAsciiBT := a == 1,
           hasFirstBytes := f == 1, alwaysAnchored := y == 1, hasDigitPrefilter := g == 1, digitRunSkipSafe := sk == 1,
           hasAho := ho == 1, hasFatFallback := t == 1 }
  | _ => none

structure Req where
  P : Params2
  T : Tables2
  h : Bytes

def parseReq (flags nums hay suf pike im find dig anch pf pfm aho fat fatat bools fb : String) (ac : String := "0,0") :
    Option Req := do
  let P0 ← parseFlags flags
  let ns ← parseNatList nums
  let acs ← parseNatList ac
  let h ← parseHex hay
  let sf ← parseHex suf
  let n := h.size + 1
  let pk ← parseTab parseSpanV none n pike
  let pkf : Nat → Option Span := tabFn none pk
  let spanOr (s : String) : Option (Nat → Option Span) :=
    if s = "=" then some pkf else (parseTab parseSpanV none n s).map (tabFn none)
  let imf : Nat → Bool ←
    (if im = "=" then some fun a => (pkf a).isSome
     else if !im.contains ',' && !im.contains '=' && im ≠ "-" then
       (im.toList.mapM digit).map fun l => tabFn false (l.map (· == 1)).toArray
     else (parseTab parseBoolV false n im).map (tabFn false))
  let findf : Nat → Option Nat ←
    (if find = "=" then some fun a => (pkf a).map (·.2) else (parseTab parseNatV none n find).map (tabFn none))
  let digf : Nat → Option Nat ←
    (if dig = "=" then some (memchrDigit h) else (parseTab parseNatV none n dig).map (tabFn none))
  let anchf ← (parseTab parseAnchV (none, 0) n anch).map (tabFn (none, 0))
  let pff ← (parseTab parseNatV none n pf).map (tabFn none)
  let pfmf ← spanOr pfm
  let ahof ← spanOr aho
  let fatf ← spanOr fat
  let fatatf ← spanOr fatat
  let bs : List Bool ←
    (if bools = "=" then some (List.replicate 5 (pkf 0).isSome) else (bools.toList.mapM digit).map fun l => l.map (· == 1))
  let fbf : Nat → Bool ← (if fb = "*" then some fun _ => true else (parseHex fb).map fun bs b => bs.contains b)
  match ns, bs, acs with
  | [ll, bl, al, bf, ba, ft], [b1, b2, b3, b4, b5], [nested, maxLen] =>
    let P : Params2 := { P0 with literalLen := ll, budgetFactor := bf, budgetAllowance := ba, fatThreshold := ft, anchoredSuffix := sf,
                                  acNested := nested == 1, acMaxLen := maxLen }
    some { P := P, h := h,
           T := { mt := fun _ _ => false, pike := pkf, fwd := fun a => (pkf a).map (·.2), im := imf, find := findf, pf := pff,
                  pfm := pfmf, bt := pkf, fb := fbf, btLimit := bl, asciiLimit := al,
                  dig := digf, anchS := anchf, aho := ahof, fat := fatf, fatAt := fatatf,
                  pikeIs := b1, btIs := b2, asciiIs := b3, ahoIs := b4, fatIs := b5 } }
  | _, _, _ => none

def parseStrat : String → Option Strategy2
  | "digit" => some .digit
  | "teddy" => some .teddy
  | "aho" => some .aho
  | _ => none

/-- the function named `fn`, as a function of the offset; the Bool says whether it takes an offset -/
def pick (fn : String) (O : Oracles2) (P : Params2) (h : Bytes) : Option ((Nat → Option Span) × Bool) :=
  match fn.splitOn "." with
  | ["digit"] => some (fun _ => findIndicesDigitPrefilter O P h, false)
  | ["digitat"] => some (findIndicesDigitPrefilterAt O P h, true)
  | ["digitatws"] => some (findIndicesDigitPrefilterAtWithState O P h, true)
  | ["teddy"] => some (fun _ => findIndicesTeddy O P h, false)
  | ["teddyat"] => some (findIndicesTeddyAt O P h, true)
  | ["aho"] => some (fun _ => findIndicesAhoCorasick O P h, false)
  | ["ahoat"] => some (findIndicesAhoCorasickAt O P h, true)
  | ["fdigit"] => some (fun _ => findDigitPrefilter O P h, false)
  | ["fdigitat"] => some (findDigitPrefilterAt O P h, true)
  | ["fteddy"] => some (fun _ => findTeddy O P h, false)
  | ["fteddyat"] => some (findTeddyAt O P h, true)
  | ["fteddyat", "anchored"] => some (findTeddyAtAnchored O P h, true)
  | ["aho", "direct"] => some (fun _ => ahoCorasickSpanDirect O P h 0, false)
  | ["ahoat", "direct"] => some (ahoCorasickSpanDirect O P h, true)
  | ["faho"] => some (fun _ => findAhoCorasick O P h, false)
  | ["fahoat"] => some (findAhoCorasickAt O P h, true)
  | ["enginefindat", st] => (parseStrat st).map fun s => (engineFindAt O P s h, true)
  | ["find", st] => (parseStrat st).map fun s => (fun _ => findIndices O P s h, false)
  | ["findat", st] => (parseStrat st).map fun s => (findIndicesAt O P s h, true)
  | ["findatws", st] => (parseStrat st).map fun s => (findIndicesAtWithState O P s h, true)
  | _ => none

def showOptNat : Option Nat → String
  | some a => toString a
  | none => "-"

def showTrace (r : String) (t : Trace) (P : Params2) (h : Bytes) (at_ : Nat) : String :=
  let scans := if t.scans.isEmpty then "-" else ",".intercalate (t.scans.map fun w => s!"{w.1}.{w.2}")
  s!"{r}/scans={scans}/im={showOptNat t.fbIsMatch}/pike={showOptNat t.fbPike}/calls={t.digitCalls}/cost={t.cost h}/bound={(P.budgetFactor + 3) * (h.size - at_) + P.budgetAllowance}"

def run (fn at_ : String) (r : Req) : String :=
  let O := bruteOracles2 r.T
  let n := r.h.size + 1
  match fn.splitOn "." with
  | ["all", "bt"] => s!"im={isMatchBoundedBacktracker O r.P r.h}"
  | ["all", st] =>
    match parseStrat st with
    | some s =>
      s!"fi={showSpan (findIndices O r.P s r.h)} at={showAll (findIndicesAt O r.P s r.h) n} ws={showAll (findIndicesAtWithState O r.P s r.h) n} im={isMatch O r.P s r.h} fa={showAll (engineFindAt O r.P s r.h) (n + 1)}"
    | none => "bad-op"
  | ["ismatch", "bt"] => toString (isMatchBoundedBacktracker O r.P r.h)
  | ["ismatch", st] =>
    match parseStrat st with
    | some s => toString (isMatch O r.P s r.h)
    | none => "bad-op"
  | ["cost", "digit"] =>
    match at_.toNat? with
    | some a =>
      let (res, t) := findIndicesDigitPrefilterAtT O r.P r.h a
      showTrace (showSpan res) t r.P r.h a
    | none => "bad-op"
  | ["cost", "ismatch"] =>
    let (res, t) := isMatchDigitPrefilterT O r.P r.h
    showTrace (toString res) t r.P r.h 0
  | ["perscan", "digit"] =>
    match at_.toNat? with
    | some a =>
      let (res, t) := digitLoopPerScanT O r.P r.h a (r.h.size - a) a {}
      showTrace (showSpan res) t r.P r.h a
    | none => "bad-op"
  | _ =>
    match pick fn O r.P r.h with
    | none => "bad-op"
    | some (f, takesAt) =>
      if !takesAt then showSpan (f 0)
      else if at_ = "*" then showAll f n
      else match at_.toNat? with
        | some a => showSpan (f a)
        | none => "bad-op"

/-- `metafind2 acpf …`: the prefilter model from every offset -/
def runAcpf (ac hay find findAt : String) : Option String := do
  let acs ← parseNatList ac
  let h ← parseHex hay
  let n := h.size + 1
  let ff ← (parseTab parseSpanV none n find).map (tabFn none)
  let fa ← (parseTab parseSpanV none n findAt).map (tabFn none)
  match acs with
  | [nested, maxLen] =>
    some (";".intercalate ((List.range n).map fun a =>
      match ahoPrefilterFind (fun _ => ff) (fun _ => fa) (nested == 1) maxLen h a with
      | some p => toString p
      | none => "x"))
  | _ => none

/-- `metafind2 lits …`: the executable definitions on a literal list -/
def runLits (fn at_ hay lits : String) : Option String := do
  let h ← parseHex hay
  let ls ← (lits.splitOn ",").mapM parseHex
  match fn with
  | "nested" => some (if hasNestedLiteral ls then "1" else "0")
  | "maxlen" => some (toString (litMaxLen ls))
  | "reflit" => at_.toNat?.map fun a => showSpan (refLit ls h a)
  | "endsfirst" => at_.toNat?.map fun a => showSpan (endsFirst ls h a)
  | _ => none

def handle? (toks : List String) : Option String :=
  match toks with
  | ["metafind2", "acpf", ac, hay, find, findAt] => some ((runAcpf ac hay find findAt).getD "bad-op")
  | ["metafind2", "lits", fn, at_, hay, lits] => some ((runLits fn at_ hay lits).getD "bad-op")
  | ["metafind2", fn, flags, nums, at_, hay, suf, pike, im, find, dig, anch, pf, pfm, aho, fat, fatat, bools, fb] =>
    match parseReq flags nums hay suf pike im find dig anch pf pfm aho fat fatat bools fb with
    | some r => some (run fn at_ r)
    | none => some "bad-op"
  | ["metafind2", fn, flags, nums, at_, hay, suf, pike, im, find, dig, anch, pf, pfm, aho, fat, fatat, bools, fb, ac] =>
    match parseReq flags nums hay suf pike im find dig anch pf pfm aho fat fatat bools fb ac with
    | some r => some (run fn at_ r)
    | none => some "bad-op"
  | "metafind2" :: _ => some "bad-op"
  | _ => none

end Cx.DriverMetaFind2
