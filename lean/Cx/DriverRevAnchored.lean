import Cx.Driver
import Cx.DriverRevSuffix
import Cx.DriverRevInner
import Cx.Model.RevAnchored
/-
  Cx.DriverRevAnchored — line-protocol handler for the reverse-anchored strategy model (`Cx.Model.RevAnchored`).

    revanch run <hay hex> <mt> <ref0>
        mt     the match relation of the pattern on this haystack: `s.e,s.e,…` (or `-`)
        ref0   the reference's leftmost-first span from offset 0: `s.e` or `x`
      The oracles are derived from the tables by brute force (`RevAnchored.bruteOracles`: forward Pike VM = `ref0`, reverse
      scans = least start in the table); the MODEL then runs `find` and `isMatch`.  Answer:  <s.e | none> <true|false>
  Malformed arguments answer `bad-op`; any other command is not handled (`none`).
-/
namespace Cx.DriverRevAnchored
open Cx Cx.RevAnchored
open Cx.DriverRevSuffix (parsePairs parsePair showSpan)

def handle? (toks : List String) : Option String :=
  match toks with
  | ["revanch", "run", hay, mt, ref0] =>
    let r0 : Option (Option (Nat × Nat)) := if ref0 = "x" then some none else (parsePair ref0).map some
    match parseHex hay, parsePairs mt, r0 with
    | some h, some m, some r =>
      let O := bruteOracles (DriverRevInner.mkTab (h.size + 1) m) r
      some s!"{showSpan (find O h)} {isMatch O h}"
    | _, _, _ => some "bad-op"
  | "revanch" :: _ => some "bad-op"
  | _ => none

end Cx.DriverRevAnchored
