import Cx.Spec.ReRef
/-
  Cx.Spec.ReSem — the DECLARATIVE (language-level) semantics of the miniature `syntax.Regexp` of Cx.Model.Fast:

      Matches h re i j      "re matches h[i:j) in the context of the whole haystack h"

  no priorities, no fuel, no continuation: the relation the executable reference matcher `Cx.Fast.Ref.run` (Cx.Spec.ReRef)
  enumerates in leftmost-first order.  `Cx.Proofs.Guards.run_sound` proves that every answer of `Ref.run` / `Ref.matchAt` /
  `Ref.refFind` is a `Matches` (for every fuel), so a statement "every match of re has property P" about `Matches` is a statement
  about everything the reference matcher — the oracle of the C19 / C02 theorems, validated against `regexp` by the harness — can
  ever report.

  Same conventions as `Ref.run`: bytes are decoded with Go's `utf8.DecodeRune` (`Utf8.decodeAt`: an ill-formed byte is U+FFFD of
  width 1), `FoldCase` folds the ASCII letters, an operator with the wrong number of operands matches nothing, `{n,m}` reads
  `Min.toNat` / `Max < 0 ↦ unbounded`, and — as `Ref.run` does for the never-parsed `n > m` — allows up to `max n m` iterations.
  A `*` / `+` iteration may be empty here (the reference abandons it): that does not change the relation.
-/
namespace Cx.Fast.Sem
open Cx Cx.Fast Cx.Fast.Ref

/-- `n`-fold relational iteration -/
def Iter (R : Nat → Nat → Prop) : Nat → Nat → Nat → Prop
  | 0, i, j => i = j
  | n+1, i, j => ∃ k, R i k ∧ Iter R n k j

/-- one rune satisfying `P` stands at `h[i:j)` -/
def RuneAt (h : Bytes) (P : Nat → Prop) (i j : Nat) : Prop :=
  (Utf8.decodeAt h i).2 > 0 ∧ P (Utf8.decodeAt h i).1 ∧ j = i + (Utf8.decodeAt h i).2

/-- the runes of a literal stand at `h[i:j)` -/
def LitAt (h : Bytes) (fold : Bool) : List Nat → Nat → Nat → Prop
  | [], i, j => i = j
  | r :: rs, i, j =>
    (Utf8.decodeAt h i).2 > 0 ∧
    (if fold then foldEq r (Utf8.decodeAt h i).1 else decide (r = (Utf8.decodeAt h i).1)) = true ∧
    LitAt h fold rs (i + (Utf8.decodeAt h i).2) j

/-- the word-boundary test of `Ref.run` -/
def wordEdge (h : Bytes) (pos : Nat) : Bool :=
  (decide (pos > 0) && isWordByte (h.at (pos - 1))) != (decide (pos < h.size) && isWordByte (h.at pos))

/-- upper bound of `{n,m}` as `Ref.run` implements it -/
def repUpper (mn mx : Int) (n : Nat) : Prop := mx < 0 ∨ n ≤ mn.toNat ∨ n ≤ mx.toNat

mutual
def Matches (h : Bytes) : Re → Nat → Nat → Prop
  | .mk op _ fc sub rune mn mx, i, j =>
    match op with
    | .noMatch => False
    | .emptyMatch => i = j
    | .literal => LitAt h fc rune i j
    | .charClass => RuneAt h (fun c => inRanges (pairs rune) c = true) i j
    | .anyCharNotNL => RuneAt h (fun c => c ≠ 10) i j
    | .anyChar => RuneAt h (fun _ => True) i j
    | .beginLine => i = j ∧ (i = 0 ∨ h.at (i - 1) = 10)
    | .endLine => i = j ∧ (i = h.size ∨ h.at i = 10)
    | .beginText => i = j ∧ i = 0
    | .endText => i = j ∧ i = h.size
    | .wordBoundary => i = j ∧ wordEdge h i = true
    | .noWordBoundary => i = j ∧ wordEdge h i = false
    | .capture => MatchesSeq h sub i j
    | .concat => MatchesSeq h sub i j
    | .alternate => MatchesAlt h sub i j
    | .star =>
      (match sub with
       | [x] => ∃ n, Iter (Matches h x) n i j
       | _ => False)
    | .plus =>
      (match sub with
       | [x] => ∃ n, 1 ≤ n ∧ Iter (Matches h x) n i j
       | _ => False)
    | .quest =>
      (match sub with
       | [x] => i = j ∨ Matches h x i j
       | _ => False)
    | .repeat_ =>
      (match sub with
       | [x] => ∃ n, mn.toNat ≤ n ∧ repUpper mn mx n ∧ Iter (Matches h x) n i j
       | _ => False)
def MatchesSeq (h : Bytes) : List Re → Nat → Nat → Prop
  | [], i, j => i = j
  | x :: xs, i, j => ∃ k, Matches h x i k ∧ MatchesSeq h xs k j
def MatchesAlt (h : Bytes) : List Re → Nat → Nat → Prop
  | [], _, _ => False
  | x :: xs, i, j => Matches h x i j ∨ MatchesAlt h xs i j
end

end Cx.Fast.Sem
