import Cx.Basic
/-
  Cx.Spec.Utf8 — Go's `utf8.DecodeRune` and `utf8.EncodeRune`, transliterated.
  `decodeAt h i` is `utf8.DecodeRune(h[i:])`: ill-formed input yields (0xFFFD, 1); at/after the end (0xFFFD, 0).
-/
namespace Cx.Utf8

def runeError : Nat := 0xFFFD
def maxRune : Nat := 0x10FFFF

/-- size and accept range [lo,hi] for the second byte, from the lead byte; `none` = ASCII or invalid lead. -/
def leadInfo (b : Nat) : Option (Nat × Nat × Nat) :=
  if b < 0xC2 then none
  else if b ≤ 0xDF then some (2, 0x80, 0xBF)
  else if b = 0xE0 then some (3, 0xA0, 0xBF)
  else if b ≤ 0xEC then some (3, 0x80, 0xBF)
  else if b = 0xED then some (3, 0x80, 0x9F)
  else if b ≤ 0xEF then some (3, 0x80, 0xBF)
  else if b = 0xF0 then some (4, 0x90, 0xBF)
  else if b ≤ 0xF3 then some (4, 0x80, 0xBF)
  else if b = 0xF4 then some (4, 0x80, 0x8F)
  else none

def isCont (b : Nat) : Bool := 0x80 ≤ b && b ≤ 0xBF

/-- `utf8.DecodeRune(h[i:n])` where `n ≤ h.size` is the logical end. -/
def decodeAtEnd (h : Bytes) (n i : Nat) : Nat × Nat :=
  if i ≥ n then (runeError, 0) else
  let p0 := h.at i
  if p0 < 0x80 then (p0, 1) else
  match leadInfo p0 with
  | none => (runeError, 1)
  | some (sz, lo, hi) =>
    if n - i < sz then (runeError, 1) else
    let b1 := h.at (i+1)
    if b1 < lo || hi < b1 then (runeError, 1) else
    if sz = 2 then ((p0 % 32) * 64 + (b1 % 64), 2) else
    let b2 := h.at (i+2)
    if !isCont b2 then (runeError, 1) else
    if sz = 3 then ((p0 % 16) * 4096 + (b1 % 64) * 64 + (b2 % 64), 3) else
    let b3 := h.at (i+3)
    if !isCont b3 then (runeError, 1) else
    ((p0 % 8) * 262144 + (b1 % 64) * 4096 + (b2 % 64) * 64 + (b3 % 64), 4)

def decodeAt (h : Bytes) (i : Nat) : Nat × Nat := decodeAtEnd h h.size i

/-- width of the rune at `i` (0 at end of input): what stdlib's loops advance by. -/
def widthAt (h : Bytes) (i : Nat) : Nat := (decodeAt h i).2

/-- `utf8.EncodeRune` (surrogates and out-of-range encode U+FFFD, as Go does). -/
def encode (r : Nat) : List Nat :=
  if r < 0x80 then [r]
  else if r < 0x800 then [0xC0 + r / 64, 0x80 + r % 64]
  else if (0xD800 ≤ r ∧ r ≤ 0xDFFF) ∨ r > maxRune then [0xEF, 0xBF, 0xBD]
  else if r < 0x10000 then [0xE0 + r / 4096, 0x80 + r / 64 % 64, 0x80 + r % 64]
  else [0xF0 + r / 262144, 0x80 + r / 4096 % 64, 0x80 + r / 64 % 64, 0x80 + r % 64]

def isScalar (r : Nat) : Prop := r ≤ maxRune ∧ ¬ (0xD800 ≤ r ∧ r ≤ 0xDFFF)

instance (r : Nat) : Decidable (isScalar r) := by unfold isScalar; exact inferInstance

end Cx.Utf8
