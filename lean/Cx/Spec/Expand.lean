import Cx.Spec.Utf8
/-
  Cx.Spec.Expand — stdlib `regexp`'s template expansion (`expand`, `extract`) and `QuoteMeta`, transliterated.
  `isNameRune r` stands for `unicode.IsLetter(r) || unicode.IsDigit(r) || r == '_'` (the Unicode tables are not
  modelled; the harness supplies the set for the runes that occur in a template).
-/
namespace Cx.Std
open Cx Cx.Utf8

/-- `strings.Cut(t, "$")` on the suffix of `t` starting at `i`: index of the first '$' at or after `i`. -/
def cutDollar (t : Bytes) : Nat → Nat → Option Nat
  | 0, _ => none
  | fuel+1, i => if i ≥ t.size then none else if t.at i = 36 then some i else cutDollar t fuel (i+1)

/-- the name scan of `extract`: first offset ≥ `i` whose rune is not a letter, digit or underscore -/
def nameEnd (isNameRune : Nat → Bool) (t : Bytes) : Nat → Nat → Nat
  | 0, i => i
  | fuel+1, i =>
    if i ≥ t.size then i else
    let (r, sz) := decodeAt t i
    if isNameRune r then nameEnd isNameRune t fuel (i + sz) else i

/-- the number parse of `extract` over `t[a:b]`: `-1` unless all digits, no overflow guard hit, no leading zero -/
def parseNum (t : Bytes) (a b : Nat) : Int :=
  let rec go : Nat → Nat → Nat → Option Nat
    | 0, _, num => some num
    | fuel+1, k, num =>
      if k ≥ b then some num else
      let c := t.at k
      if c < 48 ∨ 57 < c ∨ num ≥ 100000000 then none else go fuel (k+1) (num * 10 + (c - 48))
  match go (b - a + 1) a 0 with
  | none => -1
  | some n => if t.at a = 48 ∧ b - a > 1 then -1 else (n : Int)

/-- `extract(t[i:])`: returns (name start, name end, num, rest offset) -/
def extract (isNameRune : Nat → Bool) (t : Bytes) (i : Nat) : Option (Nat × Nat × Int × Nat) :=
  if i ≥ t.size then none else
  let brace := t.at i = 123
  let a := if brace then i + 1 else i
  let b := nameEnd isNameRune t (t.size + 1) a
  if b = a then none else
  if brace then
    if b ≥ t.size ∨ t.at b ≠ 125 then none else some (a, b, parseNum t a b, b + 1)
  else some (a, b, parseNum t a b, b)

def slice (s : Bytes) (a b : Nat) : List Nat := (s.toList.drop a).take (b - a)

/-- text of group `k` of `match_` in `src` (empty if out of range or unset) -/
def groupText (src : Bytes) (m : List Int) (k : Nat) : List Nat :=
  if 2 * k + 1 < m.length ∧ m.getD (2 * k) (-1) ≥ 0 then slice src (m.getD (2*k) 0).toNat (m.getD (2*k+1) 0).toNat else []

/-- first group index `i` with `names[i] = name` that is set in the match (the `for i, namei := range` loop) -/
def namedText (src : Bytes) (m : List Int) (names : List (List Nat)) (name : List Nat) : List Nat :=
  let rec go : List (List Nat) → Nat → List Nat
    | [], _ => []
    | n :: rest, i =>
      if name = n ∧ 2 * i + 1 < m.length ∧ m.getD (2 * i) (-1) ≥ 0 then groupText src m i else go rest (i+1)
  go names 0

/-- `(*Regexp).expand(dst, template, src, match)` minus the `dst` prefix -/
def expand (isNameRune : Nat → Bool) (t : Bytes) (src : Bytes) (m : List Int) (names : List (List Nat)) :
    Nat → Nat → List Nat → List Nat
  | 0, i, acc => acc ++ slice t i t.size
  | fuel+1, i, acc =>
    match cutDollar t (t.size + 1) i with
    | none => acc ++ slice t i t.size
    | some d =>
      let acc := acc ++ slice t i d
      let j := d + 1
      if j < t.size ∧ t.at j = 36 then expand isNameRune t src m names fuel (j+1) (acc ++ [36])
      else
        match extract isNameRune t j with
        | none => expand isNameRune t src m names fuel j (acc ++ [36])
        | some (a, b, num, rest) =>
          let txt := if num ≥ 0 then groupText src m num.toNat else namedText src m names (slice t a b)
          expand isNameRune t src m names fuel rest (acc ++ txt)

def stdExpand (isNameRune : Nat → Bool) (t src : Bytes) (m : List Int) (names : List (List Nat)) : List Nat :=
  expand isNameRune t src m names (t.size + 1) 0 []

/-- the bytes `\.+*?()|[]{}^$` -/
def special (c : Nat) : Bool := [92, 46, 43, 42, 63, 40, 41, 124, 91, 93, 123, 125, 94, 36].contains c

/-- `regexp.QuoteMeta`: copy up to the first special byte, then escape from there on -/
def stdQuoteMeta (s : List Nat) : List Nat :=
  let rec pre : List Nat → List Nat × List Nat
    | [] => ([], [])
    | c :: t => if special c then ([], c :: t) else let (a, b) := pre t; (c :: a, b)
  let (a, b) := pre s
  a ++ b.flatMap fun c => if special c then [92, c] else [c]

end Cx.Std
