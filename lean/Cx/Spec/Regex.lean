import Cx.Basic
import Cx.Model.Nfa
/-
  Cx.Spec.Regex — the regular-expression AST the Thompson compiler of `nfa/compile.go` is modelled over, and its
  declarative (language-level) semantics.

  The AST mirrors `regexp/syntax.Regexp` *after parsing*, restricted to the byte-level fragment:

    emptyMatch            OpEmptyMatch
    noMatch               OpNoMatch
    lit bytes             OpLiteral, case-sensitive, the runes already UTF-8 encoded (one list of bytes)
    cls ranges            OpCharClass whose ranges are all ≤ 0x7F (the `allASCII` branch of `compileCharClass`);
                          `cls []` is the empty class
    look k                OpBeginText / OpEndText / OpBeginLine / OpEndLine / OpWordBoundary / OpNoWordBoundary
    cap idx r             OpCapture
    star/plus/quest r g   OpStar / OpPlus / OpQuest, `g = true` for greedy (no NonGreedy flag)
    rep r min max g       OpRepeat, `max = none` for `{min,}` (Go: Max = -1)
    cat rs / alt rs       OpConcat / OpAlternate

  Unicode classes, case folding and `.` are outside this model.

  `M re h i j` : "re matches h[i:j] in the context of the whole haystack h".  Language level only: no priorities,
  no capture positions.
-/
namespace Cx

inductive Regex where
  | emptyMatch
  | noMatch
  | lit (bytes : List Nat)
  | cls (ranges : List (Nat × Nat))
  | look (k : Nfa.Look)
  | cap (idx : Nat) (r : Regex)
  | star (r : Regex) (greedy : Bool)
  | plus (r : Regex) (greedy : Bool)
  | quest (r : Regex) (greedy : Bool)
  | rep (r : Regex) (min : Nat) (max : Option Nat) (greedy : Bool)
  | cat (rs : List Regex)
  | alt (rs : List Regex)
  deriving Repr, Inhabited

namespace Regex

/-- `n`-fold relational iteration: `iter R n i j` iff there are `i = k₀, k₁, …, kₙ = j` with `R kₘ kₘ₊₁`. -/
def iter (R : Nat → Nat → Prop) : Nat → Nat → Nat → Prop
  | 0, i, j => i = j
  | n+1, i, j => ∃ k, R i k ∧ iter R n k j

/-- the bytes `bs` stand at `h[i:j]` -/
def litAt (bs : List Nat) (h : Bytes) (i j : Nat) : Prop :=
  j = i + bs.length ∧ ∀ k, k < bs.length → i + k < h.size ∧ h.at (i + k) = bs.getD k 0

/-- one byte `h[i]` lying in one of the ranges -/
def clsAt (ranges : List (Nat × Nat)) (h : Bytes) (i j : Nat) : Prop :=
  i < h.size ∧ j = i + 1 ∧ ∃ p, p ∈ ranges ∧ p.1 ≤ h.at i ∧ h.at i ≤ p.2

/-- the upper bound of a repeat -/
def underMax (n : Nat) : Option Nat → Prop
  | none => True
  | some mx => n ≤ mx

mutual
/-- declarative semantics -/
def M : Regex → Bytes → Nat → Nat → Prop
  | .emptyMatch, _, i, j => i = j
  | .noMatch, _, _, _ => False
  | .lit bs, h, i, j => litAt bs h i j
  | .cls rs, h, i, j => clsAt rs h i j
  | .look k, h, i, j => i = j ∧ Nfa.lookOK k h i = true
  | .cap _ r, h, i, j => M r h i j
  | .star r _, h, i, j => ∃ n, iter (M r h) n i j
  | .plus r _, h, i, j => ∃ n, 1 ≤ n ∧ iter (M r h) n i j
  | .quest r _, h, i, j => i = j ∨ M r h i j
  | .rep r mn mx _, h, i, j => ∃ n, mn ≤ n ∧ underMax n mx ∧ iter (M r h) n i j
  | .cat rs, h, i, j => MCat rs h i j
  | .alt rs, h, i, j => MAlt rs h i j
/-- concatenation: split points -/
def MCat : List Regex → Bytes → Nat → Nat → Prop
  | [], _, i, j => i = j
  | r :: rs, h, i, j => ∃ k, M r h i k ∧ MCat rs h k j
/-- alternation: some branch -/
def MAlt : List Regex → Bytes → Nat → Nat → Prop
  | [], _, _, _ => False
  | r :: rs, h, i, j => M r h i j ∨ MAlt rs h i j
end

mutual
/-- every alternation has at least one branch (what `regexp/syntax` produces: it never builds an `OpAlternate` with
    fewer than two operands).  For `alt []` the declarative language is empty while `compileAlternate` answers
    `compileEmptyMatch()`. -/
def AltOK : Regex → Prop
  | .emptyMatch => True
  | .noMatch => True
  | .lit _ => True
  | .cls _ => True
  | .look _ => True
  | .cap _ r => AltOK r
  | .star r _ => AltOK r
  | .plus r _ => AltOK r
  | .quest r _ => AltOK r
  | .rep r _ _ _ => AltOK r
  | .cat rs => AltOKs rs
  | .alt rs => rs ≠ [] ∧ AltOKs rs
def AltOKs : List Regex → Prop
  | [] => True
  | r :: rs => AltOK r ∧ AltOKs rs
end

end Regex
end Cx
