import Cx.Basic
/-
  Cx.Spec.StdLoops — stdlib `regexp`'s iteration code, transliterated over an abstract single-match
  function.  `find pos` is `re.doExecute(..., pos, ...)` (leftmost match at or after `pos`, seeing the whole
  input), `sp m` its overall span, `w pos` the width `utf8.DecodeRune(b[pos:])` reports (0 at the end).

  * `stdAll`     = `(*Regexp).allMatches`   (regexp.go), `n` already normalised (`n < 0 → len+1`)
  * `stdReplace` = `(*Regexp).replaceAll`   (regexp.go)
  * `stdSplit`   = `(*Regexp).Split`
-/
namespace Cx.Std

variable {α : Type}

/-- `allMatches`: state `pos, i, prevMatchEnd` (`none` = -1). Delivers matches in order. -/
def stdAll (find : Nat → Option α) (sp : α → Nat × Nat) (w : Nat → Nat) (len : Nat) :
    (fuel pos i : Nat) → (prev : Option Nat) → (n : Nat) → List α
  | 0, _, _, _, _ => []
  | fuel+1, pos, i, prev, n =>
    if ¬ (i < n ∧ pos ≤ len) then [] else
    match find pos with
    | none => []
    | some m =>
      if (sp m).2 = pos then
        let pos' := if w pos > 0 then pos + w pos else len + 1
        if some (sp m).1 = prev then stdAll find sp w len fuel pos' i (some (sp m).2) n
        else m :: stdAll find sp w len fuel pos' (i+1) (some (sp m).2) n
      else m :: stdAll find sp w len fuel (sp m).2 (i+1) (some (sp m).2) n

/-- `FindAll*(…, n)`: `n < 0` means all, which stdlib encodes as `len+1`. -/
def stdFindAll (find : Nat → Option α) (sp : α → Nat × Nat) (w : Nat → Nat) (len : Nat) (n : Int) : List α :=
  let n' := if n < 0 then len + 1 else n.toNat
  stdAll find sp w len (2 * (len + 2)) 0 0 none n'

/-- `replaceAll`: state `searchPos, lastMatchEnd, buf`. `src` is the input, `repl m` the replacement text. -/
def stdReplace (find : Nat → Option α) (sp : α → Nat × Nat) (w : Nat → Nat) (src : List Nat) (repl : α → List Nat) :
    (fuel searchPos lastMatchEnd : Nat) → (buf : List Nat) → List Nat
  | 0, _, lastMatchEnd, buf => buf ++ src.drop lastMatchEnd
  | fuel+1, searchPos, lastMatchEnd, buf =>
    if searchPos > src.length then buf ++ src.drop lastMatchEnd else
    match find searchPos with
    | none => buf ++ src.drop lastMatchEnd
    | some m =>
      let a0 := (sp m).1
      let a1 := (sp m).2
      let buf := buf ++ (src.drop lastMatchEnd).take (a0 - lastMatchEnd)
      let buf := if a1 > lastMatchEnd ∨ a0 = 0 then buf ++ repl m else buf
      let searchPos' :=
        if searchPos + w searchPos > a1 then searchPos + w searchPos
        else if searchPos + 1 > a1 then searchPos + 1
        else a1
      stdReplace find sp w src repl fuel searchPos' a1 buf

def stdReplaceAll (find : Nat → Option α) (sp : α → Nat × Nat) (w : Nat → Nat) (src : List Nat)
    (repl : α → List Nat) : List Nat :=
  stdReplace find sp w src repl (src.length + 2) 0 0 []

/-- `Split(s, n)` given the `FindAllStringIndex(s, n)` result; `exprEmpty` is `len(re.expr) == 0`. -/
def stdSplitLoop (s : List Nat) (n : Int) : List (Nat × Nat) → (beg end_ : Nat) → List (List Nat) → List (List Nat) × Nat × Nat
  | [], beg, end_, acc => (acc, beg, end_)
  | (m0, m1) :: rest, beg, end_, acc =>
    if n > 0 ∧ (acc.length : Int) = n - 1 then (acc, beg, end_) else
    let acc' := if m1 ≠ 0 then acc ++ [(s.drop beg).take (m0 - beg)] else acc
    stdSplitLoop s n rest m1 m0 acc'

def stdSplit (exprEmpty : Bool) (s : List Nat) (n : Int) (ms : List (Nat × Nat)) : Option (List (List Nat)) :=
  if n = 0 then none else
  if !exprEmpty ∧ s.length = 0 then some [[]] else
  let (acc, beg, end_) := stdSplitLoop s n ms 0 0 []
  some (if end_ ≠ s.length then acc ++ [s.drop beg] else acc)

end Cx.Std
