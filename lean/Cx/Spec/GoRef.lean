import Cx.Spec.Utf8
/-
  Cx.Spec.GoRef — the reference meaning of "what regexp returns": a transliteration of
  `regexp/backtrack.go` (bit-state backtracker) over a `syntax.Prog` that the harness dumps from the
  toolchain's own `syntax.Compile(re.Simplify())`.  Case folding of single-rune instructions is expanded
  to explicit ranges by the dumper (it calls `unicode.SimpleFold`), so no Unicode table lives here.
-/
namespace Cx.GoRef
open Cx Cx.Utf8

inductive Inst where
  | alt (out arg : Nat)
  | cap (out arg : Nat)
  | empty (out flags : Nat)
  | mtch
  | fail
  | nop (out : Nat)
  | rune (out : Nat) (ranges : List (Nat × Nat))
  | any (out : Nat)
  | anyNotNL (out : Nat)
  deriving Repr, Inhabited

structure Prog where
  insts : Array Inst
  start : Nat
  cond : Nat          -- prog.StartCond(); 255 = impossible
  numCap : Nat
  deriving Repr, Inhabited

def isWordByte (b : Nat) : Bool :=
  (48 ≤ b && b ≤ 57) || (65 ≤ b && b ≤ 90) || (97 ≤ b && b ≤ 122) || b = 95

/-- `lazyFlag.match` for the context of position `pos`: previous byte and next byte decide everything
    (`\n` and word characters are ASCII, so a multi-byte or ill-formed neighbour is neither). -/
def ctxOK (h : Bytes) (pos : Nat) (op : Nat) : Bool :=
  let prev : Option Nat := if 1 ≤ pos ∧ pos ≤ h.size then some (h.at (pos-1)) else none
  let next : Option Nat := if pos < h.size then some (h.at pos) else none
  let beginLine := prev.isNone || prev == some 10
  let beginText := prev.isNone
  let endLine := next.isNone || next == some 10
  let endText := next.isNone
  let w1 := match prev with | some b => isWordByte b | none => false
  let w2 := match next with | some b => isWordByte b | none => false
  let wb := w1 != w2
  (op &&& 1 = 0 || beginLine) && (op &&& 2 = 0 || endLine) &&
  (op &&& 4 = 0 || beginText) && (op &&& 8 = 0 || endText) &&
  (op &&& 16 = 0 || wb) && (op &&& 32 = 0 || !wb)

def inRanges (r : Nat) : List (Nat × Nat) → Bool
  | [] => false
  | (lo, hi) :: t => (lo ≤ r && r ≤ hi) || inRanges r t

structure BS where
  visited : Array Bool
  cap : Array Int
  matchcap : Array Int
  jobs : List (Nat × Int × Bool)
  deriving Inhabited

/-- The job loop of `tryBacktrack`. `cur = none`: pop a job (processed without the visited check);
    `cur = some (pc,pos,arg,check)`: `check` distinguishes `goto CheckAndLoop` from `goto Skip`. -/
def loop (p : Prog) (h : Bytes) (longest : Bool) : Nat → BS → Option (Nat × Int × Bool × Bool) → BS × Bool
  | 0, st, _ => (st, false)
  | fuel+1, st, none =>
    match st.jobs with
    | [] => (st, longest && st.matchcap.size > 1 && st.matchcap.getD 1 (-1) ≥ 0)
    | (pc, pos, arg) :: rest => loop p h longest fuel { st with jobs := rest } (some (pc, pos, arg, false))
  | fuel+1, st, some (pc, pos, arg, check) =>
    let e := h.size
    let idx := pc * (e + 1) + pos.toNat
    if check && st.visited.getD idx true then loop p h longest fuel st none else
    let st := if check then { st with visited := st.visited.setIfInBounds idx true } else st
    match p.insts.getD pc Inst.fail with
    | .fail => (st, false)
    | .alt out a =>
      if arg then loop p h longest fuel st (some (a, pos, false, true))
      else loop p h longest fuel { st with jobs := (pc, pos, true) :: st.jobs } (some (out, pos, false, true))
    | .cap out a =>
      if arg then loop p h longest fuel { st with cap := st.cap.setIfInBounds a pos } none
      else if a < st.cap.size then
        let old := st.cap.getD a (-1)
        loop p h longest fuel { st with jobs := (pc, old, true) :: st.jobs, cap := st.cap.setIfInBounds a pos }
          (some (out, pos, false, true))
      else loop p h longest fuel st (some (out, pos, false, true))
    | .empty out flags =>
      if ctxOK h pos.toNat flags then loop p h longest fuel st (some (out, pos, false, true))
      else loop p h longest fuel st none
    | .nop out => loop p h longest fuel st (some (out, pos, false, true))
    | .rune out ranges =>
      let (r, w) := decodeAt h pos.toNat
      if w > 0 && inRanges r ranges then loop p h longest fuel st (some (out, pos + w, false, true))
      else loop p h longest fuel st none
    | .any out =>
      let (_, w) := decodeAt h pos.toNat
      if w > 0 then loop p h longest fuel st (some (out, pos + w, false, true)) else loop p h longest fuel st none
    | .anyNotNL out =>
      let (r, w) := decodeAt h pos.toNat
      if w > 0 && r ≠ 10 then loop p h longest fuel st (some (out, pos + w, false, true))
      else loop p h longest fuel st none
    | .mtch =>
      let st := if st.cap.size > 1 then { st with cap := st.cap.setIfInBounds 1 pos } else st
      let old := st.matchcap.getD 1 (-1)
      let st := if old == -1 || (longest && pos > 0 && pos > old) then { st with matchcap := st.cap } else st
      if !longest then (st, true)
      else if pos.toNat == e then (st, true)
      else loop p h longest fuel st none

def tryBacktrack (p : Prog) (h : Bytes) (longest : Bool) (st : BS) (pos : Nat) : BS × Bool :=
  let fuel := 4 * (p.insts.size + 1) * (h.size + 2) + 16
  -- b.push(re, pc, pos, false): push only if shouldVisit (arg=false path)
  let idx := p.start * (h.size + 1) + pos
  if st.visited.getD idx true then
    loop p h longest fuel st none
  else
    let st := { st with visited := st.visited.setIfInBounds idx true, jobs := (p.start, (pos : Int), false) :: st.jobs }
    loop p h longest fuel st none

/-- `regexp.(*Regexp).backtrack` without the literal-prefix skip: returns `matchcap` (length `ncap`) or none. -/
def backtrack (p : Prog) (h : Bytes) (longest : Bool) (pos : Nat) (ncap : Nat) : Option (Array Int) :=
  if p.cond = 255 then none else
  if p.cond &&& 4 ≠ 0 && pos ≠ 0 then none else
  let st0 : BS := { visited := Array.replicate (p.insts.size * (h.size + 1)) false,
                    cap := Array.replicate ncap (-1), matchcap := Array.replicate ncap (-1), jobs := [] }
  if p.cond &&& 4 ≠ 0 then
    let st := { st0 with cap := st0.cap.setIfInBounds 0 (pos : Int) }
    let (st, ok) := tryBacktrack p h longest st pos
    if ok then some st.matchcap else none
  else
    let rec outer : Nat → BS → Nat → Option (Array Int)
      | 0, _, _ => none
      | fuel+1, st, pos =>
        if pos > h.size then none else
        let st := { st with cap := st.cap.setIfInBounds 0 (pos : Int), jobs := [] }
        let (st, ok) := tryBacktrack p h longest st pos
        if ok then some st.matchcap else
        let w := widthAt h pos
        if w = 0 then none else outer fuel st (pos + w)
    outer (h.size + 2) st0 pos

/-- leftmost(-first or -longest) span from `pos`. -/
def find (p : Prog) (h : Bytes) (longest : Bool) (pos : Nat) : Option (Nat × Nat) :=
  match backtrack p h longest pos 2 with
  | none => none
  | some m => some ((m.getD 0 0).toNat, (m.getD 1 0).toNat)

def submatch (p : Prog) (h : Bytes) (longest : Bool) (pos : Nat) : Option (List Int) :=
  (backtrack p h longest pos p.numCap).map (·.toList)

end Cx.GoRef
