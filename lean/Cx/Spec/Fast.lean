import Cx.Model.Fast
import Cx.Spec.ReRef
/-
  Cx.Spec.Fast — what the fast-path searchers are supposed to compute: leftmost-first (Perl / Go `regexp`) semantics of
  the regex fragment each of them implements, stated directly on bytes (no NFA).

  All classes here are BYTE classes.  For a class of ASCII runes this coincides with Go's rune semantics on every input
  (valid UTF-8 or not): a byte ≥ 0x80 never decodes to an ASCII rune, and an ASCII byte is always a rune of its own.
  It does NOT coincide for classes containing runes ≥ 0x80 — see the `asciiOnly` hypotheses in Cx.Proofs.Fast.
-/
namespace Cx.Fast.Spec
open Cx Cx.Fast

/-! ## `[cls]{m,}` -/

/-- length of the maximal run of class bytes that starts at offset `s` (0 at or beyond the end) -/
def runLen (mem : Nat → Bool) (h : Bytes) (s : Nat) : Nat := ((h.toList.drop s).takeWhile mem).length

/-- least `s` with `at ≤ s ≤ n` and `p s` -/
def leastFrom (p : Nat → Bool) (n at_ : Nat) : Option Nat := (List.range' at_ (n + 1 - at_)).find? p

/-- Greedy `[cls]{m,}` searched from `at` (the matcher sees the whole haystack but may only START at `≥ at`; a start in
    the middle of a longer run is allowed, exactly as for stdlib's `pos` argument of `doExecute`):
    start = least `s ≥ at` at which at least `m` class bytes follow, end = end of the maximal run from `s`. -/
def ccFind (mem : Nat → Bool) (m : Nat) (h : Bytes) (at_ : Nat) : Option (Nat × Nat) :=
  (leastFrom (fun s => decide (m ≤ runLen mem h s)) h.size at_).map fun s => (s, s + runLen mem h s)

/-- Lazy `[cls]{m,}?`: same start, but the match stops after the `m` mandatory bytes. -/
def ccFindLazy (mem : Nat → Bool) (m : Nat) (h : Bytes) (at_ : Nat) : Option (Nat × Nat) :=
  (leastFrom (fun s => decide (m ≤ runLen mem h s)) h.size at_).map fun s => (s, s + m)

/-- semantics of the AST fragment `cls+` / `cls+?` that `IsSimpleCharClassPlus` accepts -/
def plusFind (lazy : Bool) (mem : Nat → Bool) (h : Bytes) (at_ : Nat) : Option (Nat × Nat) :=
  if lazy then ccFindLazy mem 1 h at_ else ccFind mem 1 h at_

/-! ## `c1{m1,n1} c2{m2,n2} … ck{mk,nk}` -/

structure Part where
  mem : Nat → Bool
  lo : Nat
  /-- `none` = unbounded -/
  hi : Option Nat
  /-- non-greedy quantifier (`x+?`, `x*?`, `x??`, `x{n,m}?`): fewer repetitions are preferred -/
  lazy : Bool := false

/-- `k` is an admissible repetition count for part `p` at offset `s`: within `{lo,hi}` and the `k` bytes from `s` are
    class bytes (`k ≤ runLen`). -/
def Part.admits (p : Part) (h : Bytes) (s k : Nat) : Prop :=
  p.lo ≤ k ∧ (∀ b, p.hi = some b → k ≤ b) ∧ k ≤ runLen p.mem h s

/-- `ks` are repetition counts with which the concatenation matches starting at `s` -/
def Valid (h : Bytes) : List Part → Nat → List Nat → Prop
  | [], _, [] => True
  | p :: ps, s, k :: ks => p.admits h s k ∧ Valid h ps (s + k) ks
  | _, _, _ => False

/-- greedy priority = lexicographic order on the count tuples, earlier parts first, more repetitions preferred -/
def LexLE : List Nat → List Nat → Prop
  | [], [] => True
  | a :: as, b :: bs => a < b ∨ (a = b ∧ LexLE as bs)
  | _, _ => False

/-- the match leftmost-first semantics selects at start `s` when all quantifiers are greedy -/
def IsGreedyMatch (h : Bytes) (ps : List Part) (s : Nat) (ks : List Nat) : Prop :=
  Valid h ps s ks ∧ ∀ ks', Valid h ps s ks' → LexLE ks' ks

/-- greatest admissible count: `min (runLen) hi` -/
def Part.top (p : Part) (h : Bytes) (s : Nat) : Nat :=
  match p.hi with
  | none => runLen p.mem h s
  | some b => min b (runLen p.mem h s)

/-- the admissible counts of part `p` at `s` in priority order: descending for a greedy part, ascending for a lazy one -/
def Part.candidates (p : Part) (h : Bytes) (s : Nat) : List Nat :=
  let up := (List.range (p.top h s + 1)).filter (fun k => decide (p.lo ≤ k))
  if p.lazy then up else up.reverse

/-- Reference backtracking matcher: counts tried in priority order, first overall success wins. -/
def refMatch (h : Bytes) : List Part → Nat → Option (List Nat)
  | [], _ => some []
  | p :: ps, s =>
    (p.candidates h s).findSome? fun k => (refMatch h ps (s + k)).map (k :: ·)

/-- leftmost-first search from `at` -/
def compFind (ps : List Part) (h : Bytes) (at_ : Nat) : Option (Nat × Nat) :=
  (leastFrom (fun s => (refMatch h ps s).isSome) h.size at_).bind fun s =>
    (refMatch h ps s).map fun ks => (s, s + ks.sum)

/-- how the searcher's part record is to be read (it has no laziness flag: always greedy) -/
def partOf (p : CharClassPart) : Part :=
  { mem := p.mem, lo := p.minMatch, hi := if p.maxMatch > 0 then some p.maxMatch.toNat else none, lazy := false }

/-- how the AST quantifier is to be read: `x+`, `x*`, `x?`, `x{n,m}` (`m = -1` for `{n,}`), bare class; the `NonGreedy`
    flag makes the part lazy.  The class is read as a set of BYTES (adequate only when every rune is `≤ 0x7F`). -/
def astPart (re : Re) : Option Part :=
  match re.op with
  | .plus => match re.sub with
    | [x] => some { mem := (tableOfRanges (pairs x.rune)).mem, lo := 1, hi := none, lazy := re.nonGreedy } | _ => none
  | .star => match re.sub with
    | [x] => some { mem := (tableOfRanges (pairs x.rune)).mem, lo := 0, hi := none, lazy := re.nonGreedy } | _ => none
  | .quest => match re.sub with
    | [x] => some { mem := (tableOfRanges (pairs x.rune)).mem, lo := 0, hi := some 1, lazy := re.nonGreedy } | _ => none
  | .repeat_ =>
    match re.sub with
    | [x] => some { mem := (tableOfRanges (pairs x.rune)).mem, lo := re.min.toNat,
                    hi := if re.max < 0 then none else some re.max.toNat, lazy := re.nonGreedy }
    | _ => none
  | .charClass => some { mem := (tableOfRanges (pairs re.rune)).mem, lo := 1, hi := some 1, lazy := false }
  | _ => none

/-- the semantic reading of a composite pattern: the list of its parts -/
def astParts (re : Re) : Option (List Part) := re.sub.mapM astPart

/-! ## `^prefix .{w,} [cls{c,}] suffix$` (text anchors) -/

/-- Byte-level match set of `\A prefix .{w,} cls{c,} suffix \z` (`.` = any byte but `\n`, or any byte if `dotNL`):
    the haystack splits as `prefix ++ W ++ C ++ suffix`, `W = h[p..j)` with `|W| ≥ wildcardMin` and no `\n` unless `dotNL`,
    `C = h[j..k)` a run of `≥ charClassMin` class bytes (`C` empty when there is no bridge), suffix = `h[k..]`.
    (For valid-or-invalid UTF-8 alike this is Go's rune-level semantics as long as the class is ASCII: `.` consumes every
    ill-formed byte as one U+FFFD, and an ASCII byte always starts a rune.) -/
def AnchoredSpec (dotNL : Bool) (info : AnchoredLiteralInfo) (h : Bytes) : Prop :=
  ∃ j k, info.pfx.size + info.wildcardMin ≤ j ∧ j ≤ k ∧ k ≤ h.size ∧
    h.toList.take info.pfx.size = info.pfx.toList ∧
    h.toList.drop k = info.sfx.toList ∧
    (dotNL = true ∨ ∀ i, info.pfx.size ≤ i → i < j → h.at i ≠ 10) ∧
    match info.charClassTable with
    | none => j = k
    | some t => info.charClassMin ≤ k - j ∧ ∀ i, j ≤ i → i < k → t.mem (h.at i) = true

/-- executable form of `AnchoredSpec` (`anchoredSpecB_iff` in Cx.Proofs.Fast) -/
def anchoredSpecB (dotNL : Bool) (info : AnchoredLiteralInfo) (h : Bytes) : Bool :=
  let l := h.toList
  let p := info.pfx.size
  (List.range (h.size + 1)).any fun j => (List.range (h.size + 1)).any fun k =>
    decide (p + info.wildcardMin ≤ j) && decide (j ≤ k) &&
    decide (l.take p = info.pfx.toList) && decide (l.drop k = info.sfx.toList) &&
    (dotNL || (List.range' p (j - p)).all fun i => decide (h.at i ≠ 10)) &&
    (match info.charClassTable with
     | none => decide (j = k)
     | some t => decide (info.charClassMin ≤ k - j) && (List.range' j (k - j)).all fun i => t.mem (h.at i))

/-- the only span an anchored pattern can report -/
def anchoredFindSpec (dotNL : Bool) (info : AnchoredLiteralInfo) (h : Bytes) (at_ : Nat) : Option (Nat × Nat) :=
  if at_ = 0 ∧ anchoredSpecB dotNL info h then some (0, h.size) else none

end Cx.Fast.Spec

/-! ## fragment predicates and AST-level readings (namespace `Cx.Fast`) -/
namespace Cx.Fast
open Cx Cx.Fast.Spec

/-- the fragment: GREEDY `cls+` over a non-empty class of ASCII ranges -/
def IsCharClassPlus (re : Re) (ranges : List (Nat × Nat)) : Prop :=
  re.op = .plus ∧ re.nonGreedy = false ∧ (∃ c, re.sub = [c] ∧ c.op = .charClass ∧ pairs c.rune = ranges) ∧
    ranges ≠ [] ∧ ∀ r ∈ ranges, r.1 ≤ 127 ∧ r.2 ≤ 127

/-- a (possibly quantified) character class: `cls`, `cls+`, `cls*`, `cls?`, `cls{n,m}` (greedy or lazy) -/
def QuantClass (x : Re) : Prop :=
  x.op = .charClass ∨
  ((x.op = .plus ∨ x.op = .star ∨ x.op = .quest ∨ x.op = .repeat_) ∧ ∃ c, x.sub = [c] ∧ c.op = .charClass)

/-- the fragment: a concatenation of at least two quantified classes -/
def CompositeFrag (re : Re) : Prop :=
  re.op = .concat ∧ 2 ≤ re.sub.length ∧ ∀ x ∈ re.sub, QuantClass x

/-- the three ways a pattern could leave the exactly-handled fragment; `IsCompositeCharClassPattern` now excludes all of
    them (`isCompositeCharClassPattern_greedy` / `_noZeroMax` / `_ascii` in Cx.Proofs.Fast) -/
def AllGreedy (re : Re) : Prop := ∀ x ∈ re.sub, x.nonGreedy = false
def NoZeroMax (re : Re) : Prop := ∀ x ∈ re.sub, x.op = .repeat_ → x.max ≠ 0
/-- class runes of a part -/
def classRunes (x : Re) : List Nat :=
  if x.op = .charClass then x.rune else match x.sub with | [c] => c.rune | _ => []
def AsciiOnly (re : Re) : Prop := ∀ x ∈ re.sub, ∀ r ∈ classRunes x, r ≤ 127
/-- PARSER INVARIANT (not a restriction of the fragment): `syntax.Parse` returns every class as sorted, merged ranges
    (`cleanClass`), so `Rune` is ascending and its last element is the greatest member.  The Go predicates test only that
    last element (`cc.Rune[len(cc.Rune)-1] > 0x7F`); on a hand-built AST with unsorted `Rune` the test says nothing. -/
def ClassSorted (re : Re) : Prop := ∀ x ∈ re.sub, (classRunes x).Pairwise (· ≤ ·)

instance (re : Re) : Decidable (AllGreedy re) := by unfold AllGreedy; exact inferInstance
instance (re : Re) : Decidable (NoZeroMax re) := by unfold NoZeroMax; exact inferInstance
instance (re : Re) : Decidable (AsciiOnly re) := by unfold AsciiOnly; exact inferInstance
instance (re : Re) : Decidable (ClassSorted re) := by unfold ClassSorted; exact inferInstance

/-- the bytes `extractLiteral` produces for a literal node -/
def litBytes (x : Re) : List Nat := x.rune.flatMap fun r => if r > 0x7F then encodeRune r else [r]

/-- the fragment `DetectAnchoredLiteral` accepts, together with what each `info` field is:
    `anchor lit* (.*|.+) [cls+] lit anchor`, every literal CASE-SENSITIVE (its bytes are the UTF-8 encoding of its runes,
    `litBytes`), the class of the bridge ASCII-ONLY in the sense the Go code tests it (its last rune is `≤ 0x7F`; for a
    sorted `Rune`, as the parser produces, that is every member — `anchoredFrag_bridge_ascii`). -/
def AnchoredFrag (re : Re) (info : AnchoredLiteralInfo) : Prop :=
  re.op = .concat ∧
  ∃ first lits w bridge sfxRe last,
    re.sub = first :: (lits ++ w :: bridge ++ [sfxRe, last]) ∧
    isStartAnchor first = true ∧ isEndAnchor last = true ∧
    (∀ x ∈ lits, x.op = .literal ∧ x.foldCase = false) ∧ isGreedyWildcard w = true ∧
    (sfxRe.op = .literal ∧ sfxRe.foldCase = false) ∧
    info.pfx = (lits.flatMap litBytes).toArray ∧ info.sfx = (litBytes sfxRe).toArray ∧
    info.wildcardMin = getWildcardMin w ∧ info.wildcardMatchesNewline = wildcardIsDotNL w ∧
    ((bridge = [] ∧ info.charClassTable = none ∧ info.charClassMin = 0) ∨
     (∃ b cc, bridge = [b] ∧ b.op = .plus ∧ b.sub = [cc] ∧ cc.op = .charClass ∧ lastRuneAbove7F cc.rune = false ∧
        info.charClassTable = some (tableOfRangesClamped (pairs cc.rune)) ∧ info.charClassMin = 1)) ∧
    info.minLength = info.pfx.size + info.wildcardMin + info.charClassMin + info.sfx.size

/-- whether the wildcard of an accepted pattern is `(?s).` -/
def wildcardDotNL (re : Re) : Bool :=
  re.sub.any fun w => isGreedyWildcard w && (match w.sub with | [x] => decide (x.op = .anyChar) | _ => false)

/-! ### ExtractFirstBytes

  After the fixes of nfa/firstbytes.go — full `SimpleFold` orbit of a `FoldCase` literal, UTF-8 lead byte of a non-ASCII
  literal, every byte `≥ 0x80` for a class reaching above U+007F; and: a bare assertion makes the set unusable, a
  concatenation skips its leading assertion-only elements — NO structural restriction of the pattern is left: the
  former exclusions (`^`, `\A`, `(?m)$` in first position other than as a leading element of a concatenation) are gone.
  What remains are two side conditions on the nodes the extraction visits (the nodes in FIRST position), `fbSide`:
    * PARSER INVARIANT (always required, `fbMinOK`): `{n,…}` has `n ≥ 0` (the Go code tests `Min == 0`; `syntax.Parse`
      never produces a negative `Min`, and the reference matcher reads one as 0);
    * (`fbFrag` = `fbMinOK` and:) a literal's first rune is not U+FFFD.  This is a property of the REFERENCE semantics,
      not of the filter: the reference matcher (like `regexp`) decodes every ill-formed byte as U+FFFD, so the literal
      `\x{FFFD}` matches the haystack `FF`, whose first byte is not `EF` (`firstBytes_runeError_counterexample`).
      coregex's own engines compile the literal to the bytes EF BF BD and never match `FF`, so the filter changes no
      coregex answer there.  The condition can be traded for one on the HAYSTACK: it begins with a well-formed rune
      (`WellFormedAt h 0`; `firstBytes_filter_sound_wellformed`).
  Everything else is `true`: in particular every pattern without a U+FFFD literal, as `syntax.Parse` returns it,
  satisfies `fbFrag`, and every parsed pattern satisfies `fbMinOK`.  Same fuel discipline as `extractFirstBytesRec`. -/

/-- the side conditions; `lit = true` includes "no literal in first position starts with U+FFFD" -/
def fbSide (lit : Bool) : Nat → Re → Bool
  | 0, _ => true
  | fuel+1, re =>
    match re.op with
    | .literal => (match re.rune with | r :: _ => !lit || decide (r ≠ Utf8.runeError) | [] => true)
    | .capture => (match re.sub with | [x] => fbSide lit fuel x | _ => true)
    | .concat =>
      match re.sub.find? (fun s => !isAssertionOnly s) with
      | some x => fbSide lit fuel x
      | none => true
    | .alternate => re.sub.all (fbSide lit fuel)
    | .plus => (match re.sub with | [x] => fbSide lit fuel x | _ => true)
    | .repeat_ => decide (re.min ≥ 0) && (match re.sub with | [x] => fbSide lit fuel x | _ => true)
    | _ => true

/-- no negative `Min` and no literal starting with U+FFFD in first position -/
def fbFrag (fuel : Nat) (re : Re) : Bool := fbSide true fuel re

/-- no negative `Min` in first position (parser invariant) -/
def fbMinOK (fuel : Nat) (re : Re) : Bool := fbSide false fuel re

/-- the haystack does not have an ill-formed byte at `pos` (one that `utf8.DecodeRune` reports as U+FFFD of width 1);
    a properly encoded U+FFFD (EF BF BD, width 3) is well-formed -/
def WellFormedAt (h : Bytes) (pos : Nat) : Prop :=
  ¬ ((Utf8.decodeAt h pos).1 = Utf8.runeError ∧ (Utf8.decodeAt h pos).2 = 1)

instance (h : Bytes) (pos : Nat) : Decidable (WellFormedAt h pos) := by unfold WellFormedAt; exact inferInstance

/-- the parameter `foldOrbit` (standing for the `unicode.SimpleFold` loop) lists at least the case variants the
    reference matcher folds (`Ref.foldEq`: the ASCII letters).  True of Go's tables (`simpleFoldOrbit_sound` in
    Cx.DriverFast checks the driver's table); a LARGER orbit only makes the filter more permissive. -/
def OrbitSound (foldOrbit : Nat → List Nat) : Prop := ∀ a b, Ref.foldEq a b = true → a = b ∨ b ∈ foldOrbit a

/-! ### BranchDispatcher

  The rewritten dispatcher is exact on EVERY pattern `IsBranchDispatchPattern` accepts, with respect to the reference
  semantics `Ref.refFind` of the whole pattern `\A(b1|…|bk)`; there is no fragment predicate any more.  Two side conditions remain,
  neither of which restricts the dispatcher:
  * `FoldSound hasFold`: the parameter standing for `unicode.SimpleFold(r) != r` is `true` at least on the runes the
    reference matcher folds (`Ref.foldEq` folds the ASCII letters only, see Cx.Spec.ReRef).  The dispatcher rejects every
    `FoldCase` literal containing a rune with `hasFold r = true`; on the remaining runes case folding is the identity, so the
    ASCII-only folding of the reference matcher is never exercised by a literal the dispatcher accepted.
  * `RefDepthOK re`: the AST is at most 32 levels deep — the depth to which `Ref.fuelFor` measures a pattern.  This is a
    limit of the REFERENCE matcher (below that depth it may run out of fuel and answer `none`), not of the dispatcher:
    `unwrapCaptures` strips any number of capture groups.  (`branchDispatch_depth_needed` in Cx.Proofs.FastCex.) -/

/-- every node of the AST lies at depth `< n` (root = depth 0) -/
def depthLe : Nat → Re → Bool
  | 0, _ => false
  | n+1, re => re.sub.all (depthLe n)

/-- the pattern is within the depth `Ref.fuelFor` accounts for -/
def RefDepthOK (re : Re) : Prop := depthLe 32 re = true

instance (re : Re) : Decidable (RefDepthOK re) := by unfold RefDepthOK; exact inferInstance

/-- the `hasFold` parameter covers (at least) the case folding the reference matcher implements -/
def FoldSound (hasFold : Nat → Bool) : Prop := ∀ r, Ref.isAsciiLetter r = true → hasFold r = true

end Cx.Fast
