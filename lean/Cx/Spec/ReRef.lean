import Cx.Model.Fast
import Cx.Spec.Utf8
/-
  Cx.Spec.ReRef — a general leftmost-first (Perl / Go `regexp`) reference matcher over the miniature `syntax.Regexp`
  of Cx.Model.Fast, on BYTE haystacks with Go's rune decoding (`utf8.DecodeRune`: an ill-formed byte is U+FFFD of
  width 1).  It is the oracle used
    * for the counterexample theorems of Cx.Proofs.Fast (what the correct answer is on patterns outside the exactly
      handled fragments), and
    * by the Go harness, which compares it with stdlib `regexp` on every test pattern (request `re-ref`).

  Backtracking in continuation-passing style; priorities: alternation left to right, greedy quantifiers prefer one more
  iteration, lazy ones prefer to stop.  All recursion is on a fuel argument (the result is `none` when it runs out;
  `refFind` supplies `(size re + 2) * (|h| + 2) + 8`, enough for every pattern whose starred sub-expressions consume at
  least one byte per iteration — true for all patterns in this development).

  Deliberate limits (documented, none matters for the fragments studied here):
    * `FoldCase` on a literal folds ASCII letters only (Go also folds e.g. `k` with U+212A);
    * a `*`/`+` iteration that consumes nothing is abandoned (Go's backtracker prunes it via its visited set).
-/
namespace Cx.Fast.Ref
open Cx Cx.Fast

def isWordByte (b : Nat) : Bool :=
  (decide (48 ≤ b) && decide (b ≤ 57)) || (decide (65 ≤ b) && decide (b ≤ 90)) ||
  (decide (97 ≤ b) && decide (b ≤ 122)) || decide (b = 95)

def isAsciiLetter (r : Nat) : Bool := (decide (65 ≤ r) && decide (r ≤ 90)) || (decide (97 ≤ r) && decide (r ≤ 122))

/-- rune equality under the (ASCII part of the) simple case folding -/
def foldEq (a b : Nat) : Bool :=
  decide (a = b) || (isAsciiLetter a && isAsciiLetter b && (decide (a + 32 = b) || decide (b + 32 = a)))

def inRanges (ranges : List (Nat × Nat)) (r : Nat) : Bool :=
  ranges.any fun p => decide (p.1 ≤ r) && decide (r ≤ p.2)

/-- what is left to match before the continuation is called -/
inductive Task
  | one (re : Re)
  | seq (l : List Re)
  | alts (l : List Re)
  | lit (runes : List Nat) (fold : Bool)
  | star (re : Re) (lazy : Bool)
  | rep (re : Re) (min : Nat) (max : Option Nat) (lazy : Bool)

@[inline] def orElse (a : Option Nat) (b : Unit → Option Nat) : Option Nat :=
  match a with
  | some e => some e
  | none => b ()

def run (h : Bytes) : Nat → Task → Nat → (Nat → Option Nat) → Option Nat
  | 0, _, _, _ => none
  | fuel+1, task, pos, k =>
    match task with
    | .lit [] _ => k pos
    | .lit (r :: rs) fold =>
      let (c, w) := Utf8.decodeAt h pos
      if w > 0 && (if fold then foldEq r c else decide (r = c)) then run h fuel (.lit rs fold) (pos + w) k else none
    | .seq [] => k pos
    | .seq (x :: xs) => run h fuel (.one x) pos fun p => run h fuel (.seq xs) p k
    | .alts [] => none
    | .alts (x :: xs) => orElse (run h fuel (.one x) pos k) fun _ => run h fuel (.alts xs) pos k
    | .star x lazy =>
      let again := fun (_ : Unit) => run h fuel (.one x) pos fun p => if p > pos then run h fuel (.star x lazy) p k else none
      if lazy then orElse (k pos) again else orElse (again ()) fun _ => k pos
    | .rep x min max lazy =>
      match min, max with
      | m+1, mx => run h fuel (.one x) pos fun p => run h fuel (.rep x m (mx.map (· - 1)) lazy) p k
      | 0, none => run h fuel (.star x lazy) pos k
      | 0, some 0 => k pos
      | 0, some (mx+1) =>
        let more := fun (_ : Unit) => run h fuel (.one x) pos fun p => run h fuel (.rep x 0 (some mx) lazy) p k
        if lazy then orElse (k pos) more else orElse (more ()) fun _ => k pos
    | .one re =>
      match re.op with
      | .noMatch => none
      | .emptyMatch => k pos
      | .literal => run h fuel (.lit re.rune re.foldCase) pos k
      | .charClass =>
        let (c, w) := Utf8.decodeAt h pos
        if w > 0 && inRanges (pairs re.rune) c then k (pos + w) else none
      | .anyCharNotNL =>
        let (c, w) := Utf8.decodeAt h pos
        if w > 0 && decide (c ≠ 10) then k (pos + w) else none
      | .anyChar =>
        let (_, w) := Utf8.decodeAt h pos
        if w > 0 then k (pos + w) else none
      | .beginLine => if pos = 0 ∨ h.at (pos - 1) = 10 then k pos else none
      | .endLine => if pos = h.size ∨ h.at pos = 10 then k pos else none
      | .beginText => if pos = 0 then k pos else none
      | .endText => if pos = h.size then k pos else none
      | .wordBoundary =>
        if (decide (pos > 0) && isWordByte (h.at (pos - 1))) != (decide (pos < h.size) && isWordByte (h.at pos))
        then k pos else none
      | .noWordBoundary =>
        if (decide (pos > 0) && isWordByte (h.at (pos - 1))) == (decide (pos < h.size) && isWordByte (h.at pos))
        then k pos else none
      | .capture => run h fuel (.seq re.sub) pos k
      | .concat => run h fuel (.seq re.sub) pos k
      | .alternate => run h fuel (.alts re.sub) pos k
      | .star =>
        match re.sub with
        | [x] => run h fuel (.star x re.nonGreedy) pos k
        | _ => none
      | .plus =>
        match re.sub with
        | [x] => run h fuel (.one x) pos fun p => run h fuel (.star x re.nonGreedy) p k
        | _ => none
      | .quest =>
        match re.sub with
        | [x] => run h fuel (.rep x 0 (some 1) re.nonGreedy) pos k
        | _ => none
      | .repeat_ =>
        match re.sub with
        | [x] => run h fuel (.rep x re.min.toNat (if re.max < 0 then none else some re.max.toNat) re.nonGreedy) pos k
        | _ => none

/-- number of AST nodes (for the fuel bound), by fuel itself -/
def sizeAux : Nat → Re → Nat
  | 0, _ => 1
  | f+1, re => 1 + (re.sub.map (sizeAux f)).sum + (if re.op = .repeat_ then re.min.toNat + re.max.toNat else 0) + re.rune.length

def fuelFor (re : Re) (h : Bytes) : Nat := (sizeAux 32 re + 2) * (h.size + 2) * 4 + 8

/-- the end of the leftmost-first match that starts exactly at `s` -/
def matchAt (re : Re) (h : Bytes) (s : Nat) : Option Nat := run h (fuelFor re h) (.one re) s some

def findLoop (re : Re) (h : Bytes) : Nat → Nat → Option (Nat × Nat)
  | 0, _ => none
  | k+1, s =>
    match matchAt re h s with
    | some e => some (s, e)
    | none => findLoop re h k (s + 1)

/-- leftmost-first match starting at or after `at` (the matcher sees the whole haystack) -/
def refFind (re : Re) (h : Bytes) (at_ : Nat) : Option (Nat × Nat) := findLoop re h (h.size + 1 - at_) at_

end Cx.Fast.Ref
