import Cx.Driver
import Cx.DriverRevSuffix
import Cx.DriverRevInner
import Cx.Model.MetaFind
/-
  Cx.DriverMetaFind — line-protocol handler for the core dispatch model (`Cx.Model.MetaFind`: UseNFA / UseDFA / UseBoth /
  UseBoundedBacktracker of `meta/find_indices.go`).

    metafind <fn> <flags> <nums> <at|*> <hay hex> <mt> <pike> <fwd> <anch> <im> <find> <pf> <pfm> <bt> <sl> <asl> <fb>
        fn     nfa | nfaat | dfa | dfaat | both | bothat | bt | btat | btatws | bidi | bidilongest      one function
               | find.<st> | findat.<st> | findatws.<st>        FindIndices / FindIndicesAt / findIndicesAtWithState, st = nfa|dfa|both|bt
               | ismatch.<st>                                    IsMatch (st = nfa|dfa|both; `-` for bt: not modelled)
               | all.<st>                                        all of them (answer `fi=<A> at=<A;…> ws=<A;…> im=<true|false|->`; `at` is taken as `*`)
        flags  14 digits `LPCMVDRENAFYSG`: L = longest, P = hasPrefilter, C = prefilter.IsComplete(), M = prefilter implements
               FindMatch, V = prefilterPartialCoverage, D = dfa != nil, R = reverseDFA != nil, E = canMatchEmpty,
               N = boundedBacktracker != nil, A = asciiBoundedBacktracker != nil, F = anchoredFirstBytes != nil,
               Y = nfa.IsAlwaysAnchored(), S = isStartAnchored (read by no modelled function since fffbd3b; the digit stays),
               G = SearchReverse gives up (-1) always.
               The fallbacks of the UseBoundedBacktracker functions are `!L && D && R` (ecab302): give the engine's real
               flags; `D = 0` for (bt, L = 1) — the workaround of callers written before the model followed that fix —
               gives the same answers.
        nums   `literalLen,nfaStateCount,asciiCheckLimit,btLimit,asciiLimit,btMax,asciiMax`
               (CanHandle(k) = k <= btLimit / asciiLimit; MaxInputSize() = btMax / asciiMax).
               `asciiCheckLimit` (third field) is IGNORED: since fffbd3b the ASCII check of the UseBoundedBacktracker functions
               reads the whole remaining input, there is no limit.  The field keeps its position for protocol compatibility
               (any number is accepted: 4096, or something huge as older callers send).
        at     one start offset, or `*` for every offset 0..len (answers separated by `;`); ignored by nfa|dfa|both|bt|find.*
        mt     the match relation on this haystack: `s.e,s.e,…` (or `-`): what the reverse DFA searches
        pike   the Pike VM's span from every offset 0..len: `s.e` or `x`, comma separated (len+1 entries)
        fwd    `SearchAt` from every offset: `e` or `x` (len+1 entries), or `=` for "the end of pike"
        anch   `SearchAtAnchored` at every offset: `e` or `x`, or `-` for none anywhere
        im     `IsMatchAt` from every offset: a string of len+1 digits 0/1, or `=` for "pike is some"
        find   `FindAt` from every offset: like fwd
        pf     `prefilter.Find` from every offset: `p` or `x`, or `-`
        pfm    `prefilter.FindMatch` from every offset: like pike, or `-`
        bt     `boundedBacktracker.SearchAtWithState` from every offset: like pike, or `=` for "pike"
        sl     the backtracker on slices: `lo.hi.s.e,…` (relative `s.e` for `haystack[lo:hi]`; slices not listed: no match), or `-`
        asl    the same for the ASCII backtracker
        fb     the bytes of the first-byte set (hex), or `*` for all bytes
      The oracles are the tables (`MetaFind.bruteOracles`); the MODEL does the dispatch.  Answer: `<s.e|none>` per offset.
  Malformed arguments answer `bad-op`; any other command is not handled (`none`).
-/
namespace Cx.DriverMetaFind
open Cx Cx.MetaFind
open Cx.DriverRevSuffix (parsePairs parseRefTab showSpan digit)
open Cx.DriverRevInner (parseOptTab mkTab)

def parseStrat : String → Option Strategy
  | "nfa" => some .nfa
  | "dfa" => some .dfa
  | "both" => some .both
  | "bt" => some .bt
  | _ => none

def parseFlags (s : String) : Option (Params × Bool) := do
  let ds ← s.toList.mapM digit
  match ds with
  | [l, p, c, m, v, d, r, e, n, a, f, y, st, g] =>
    some ({ longest := l == 1, hasPrefilter := p == 1, pfComplete := c == 1, pfHasFindMatch := m == 1,
            prefilterPartialCoverage := v == 1, hasDFA := d == 1, hasReverseDFA := r == 1, canMatchEmpty := e == 1,
            hasBT := n == 1, hasAsciiBT := a == 1, hasFirstBytes := f == 1, alwaysAnchored := y == 1,
            isStartAnchored := st == 1 }, g == 1)
  | _ => none

def parseSlices (s : String) : Option (List (Nat × Nat × Nat × Nat)) :=
  if s = "-" ∨ s = "" then some [] else
  (s.splitOn ",").mapM fun t =>
    match (t.splitOn ".").mapM String.toNat? with
    | some [lo, hi, a, b] => some (lo, hi, a, b)
    | _ => none

def sliceFn (l : List (Nat × Nat × Nat × Nat)) (lo hi : Nat) : Option Span :=
  (l.find? fun q => q.1 == lo && q.2.1 == hi).map fun q => (q.2.2.1, q.2.2.2)

def parseBits (s : String) : Option (Array Bool) := (s.toList.mapM digit).map fun l => (l.map (· == 1)).toArray

/-- tables that may be given as `=` (derived from `pike`) or `-` (none anywhere) -/
def optTabOr (s : String) (dflt : Nat → Option Nat) : Option (Nat → Option Nat) :=
  if s = "=" then some dflt
  else if s = "-" then some fun _ => none
  else (parseOptTab s).map fun t a => t.getD a none

def spanTabOr (s : String) (dflt : Nat → Option Span) : Option (Nat → Option Span) :=
  if s = "=" then some dflt
  else if s = "-" then some fun _ => none
  else (parseRefTab s).map fun t a => t.getD a none

structure Req where
  P : Params
  T : Tables
  h : Bytes

def parseReq (flags nums hay mt pike fwd anch im find pf pfm bt sl asl fb : String) : Option Req := do
  let (P0, g) ← parseFlags flags
  let ns ← parseNatList nums
  let h ← parseHex hay
  let mtp ← parsePairs mt
  let pk ← parseRefTab pike
  let pkf : Nat → Option Span := fun a => pk.getD a none
  let fwdf ← optTabOr fwd fun a => (pkf a).map (·.2)
  let anchf ← optTabOr anch fun _ => none
  let imf : Nat → Bool ← (if im = "=" then some fun a => (pkf a).isSome else (parseBits im).map fun t a => t.getD a false)
  let findf ← optTabOr find fun a => (pkf a).map (·.2)
  let pff ← optTabOr pf fun _ => none
  let pfmf ← spanTabOr pfm pkf
  let btf ← spanTabOr bt pkf
  let sls ← parseSlices sl
  let asls ← parseSlices asl
  let fbf : Nat → Bool ← (if fb = "*" then some fun _ => true else (parseHex fb).map fun bs b => bs.contains b)
  match ns with
  | [ll, sc, _asciiCheckLimit, bl, al, bm, am] =>        -- third field: ignored (kept for protocol compatibility)
    let P := { P0 with literalLen := ll, nfaStateCount := sc }
    let n := h.size + 1
    some { P := P, h := h,
           T := { mt := mkTab n mtp, pike := pkf, fwd := fwdf, anch := anchf, im := imf, find := findf, pf := pff, pfm := pfmf,
                  bt := btf, sl := sliceFn sls, asl := sliceFn asls, fb := fbf, btMax := bm, asciiMax := am, btLimit := bl,
                  asciiLimit := al, revGiveUp := g } }
  | _ => none

/-- the function named `fn`, as a function of the offset; `none` = unknown name; the Bool says whether it takes an offset -/
def pick (fn : String) (O : Oracles) (P : Params) (h : Bytes) : Option ((Nat → Option Span) × Bool) :=
  match fn.splitOn "." with
  | ["nfa"] => some (fun _ => findIndicesNFA O P h, false)
  | ["nfaat"] => some (findIndicesNFAAt O P h, true)
  | ["dfa"] => some (fun _ => findIndicesDFA O P h, false)
  | ["dfaat"] => some (findIndicesDFAAt O P h, true)
  | ["both"] => some (fun _ => findIndicesAdaptive O P h, false)
  | ["bothat"] => some (findIndicesAdaptiveAt O P h, true)
  | ["bt"] => some (fun _ => findIndicesBT O P h, false)
  | ["btat"] => some (findIndicesBTAt O P h, true)
  | ["btatws"] => some (findIndicesBTAtWithState O P h, true)
  | ["bidi"] => some (bidirectional O P h, true)
  | ["bidilongest"] => some (bidirectionalLongest O h, true)
  | ["find", st] => (parseStrat st).map fun s => (fun _ => findIndices O P s h, false)
  | ["findat", st] => (parseStrat st).map fun s => (findIndicesAt O P s h, true)
  | ["findatws", st] => (parseStrat st).map fun s => (findIndicesAtWithState O P s h, true)
  | _ => none

def showAll (f : Nat → Option Span) (n : Nat) : String := ";".intercalate ((List.range n).map fun a => showSpan (f a))

def showIm : Option Bool → String
  | some b => toString b
  | none => "-"

def run (fn at_ : String) (r : Req) : String :=
  let O := bruteOracles r.T
  let n := r.h.size + 1
  match fn.splitOn "." with
  | ["all", st] =>
    match parseStrat st with
    | some s =>
      s!"fi={showSpan (findIndices O r.P s r.h)} at={showAll (findIndicesAt O r.P s r.h) n} ws={showAll (findIndicesAtWithState O r.P s r.h) n} im={showIm (isMatch O r.P s r.h)}"
    | none => "bad-op"
  | ["ismatch", st] =>
    match parseStrat st with
    | some s => showIm (isMatch O r.P s r.h)
    | none => "bad-op"
  | _ =>
    match pick fn O r.P r.h with
    | none => "bad-op"
    | some (f, takesAt) =>
      if !takesAt then showSpan (f 0)
      else if at_ = "*" then showAll f n
      else match at_.toNat? with
        | some a => showSpan (f a)
        | none => "bad-op"

def handle? (toks : List String) : Option String :=
  match toks with
  | ["metafind", fn, flags, nums, at_, hay, mt, pike, fwd, anch, im, find, pf, pfm, bt, sl, asl, fb] =>
    match parseReq flags nums hay mt pike fwd anch im find pf pfm bt sl asl fb with
    | some r => some (run fn at_ r)
    | none => some "bad-op"
  | "metafind" :: _ => some "bad-op"
  | _ => none

end Cx.DriverMetaFind
