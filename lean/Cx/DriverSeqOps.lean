import Cx.Basic
import Cx.Model.SeqOps
/-
  Cx.DriverSeqOps — line-protocol handler for the literal-sequence reductions (`Cx.Model.SeqOps`, Go `literal/seq.go`).

    seqops <op> <n> <seq>

      <op>   lcp | lcs | minimize | dedup | keep | cross
      <n>    the integer argument of `keep` (KeepFirstBytes(n); may be 0 or negative); any integer (write 0) otherwise
      <seq>  the literals, in order, joined by `,`; one literal = `<hex>:<flag>` with <hex> the bytes in hex (`-` = the
             empty byte string) and <flag> = 1 (Complete) | 0; the empty sequence is `_`.
             For `cross` two sequences `<s>/<other>` (s.CrossForward(other)).

    Answer
      lcp, lcs                    the hex of the result (`-` if empty)
      dedup, keep, cross          the resulting sequence in the <seq> syntax, in order
      minimize                    the resulting sequence in the <seq> syntax with its literals SORTED (as the strings
                                  `<hex>:<flag>`, ascending): Go's sort.Slice is not stable, the order of equal-length
                                  literals in the result of Minimize is not specified
  Malformed arguments answer `bad-op`; any other command is not handled (`none`).
-/
namespace Cx.DriverSeqOps
open Cx Cx.SeqOps

def parseLit (s : String) : Option Lit :=
  match s.splitOn ":" with
  | [h, f] =>
    match parseHex h, f with
    | some b, "1" => some { bytes := b.toList, complete := true }
    | some b, "0" => some { bytes := b.toList, complete := false }
    | _, _ => none
  | _ => none

def parseSeq (s : String) : Option (List Lit) :=
  if s = "_" then some [] else (s.splitOn ",").mapM parseLit

def showLit (l : Lit) : String := toHex l.bytes.toArray ++ ":" ++ (if l.complete then "1" else "0")

def showSeq (s : List Lit) : String :=
  if s.isEmpty then "_" else ",".intercalate (s.map showLit)

def showSeqSorted (s : List Lit) : String :=
  if s.isEmpty then "_" else ",".intercalate ((s.map showLit).toArray.qsort (· < ·)).toList

def handle? (toks : List String) : Option String :=
  match toks with
  | ["seqops", op, n, sq] =>
    match n.toInt? with
    | none => some "bad-op"
    | some k =>
      if op = "cross" then
        match sq.splitOn "/" with
        | [a, b] =>
          match parseSeq a, parseSeq b with
          | some s, some t => some (showSeq (crossForward s t))
          | _, _ => some "bad-op"
        | _ => some "bad-op"
      else
        match parseSeq sq with
        | none => some "bad-op"
        | some s =>
          if op = "lcp" then some (toHex (lcp s).toArray)
          else if op = "lcs" then some (toHex (lcs s).toArray)
          else if op = "minimize" then some (showSeqSorted (minimize s))
          else if op = "dedup" then some (showSeq (dedup s))
          else if op = "keep" then some (showSeq (keepFirstBytes s k))
          else some "bad-op"
  | "seqops" :: _ => some "bad-op"
  | _ => none

end Cx.DriverSeqOps
