import Cx.Driver
import Cx.Model.Reverse
/-
  Cx.DriverRev — line-protocol handler for the reverse-automaton construction (`Cx.Model.Reverse`).

    rev nfa <anchored 0|1> <nfa>            `reverseWithOptions(nfa, anchored)` in the wire format of the dumper
                                            (`sa/su/st;st;…`, see `Cx.Driver.parseNfa`)
    rev valid <anchored 0|1> <nfa>          `Builder.Validate` on the result (true | false)
    rev accepts <anchored 0|1> <hex> <nfa>  does the model's reverse automaton accept the whole byte string from its
                                            anchored start (every matching sparse transition followed)?  true | false
    rev fwdaccepts <hex> <nfa>              the same question for the given automaton itself
    rev hyps <nfa>                          revHypB (the hypotheses of `Cx.Rev.reverse_accepts`), then whether the sparse states
                                            of nfa, ReverseAnchored(nfa), Reverse(nfa) have pairwise disjoint ranges:
                                            `hyp,fwdDisjoint,revADisjoint,revUDisjoint`
  Malformed arguments answer `bad-op`; any other command is not handled (`none`).
-/
namespace Cx.DriverRev
open Cx Cx.Nfa

def showState : NState → String
  | .mtch => "M"
  | .fail => "F"
  | .byteRange lo hi nx => s!"B.{lo}.{hi}.{nx}"
  | .sparse ts => "S." ++ "_".intercalate (ts.map fun t => s!"{t.1}-{t.2.1}-{t.2.2}")
  | .split l r => s!"P.{l}.{r}"
  | .eps nx => s!"E.{nx}"
  | .cap i st nx => s!"C.{i}.{if st then 1 else 0}.{nx}"
  | .look k nx =>
    let kn := match k with
      | .startText => 0 | .endText => 1 | .startLine => 2 | .endLine => 3 | .wordB => 4 | .noWordB => 5
    s!"L.{kn}.{nx}"
  | .runeAny nx => s!"A.{nx}"
  | .runeAnyNotNL nx => s!"N.{nx}"

def showNfa (N : NFA) : String :=
  s!"{N.startAnchored}/{N.startUnanchored}/" ++ ";".intercalate (N.states.toList.map showState)

def parseFlag (s : String) : Option Bool :=
  if s = "1" then some true else if s = "0" then some false else none

def handle? (toks : List String) : Option String :=
  match toks with
  | ["rev", "nfa", a, nfa] =>
    match parseFlag a, Driver.parseNfa nfa with
    | some a, some N => some (showNfa (Rev.reverse N a))
    | _, _ => some "bad-op"
  | ["rev", "valid", a, nfa] =>
    match parseFlag a, Driver.parseNfa nfa with
    | some a, some N => some (toString (Rev.validB (Rev.reverse N a)))
    | _, _ => some "bad-op"
  | ["rev", "accepts", a, hex, nfa] =>
    match parseFlag a, parseHex hex, Driver.parseNfa nfa with
    | some a, some h, some N => some (toString (Rev.acceptsWholeA (Rev.reverse N a) h))
    | _, _, _ => some "bad-op"
  | ["rev", "fwdaccepts", hex, nfa] =>
    match parseHex hex, Driver.parseNfa nfa with
    | some h, some N => some (toString (Rev.acceptsWholeA N h))
    | _, _ => some "bad-op"
  | ["rev", "hyps", nfa] =>
    match Driver.parseNfa nfa with
    | some N => some (",".intercalate ([Rev.revHypB N, Dfa.sparseDisjointB N, Dfa.sparseDisjointB (Rev.reverse N true),
        Dfa.sparseDisjointB (Rev.reverse N false)].map toString))
    | none => some "bad-op"
  | "rev" :: _ => some "bad-op"
  | _ => none

end Cx.DriverRev
