import Cx.DriverMetaFind
import Cx.Model.MetaFindAll
/-
  Cx.DriverMetaFindAll — line-protocol handler for the enumeration loops of `meta/findall.go` (`Cx.Model.MetaFindAll`).

    metafindall <fn> <flags> <n> <hayhex> <findat> <fi> <fwd> <rev> <cc> [<onepass> <pikecaps> <inspan>]
        fn      all            FindAllIndicesStreaming(h, n, nil)             answer: `s.e,s.e,…` or `-`
                loop           findAllIndicesLoop(h, n, nil)                  answer: the same
                count          Count(h, n)                                    answer: a number
                countnoguard   Count as it was before the `!e.longest` guard  answer: a number
                both           answer `all=<spans> count=<k> direct=<0|1> findok=<0|1>` (`direct` = useDFADirect;
                               `findok` = the table `findat` satisfies `FindOK`, the hypothesis of the theorems)
                sub            spans of FindAllSubmatch(h, n)                 (needs the three extra tables)
                subat          span of findSubmatchAtWithState from every offset 0..len, `;`-separated (`none` = nil)
        flags   `<strategy>:<LDRYSCO>:<captureCount>`: strategy = nfa | dfa | both | reverseAnchored | reverseSuffix | onePass |
                reverseInner | boundedBacktracker | teddy | reverseSuffixSet | charClassSearcher | compositeSearcher |
                branchDispatch | digitPrefilter | ahoCorasick | anchoredLiteral | multilineReverseSuffix  (e.strategy);
                seven digits: L = e.longest, D = e.dfa != nil, R = e.reverseDFA != nil, Y = e.nfa.IsAlwaysAnchored(),
                S = e.isStartAnchored, C = e.charClassSearcher != nil, O = e.onepass != nil; captureCount = e.nfa.CaptureCount()
        n       Go `int`, or a comma-separated list of them: one answer per value, joined by ` | `
        hayhex  the haystack (read by `nextPos` only)
        findat  `findIndicesAtWithState` from every offset 0..len: `s.e` or `x`, comma separated (len+1 entries)
        fi      `FindIndices(h)`: `s.e` or `x`
        fwd     `dfa.SearchAt` from every offset: `e` or `x` (len+1 entries); `-` = none anywhere; `=` = the end of `findat`
        rev     `reverseDFA.SearchReverse(lo, e)`: `lo.e.s,…` (pairs not listed: -1), or `-`
        cc      `charClassSearcher.FindAllIndices(h)`: `s.e,…` or `-`
        onepass   `onepass.Search` / `SearchLongest` (the one the mode selects): `s.e` or `x`
        pikecaps  span of `pikevm.SearchWithSlotTableCapturesAt` from every offset (like findat), or `=` for findat
        inspan    span of `pikevm.SearchWithCapturesInSpan(s, e)`: `s.e.s'.e',…` (not listed: nil), `-`, or `=` for the identity
      The oracles are the tables; the MODEL runs the loops.  Malformed arguments answer `bad-op`.
-/
namespace Cx.DriverMetaFindAll
open Cx Cx.MetaFindAll
open Cx.MetaFind (Span)
open Cx.DriverRevSuffix (parsePairs parsePair parseRefTab showSpan digit)
open Cx.DriverMetaFind (optTabOr spanTabOr parseSlices sliceFn)

def parseStrat : String → Option Strat
  | "nfa" => some .nfa | "dfa" => some .dfa | "both" => some .both | "reverseAnchored" => some .reverseAnchored
  | "reverseSuffix" => some .reverseSuffix | "onePass" => some .onePass | "reverseInner" => some .reverseInner
  | "boundedBacktracker" => some .boundedBacktracker | "teddy" => some .teddy | "reverseSuffixSet" => some .reverseSuffixSet
  | "charClassSearcher" => some .charClassSearcher | "compositeSearcher" => some .compositeSearcher
  | "branchDispatch" => some .branchDispatch | "digitPrefilter" => some .digitPrefilter | "ahoCorasick" => some .ahoCorasick
  | "anchoredLiteral" => some .anchoredLiteral | "multilineReverseSuffix" => some .multilineReverseSuffix
  | _ => none

def parseFlags (s : String) : Option Params :=
  match s.splitOn ":" with
  | [st, ds, cc] => do
    let st ← parseStrat st
    let ds ← ds.toList.mapM digit
    let cc ← cc.toNat?
    match ds with
    | [l, d, r, y, sa, c, o] =>
      some { strategy := st, longest := l == 1, hasDFA := d == 1, hasReverseDFA := r == 1, alwaysAnchored := y == 1,
             isStartAnchored := sa == 1, hasCharClassSearcher := c == 1, hasOnePass := o == 1, captureCount := cc }
    | _ => none
  | _ => none

def parseOptSpan (s : String) : Option (Option Span) := if s = "x" then some none else (parsePair s).map some

def parseTriples (s : String) : Option (List (Nat × Nat × Nat)) :=
  if s = "-" ∨ s = "" then some [] else
  (s.splitOn ",").mapM fun t =>
    match (t.splitOn ".").mapM String.toNat? with
    | some [lo, e, st] => some (lo, e, st)
    | _ => none

def tripleFn (l : List (Nat × Nat × Nat)) (lo e : Nat) : Option Nat :=
  (l.find? fun q => q.1 == lo && q.2.1 == e).map fun q => q.2.2

def showSpans (l : List Span) : String :=
  if l.isEmpty then "-" else ",".intercalate (l.map fun p => s!"{p.1}.{p.2}")

structure Req where
  P : Params
  ns : List Int
  h : Bytes
  O : Oracles

def parseReq (flags n hay findat fi fwd rev cc : String) : Option Req := do
  let P ← parseFlags flags
  let ns ← (n.splitOn ",").mapM parseInt
  let h ← parseHex hay
  let ft ← parseRefTab findat
  let ff : Nat → Option Span := fun a => ft.getD a none
  let fi ← parseOptSpan fi
  let fwdf ← optTabOr fwd fun a => (ff a).map (·.2)
  let revl ← parseTriples rev
  let ccl ← parsePairs cc
  some { P := P, ns := ns, h := h,
         O := { findAt := ff, findIndices := fi, fwdSearchAt := fwdf, revSearch := tripleFn revl, ccFindAll := ccl } }

def parseSub (r : Req) (onepass pikecaps inspan : String) : Option (SubOracles Span) := do
  let op ← parseOptSpan onepass
  let pk ← spanTabOr pikecaps r.O.findAt
  let ins : Nat → Nat → Option Span ←
    (if inspan = "=" then some fun s e => some (s, e) else (parseSlices inspan).map sliceFn)
  some { onepass := op, onepassLongest := op, pikeCapsAt := pk, pikeCapsInSpan := ins, ofSpan := fun s e => (s, e) }

def b01 (b : Bool) : String := if b then "1" else "0"

def run1 (fn : String) (r : Req) (n : Int) : String :=
  let next := nextPos r.h
  let len := r.h.size
  match fn with
  | "all" => showSpans (findAllIndicesStreaming r.O r.P next len n)
  | "loop" => showSpans (findAllIndicesLoop r.O r.P next len n)
  | "count" => toString (count r.O r.P next len n)
  | "countnoguard" => toString (countNoLongestGuard r.O r.P next len n)
  | "both" =>
    s!"all={showSpans (findAllIndicesStreaming r.O r.P next len n)} count={count r.O r.P next len n} direct={b01 (useDFADirect r.P)} findok={b01 (findOKCheck r.O.findAt len)}"
  | _ => "bad-op"

def run (fn : String) (r : Req) : String := " | ".intercalate (r.ns.map (run1 fn r))

def runSub (fn : String) (r : Req) (S : SubOracles Span) : String :=
  let next := nextPos r.h
  let len := r.h.size
  match fn with
  | "sub" => " | ".intercalate (r.ns.map fun n => showSpans (findAllSubmatch r.O S r.P id next len n))
  | "subat" => ";".intercalate ((List.range (len + 1)).map fun a => showSpan (findSubmatchAtWithState r.O S r.P a))
  | _ => "bad-op"

def handle? (toks : List String) : Option String :=
  match toks with
  | ["metafindall", fn, flags, n, hay, findat, fi, fwd, rev, cc] =>
    match parseReq flags n hay findat fi fwd rev cc with
    | some r => some (run fn r)
    | none => some "bad-op"
  | ["metafindall", fn, flags, n, hay, findat, fi, fwd, rev, cc, onepass, pikecaps, inspan] =>
    match parseReq flags n hay findat fi fwd rev cc with
    | some r =>
      match parseSub r onepass pikecaps inspan with
      | some S => some (runSub fn r S)
      | none => some "bad-op"
    | none => some "bad-op"
  | "metafindall" :: _ => some "bad-op"
  | _ => none

end Cx.DriverMetaFindAll
