import Cx.Driver
import Cx.DriverRevSuffix
import Cx.DriverRevInner
import Cx.Model.MultilineRevSuffix
/-
  Cx.DriverMultilineRevSuffix — line-protocol handler for the multiline reverse-suffix strategy model
  (`Cx.Model.MultilineRevSuffix`).

    mlrevsfx run <at|*> <hay hex> <lits> <prefix hex|-> <suffix hex> <shape> <minGap> <anch>
        at      one start offset, or `*` for every offset 0..len
        lits    the suffix literals the prefilter looks for: hex strings, comma separated
        prefix  `prefixBytes` (`-` = none), suffix = `suffixBytes`, shape = `literalShape` (0|1), minGap
        anch    the end of the leftmost-first match starting EXACTLY at every offset 0..len (in the context of the whole
                haystack): `e` or `x`, comma separated (len+1 entries)
      The oracles are derived by brute force (`MultilineRevSuffix.bruteOracles`); the MODEL then runs `isMatch` and
      `findIndicesAtT` for every requested offset.  Answer:   im=<true|false> <A>;<A>;…   A = <s.e|none>/lines=<lo.hi,…|->
  Malformed arguments answer `bad-op`; any other command is not handled (`none`).
-/
namespace Cx.DriverMultilineRevSuffix
open Cx Cx.MultilineRevSuffix
open Cx.DriverRevSuffix (showSpan)

def handle? (toks : List String) : Option String :=
  match toks with
  | ["mlrevsfx", "run", at_, hay, lits, pre, suf, shape, gap, anch] =>
    let ats : Option (Option Nat) := if at_ = "*" then some none else at_.toNat?.map some
    match ats, parseHex hay, DriverRevInner.parseLits lits, parseHex pre, parseHex suf, shape.toNat?, gap.toNat?,
          DriverRevInner.parseOptTab anch with
    | some a, some h, some ls, some p, some sf, some sh, some g, some an =>
      let O := bruteOracles ls (fun a => an.getD a none)
      let P : Params := { prefixBytes := p, suffixBytes := sf, literalShape := sh == 1, minGap := g }
      let one := fun a => let (r, t) := findIndicesAtT O P h a; s!"{showSpan r}/lines={DriverRevInner.showWins t}"
      let body := match a with
        | some a => one a
        | none => ";".intercalate ((List.range (h.size + 1)).map one)
      some s!"im={isMatch O P h} {body}"
    | _, _, _, _, _, _, _, _ => some "bad-op"
  | "mlrevsfx" :: _ => some "bad-op"
  | _ => none

end Cx.DriverMultilineRevSuffix
