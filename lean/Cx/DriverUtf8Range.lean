import Cx.Model.Utf8Range
import Cx.Model.Utf8RangePaths
import Cx.Driver
/-!
  `utf8range seqs <lo> <hi>`          → byte-range sequences of `compileUTF8Range lo hi`, in emission order
  `utf8range class <ranges>`          → byte-range sequences of `compileCharClass ranges` (`lo-hi_lo-hi…`, decimal), in emission order
  `utf8range sseqs|sclass …`          → the same, sorted as text
  `utf8range acc <ranges> <hex>`      → does the class automaton accept exactly these bytes? true|false
  `utf8range paths <nfa>`             → `pathsOf` of a dumped NFA (wire format of `Cx.Driver.parseNfa`), or `unsupported`
  `utf8range nfa <ranges> <nfa>`      → `ok` iff `pathsOf N = some (classSeqs ranges)` (hypothesis of `nfa_class_exact`), else `diff:<paths>`
  `utf8range nfarange <lo> <hi> <nfa>`→ `ok` iff `pathsOf N = some (utf8RangeSeqs lo hi)` (hypothesis of `nfa_range_exact`)
  text form: sequences joined by `|`, ranges of a sequence joined by `.`, a range is `lo-hi` in two-digit hex; no sequence: `-`
-/
namespace Cx.DriverUtf8Range
open Cx Cx.Utf8Range

def hex2 (x : Nat) : String := String.ofList [hexDigit (x / 16 % 16), hexDigit (x % 16)]

def showSeq (s : Seq) : String := ".".intercalate (s.map fun r => hex2 r.1 ++ "-" ++ hex2 r.2)

def showSeqs (sorted : Bool) (l : List Seq) : String :=
  if l.isEmpty then "-" else
  let ss := l.map showSeq
  "|".intercalate (if sorted then ss.mergeSort (fun a b => decide (a ≤ b)) else ss)

def cmpPaths (N : Nfa.NFA) (want : List Seq) : String :=
  match pathsOf N with
  | none => "unsupported"
  | some L => if L == want then "ok" else "diff:" ++ showSeqs false L

def handle? (toks : List String) : Option String :=
  match toks with
  | ["utf8range", "nfarange", lo, hi, nfa] =>
    match parseNat lo, parseNat hi, Driver.parseNfa nfa with
    | some lo, some hi, some N => some (cmpPaths N (utf8RangeSeqs lo hi))
    | _, _, _ => some "bad-op"
  | ["utf8range", "nfa", rs, nfa] =>
    match Driver.parseRanges rs, Driver.parseNfa nfa with
    | some rs, some N => some (cmpPaths N (classSeqs rs))
    | _, _ => some "bad-op"
  | ["utf8range", "paths", nfa] =>
    match Driver.parseNfa nfa with
    | some N => some (match pathsOf N with | some L => showSeqs false L | none => "unsupported")
    | none => some "bad-op"
  | ["utf8range", op, lo, hi] =>
    if op = "seqs" ∨ op = "sseqs" then
      match parseNat lo, parseNat hi with
      | some lo, some hi => some (showSeqs (op = "sseqs") (utf8RangeSeqs lo hi))
      | _, _ => some "bad-op"
    else if op = "acc" then
      match Driver.parseRanges lo, parseHex hi with
      | some rs, some h => some (toString (accepts (classSeqs rs) h.toList))
      | _, _ => some "bad-op"
    else some "bad-op"
  | ["utf8range", op, rs] =>
    if op = "class" ∨ op = "sclass" then
      match Driver.parseRanges rs with
      | some rs => some (showSeqs (op = "sclass") (classSeqs rs))
      | none => some "bad-op"
    else some "bad-op"
  | "utf8range" :: _ => some "bad-op"
  | _ => none

end Cx.DriverUtf8Range
