import Cx.Driver
import Cx.Model.RevSuffix
/-
  Cx.DriverRevSuffix — line-protocol handler for the reverse-suffix strategy model (`Cx.Model.RevSuffix`).

    revsuffix run <at> <hay hex> <suffix hex> <flags> <mt> <ref>
        flags  four digits `ZLCG`: Z = matchStartZero, L = lineBounded, C = cutMode (0 exact | 1 always cutOff when allowed |
               2 mixed), G = `SearchReverse` gives up (1) or not (0)
        mt     the match relation of the pattern on this haystack: `s.e,s.e,…` (or `-`): the pattern matches hay[s:e)
        ref    the reference's leftmost-first span from every offset 0..len: `s.e` or `x`, comma separated (len+1 entries)
      The oracles are derived from the tables by brute force (`bruteOracles`: prefilter = naive search of the suffix,
      reverse scans = least start in the table, forward DFA = end of `ref`, Pike VM = `ref`); the MODEL then runs
      `findIndicesAtT` and `isMatchT`.  Answer:
        <s.e | none> <true|false> pf=<n> lim=<lo.hi,…|-> full=<lo.hi|-> fwd=<from|-> cost=<revCost>
      (FindIndicesAt, IsMatch, then the trace of FindIndicesAt).
    revsuffix pf <hay hex> <suffix hex> <start>      the reference prefilter: position or -1
  Malformed arguments answer `bad-op`; any other command is not handled (`none`).
-/
namespace Cx.DriverRevSuffix
open Cx Cx.RevSuffix

def parsePair (s : String) : Option (Nat × Nat) :=
  match s.splitOn "." with
  | [a, b] => do let x ← a.toNat?; let y ← b.toNat?; pure (x, y)
  | _ => none

def parsePairs (s : String) : Option (List (Nat × Nat)) :=
  if s = "-" ∨ s = "" then some [] else (s.splitOn ",").mapM parsePair

def parseRefTab (s : String) : Option (Array (Option (Nat × Nat))) :=
  ((s.splitOn ",").mapM fun t => if t = "x" then some none else (parsePair t).map some).map List.toArray

def showSpan : Option (Nat × Nat) → String
  | some (s, e) => s!"{s}.{e}"
  | none => "none"

def showWin (w : Nat × Nat) : String := s!"{w.1}.{w.2}"

def digit (c : Char) : Option Nat := if '0' ≤ c ∧ c ≤ '9' then some (c.toNat - '0'.toNat) else none

def run (at_ : Nat) (h suf : Bytes) (flags : List Nat) (mt : List (Nat × Nat)) (ref : Array (Option (Nat × Nat))) : String :=
  match flags with
  | [z, l, c, g] =>
    let n := h.size + 1
    let tab : Array Bool := mt.foldl (fun a p => a.setIfInBounds (p.1 * n + p.2) true) (Array.replicate (n * n) false)
    let mtf : Nat → Nat → Bool := fun s e => decide (s < n ∧ e < n) && tab.getD (s * n + e) false
    let reff : Nat → Option (Nat × Nat) := fun a => (ref.getD a none)
    let O := bruteOracles suf mtf reff c (g == 1)
    let P : Params := { suffix := suf, matchStartZero := z == 1, lineBounded := l == 1 }
    let (r, t) := findIndicesAtT O P h at_
    let m := (isMatchT O P h).1
    let lim := if t.limited.isEmpty then "-" else ",".intercalate (t.limited.map showWin)
    let full := match t.full with | some w => showWin w | none => "-"
    let fwd := match t.fwd with | some f => toString f | none => "-"
    s!"{showSpan r} {m} pf={t.pfCalls} lim={lim} full={full} fwd={fwd} cost={t.revCost}"
  | _ => "bad-op"

def handle? (toks : List String) : Option String :=
  match toks with
  | ["revsuffix", "run", at_, hay, suf, flags, mt, ref] =>
    match at_.toNat?, parseHex hay, parseHex suf, flags.toList.mapM digit, parsePairs mt, parseRefTab ref with
    | some a, some h, some sf, some fl, some m, some r => some (run a h sf fl m r)
    | _, _, _, _, _, _ => some "bad-op"
  | ["revsuffix", "pf", hay, suf, st] =>
    match parseHex hay, parseHex suf, st.toNat? with
    | some h, some sf, some s => some (match refPfFind sf h s with | some p => toString p | none => "-1")
    | _, _, _ => some "bad-op"
  | "revsuffix" :: _ => some "bad-op"
  | _ => none

end Cx.DriverRevSuffix
