import Cx.Driver
import Cx.Model.Pike
/-
  Cx.DriverPike — line-protocol handler for the Pike VM model.
  Request `pike <op> <at> <hayhex> <nfa>` with op ∈ {search, longest, ismatch}; answers `s,e` / `nil` or
  `true` / `false`; malformed arguments answer `bad-op`; any other command is not handled (`none`).
-/
namespace Cx.DriverPike
open Cx

def handle? (toks : List String) : Option String :=
  match toks with
  | ["pike", op, at_, hex, nfa] =>
    match parseNat at_, parseHex hex, Driver.parseNfa nfa with
    | some at_, some h, some N =>
      match op with
      | "search" => some (Driver.showSpan (Pike.searchAt N h at_ false))
      | "longest" => some (Driver.showSpan (Pike.searchAt N h at_ true))
      | "ismatch" => some (toString (Pike.isMatch N h))
      | _ => some "bad-op"
    | _, _, _ => some "bad-op"
  | _ => none

end Cx.DriverPike
