import Cx.Driver
import Cx.Model.Caps
import Cx.Model.OnePass
/-
  Cx.DriverCaps — line-protocol handler for the capture models.
  Request `caps <op> <at> <nslots> <hayhex> <nfa>` with op ∈ {ref, refa, pike, pikel, onepass, onepass-longest, onepass-ismatch, onepass-build,
  arun, arun-longest, ophyp, classes, hyp};
  answers the slot list as comma-separated ints (`nil` = no match), `ok` / `reject` for onepass-build;
  malformed arguments answer `bad-op`; any other command is not handled (`none`).
-/
namespace Cx.DriverCaps
open Cx

def showSlots : Option (List Int) → String
  | none => "nil"
  | some l => showIntList l

def handle? (toks : List String) : Option String :=
  match toks with
  | ["caps", op, at_, ns, hex, nfa] =>
    match parseNat at_, parseNat ns, parseHex hex, Driver.parseNfa nfa with
    | some at_, some ns, some h, some N =>
      match op with
      | "ref" => some (showSlots (Caps.btCaps N h at_ ns))
      | "refa" => some (showSlots (Caps.btCapsAnchored N h at_ ns))
      | "pike" => some (showSlots (Caps.pikeCaps N h at_ ns))
      | "pikel" => some (showSlots (Caps.pikeCapsL N h at_ ns true))
      | "onepass-build" => some (match Caps.OnePass.buildFor N ns with | some _ => "ok" | none => "reject")
      | "onepass" =>
        some (match Caps.OnePass.buildFor N ns with
          | some T => showSlots (Caps.OnePass.search T h ns)
          | none => "reject")
      | "onepass-longest" =>
        some (match Caps.OnePass.buildFor N ns with
          | some T => showSlots (Caps.OnePass.searchLongest T h ns)
          | none => "reject")
      | "arun" =>       -- the numbering-free run over NFA roots (`orun`); answers as `onepass` does
        some (match Caps.OnePass.buildFor N ns with
          | some _ => showSlots (Caps.OnePass.orunSearch N h ns false)
          | none => "reject")
      | "arun-longest" =>
        some (match Caps.OnePass.buildFor N ns with
          | some _ => showSlots (Caps.OnePass.orunSearch N h ns true)
          | none => "reject")
      | "onepass-ismatch" =>
        some (match Caps.OnePass.buildFor N ns with
          | some T => toString (Caps.OnePass.isMatch T h)
          | none => "reject")
      | "ophyp" => some s!"strict=true noback=true nocap0={Caps.OnePass.noCap0 N} nolook={Caps.OnePass.noLook N} norune={Caps.noRuneB N} unsupportedlook={Caps.OnePass.hasUnsupportedLook N}"
      | "classes" => some (showNatList (Caps.OnePass.classTable N).toList)
      | "hyp" => some s!"anchored={Pike.anchored N} norune={Caps.noRuneB N} disjoint={Caps.sparseDisjointB N} groups={Caps.groupsOK N (ns / 2)}"
      | _ => some "bad-op"
    | _, _, _, _ => some "bad-op"
  | _ => none

end Cx.DriverCaps
