import Cx.Model.Expand
import Cx.Model.Loops
import Cx.Spec.StdLoops
/-
  Cx.Proofs.Expand — the ported `expand` and `QuoteMeta` equal stdlib's.
-/
namespace Cx
open Cx.Std Cx.Model

theorem cxExpand_eq_std (isNameRune : Nat → Bool) (t src : Bytes) (m : List Int) (names : List (List Nat)) :
    cxExpand isNameRune t src m names = stdExpand isNameRune t src m names := by
  sorry

theorem cxQuoteMeta_eq_std (s : List Nat) : cxQuoteMeta s = stdQuoteMeta s := by
  sorry

/-- what QuoteMeta computes: every special byte gets one backslash in front, nothing else changes -/
theorem stdQuoteMeta_eq_flatMap (s : List Nat) :
    stdQuoteMeta s = s.flatMap fun c => if special c then [92, c] else [c] := by
  sorry

/-- un-escaping (drop the backslash in front of a special byte) recovers the input: QuoteMeta loses nothing -/
def unquote : List Nat → List Nat
  | 92 :: c :: t => if special c then c :: unquote t else 92 :: unquote (c :: t)
  | c :: t => c :: unquote t
  | [] => []

theorem unquote_quoteMeta (s : List Nat) : unquote (stdQuoteMeta s) = s := by
  sorry

/-- C08 Split: the ported loop is stdlib's loop -/
theorem split_eq_std (patEmpty : Bool) (s : List Nat) (n : Int) (ms : List (Nat × Nat)) :
    Cx.Loops.split patEmpty s n ms = Cx.Std.stdSplit patEmpty s n ms := by
  sorry

end Cx
