import Cx.Model.Expand
import Cx.Model.Loops
import Cx.Spec.StdLoops
/-
  Cx.Proofs.Expand — the ported `expand` and `QuoteMeta` equal stdlib's.
-/
namespace Cx
open Cx.Std Cx.Model

/-! ### expand -/

/-- the relative `bytes.IndexByte` scan is the absolute `strings.Cut` scan shifted by `i` -/
theorem indexDollar_eq_cutDollar (t : Bytes) (fuel i k : Nat) :
    indexDollar t fuel i k = (cutDollar t fuel (i + k)).map (· - i) := by
  induction fuel generalizing k with
  | zero => simp [indexDollar, cutDollar]
  | succ f ih =>
    unfold indexDollar cutDollar
    by_cases h1 : i + k ≥ t.size
    · simp [h1]
    · by_cases h2 : t.at (i + k) = 36
      · simp [h1, h2]
      · simp only [h1, h2, if_false]
        rw [ih (k + 1)]
        rfl

theorem cutDollar_ge (t : Bytes) (fuel i d : Nat) (h : cutDollar t fuel i = some d) : i ≤ d := by
  induction fuel generalizing i with
  | zero => simp [cutDollar] at h
  | succ f ih =>
    unfold cutDollar at h
    by_cases h1 : i ≥ t.size
    · simp [h1] at h
    · by_cases h2 : t.at i = 36
      · simp [h1, h2] at h; omega
      · simp only [h1, h2, if_false] at h
        have := ih (i + 1) h
        omega

theorem cutDollar_none_of_ge (t : Bytes) (fuel i : Nat) (h : i ≥ t.size) : cutDollar t fuel i = none := by
  cases fuel with
  | zero => rfl
  | succ f => simp [cutDollar, h]

theorem cxExpandLoop_eq_expand (isNameRune : Nat → Bool) (t src : Bytes) (m : List Int) (names : List (List Nat))
    (fuel i : Nat) (acc : List Nat) :
    cxExpandLoop isNameRune t src m names fuel i acc = expand isNameRune t src m names fuel i acc := by
  induction fuel generalizing i acc with
  | zero => rfl
  | succ f ih =>
    unfold cxExpandLoop expand
    by_cases hi : i ≥ t.size
    · simp [hi, cutDollar_none_of_ge t _ i hi]
    · simp only [hi, if_false]
      have hidx := indexDollar_eq_cutDollar t (t.size + 1) i 0
      simp only [Nat.add_zero] at hidx
      rw [hidx]
      cases hc : cutDollar t (t.size + 1) i with
      | none => rfl
      | some d =>
        have hge := cutDollar_ge t _ i d hc
        have hd : i + (d - i) = d := by omega
        simp only [Option.map_some, hd, ih]
        rfl

theorem cxExpand_eq_std (isNameRune : Nat → Bool) (t src : Bytes) (m : List Int) (names : List (List Nat)) :
    cxExpand isNameRune t src m names = stdExpand isNameRune t src m names := by
  unfold cxExpand stdExpand
  exact cxExpandLoop_eq_expand ..

/-! ### QuoteMeta -/

/-- the escaping map: one backslash in front of every special byte -/
private abbrev esc : Nat → List Nat := fun c => if special c then [92, c] else [c]

theorem pre_flatMap (s : List Nat) :
    (stdQuoteMeta.pre s).1 ++ (stdQuoteMeta.pre s).2.flatMap esc = s.flatMap esc := by
  induction s with
  | nil => simp [stdQuoteMeta.pre]
  | cons c t ih =>
    unfold stdQuoteMeta.pre
    by_cases hc : special c
    · simp [hc]
    · have hc' : special c = false := by simpa using hc
      simp only [hc', esc, Bool.false_eq_true, if_false, List.flatMap_cons, List.cons_append, List.nil_append]
      rw [← ih]

/-- what QuoteMeta computes: every special byte gets one backslash in front, nothing else changes -/
theorem stdQuoteMeta_eq_flatMap (s : List Nat) :
    stdQuoteMeta s = s.flatMap fun c => if special c then [92, c] else [c] := by
  unfold stdQuoteMeta
  exact pre_flatMap s

theorem flatMap_esc_of_filter_nil (s : List Nat) (h : (s.filter special).length = 0) : s.flatMap esc = s := by
  induction s with
  | nil => rfl
  | cons c t ih =>
    by_cases hc : special c
    · simp [hc] at h
    · have hc' : special c = false := by simpa using hc
      simp only [List.filter_cons, hc', Bool.false_eq_true, if_false] at h
      simp only [List.flatMap_cons, esc, hc', Bool.false_eq_true, if_false, List.cons_append, List.nil_append]
      rw [ih h]

theorem cxQuoteMeta_eq_std (s : List Nat) : cxQuoteMeta s = stdQuoteMeta s := by
  rw [stdQuoteMeta_eq_flatMap]
  unfold cxQuoteMeta
  by_cases h : (s.filter special).length = 0
  · simp only [h, if_true]
    exact (flatMap_esc_of_filter_nil s h).symm
  · simp only [h, if_false]

/-- un-escaping (drop the backslash in front of a special byte) recovers the input: QuoteMeta loses nothing -/
def unquote : List Nat → List Nat
  | 92 :: c :: t => if special c then c :: unquote t else 92 :: unquote (c :: t)
  | c :: t => c :: unquote t
  | [] => []

theorem unquote_cons_of_ne (c : Nat) (t : List Nat) (h : c ≠ 92) : unquote (c :: t) = c :: unquote t := by
  rw [unquote.eq_2]
  intro c' t' hc
  exact absurd hc h

theorem unquote_quoteMeta (s : List Nat) : unquote (stdQuoteMeta s) = s := by
  rw [stdQuoteMeta_eq_flatMap]
  induction s with
  | nil => simp [unquote]
  | cons c t ih =>
    by_cases hc : special c
    · simp only [List.flatMap_cons, hc, if_true, List.cons_append, List.nil_append]
      rw [unquote.eq_1]
      simp [hc, ih]
    · have hne : c ≠ 92 := by
        intro h; subst h; exact hc (by decide)
      simp only [List.flatMap_cons, hc]
      simp only [Bool.false_eq_true, if_false, List.cons_append, List.nil_append]
      rw [unquote_cons_of_ne c _ hne, ih]

/-! ### Split -/

theorem splitLoop_eq_std (s : List Nat) (n : Int) (ms : List (Nat × Nat)) (beg end_ : Nat) (acc : List (List Nat)) :
    Cx.Loops.splitLoop s n ms beg end_ acc = Cx.Std.stdSplitLoop s n ms beg end_ acc := by
  induction ms generalizing beg end_ acc with
  | nil => rfl
  | cons p rest ih =>
    obtain ⟨m0, m1⟩ := p
    unfold Cx.Loops.splitLoop Cx.Std.stdSplitLoop
    simp only [ih]

/-- C08 Split: the ported loop is stdlib's loop -/
theorem split_eq_std (patEmpty : Bool) (s : List Nat) (n : Int) (ms : List (Nat × Nat)) :
    Cx.Loops.split patEmpty s n ms = Cx.Std.stdSplit patEmpty s n ms := by
  unfold Cx.Loops.split Cx.Std.stdSplit
  simp only [splitLoop_eq_std]

end Cx
