import Cx.Model.State
/-
  Cx.Proofs.State — invariants of the recycled state, for every operation sequence (C06, C13, C20).
-/
namespace Cx.State

/-! ### visited table: invariants -/

/-- reachable-state invariant: the generation fits a uint16 and no stamp is ahead of it -/
def Vis.Inv (s : Vis) : Prop := s.gen < genMod ∧ ∀ x ∈ s.arr, x ≤ s.gen

/-- what a `bump` establishes: every stamp is strictly behind a non-zero generation -/
def Vis.Fresh (s : Vis) : Prop := 0 < s.gen ∧ s.gen < genMod ∧ ∀ x ∈ s.arr, x < s.gen

theorem Vis.Fresh.inv {s : Vis} (h : s.Fresh) : s.Inv :=
  ⟨h.2.1, fun x hx => Nat.le_of_lt (h.2.2 x hx)⟩

theorem Vis.inv_new : Vis.new.Inv := by
  refine ⟨by simp [Vis.new, genMod], ?_⟩
  intro x hx
  simp [Vis.new] at hx

theorem Vis.bump_fresh {s : Vis} (h : s.Inv) : s.bump.Fresh := by
  obtain ⟨hg, hx⟩ := h
  have hg' : s.gen < 65536 := hg
  unfold Vis.bump
  by_cases hw : (s.gen + 1) % genMod = 0
  · rw [if_pos hw]
    refine ⟨by simp, by simp [genMod], ?_⟩
    intro x hx'
    simp only [List.mem_replicate] at hx'
    show x < 1
    omega
  · rw [if_neg hw]
    have hw' : (s.gen + 1) % 65536 ≠ 0 := hw
    have hmod : (s.gen + 1) % genMod = s.gen + 1 := by
      show (s.gen + 1) % 65536 = s.gen + 1
      omega
    refine ⟨?_, ?_, ?_⟩
    · simp only [hmod]; omega
    · simp only [hmod]; show s.gen + 1 < 65536; omega
    · intro x hx'
      have := hx x hx'
      simp only [hmod]
      omega

theorem Vis.reset_fresh {s : Vis} (h : s.Inv) (n : Nat) : (s.reset n).Fresh := by
  unfold Vis.reset
  apply Vis.bump_fresh
  by_cases hn : s.arr.length ≥ n
  · rw [if_pos hn]; exact h
  · rw [if_neg hn]
    refine ⟨by simp [genMod], ?_⟩
    intro x hx
    simp only [List.mem_replicate] at hx
    omega

theorem Vis.mark_inv {s : Vis} (h : s.Inv) (i : Nat) : (s.mark i).Inv := by
  unfold Vis.mark
  split
  · refine ⟨h.1, ?_⟩
    intro x hx
    simp only at hx
    rcases List.mem_or_eq_of_mem_set hx with hx | hx
    · exact h.2 x hx
    · simp only; omega
  · exact h

theorem Vis.step_inv {s : Vis} (h : s.Inv) (op : VOp) : (s.step op).Inv := by
  cases op with
  | reset n => exact (Vis.reset_fresh h n).inv
  | bump => exact (Vis.bump_fresh h).inv
  | mark i => exact Vis.mark_inv h i

theorem Vis.run_inv (ops : List VOp) : ∀ {s : Vis}, s.Inv → (s.run ops).Inv := by
  induction ops with
  | nil => intro s h; exact h
  | cons op ops ih =>
    intro s h
    exact ih (s := s.step op) (Vis.step_inv h op)

theorem Vis.Fresh.not_visited {s : Vis} (h : s.Fresh) (idx : Nat) : s.visited idx = false := by
  obtain ⟨h0, _, hx⟩ := h
  unfold Vis.visited
  rw [List.getD_eq_getElem?_getD]
  cases hv : s.arr[idx]? with
  | none => simp; omega
  | some x =>
    have := hx x (List.mem_of_getElem? hv)
    simp; omega

/-- C13: after any history, a new search (reset) or a new start position (bump) sees a table with NO entry
    marked visited — for every index of the whole backing array, so re-slicing to a longer haystack is safe.
    (History = any interleaving of searches of any sizes, start-position bumps and markings, across the wrap.) -/
theorem vis_fresh_after_reset (ops : List VOp) (n idx : Nat) :
    ((Vis.new.run ops).reset n).visited idx = false :=
  (Vis.reset_fresh (Vis.run_inv ops Vis.inv_new) n).not_visited idx

theorem vis_fresh_after_bump (ops : List VOp) (idx : Nat) :
    ((Vis.new.run ops).bump).visited idx = false :=
  (Vis.bump_fresh (Vis.run_inv ops Vis.inv_new)).not_visited idx

/-- C13: marking makes exactly that entry visited and nothing else -/
theorem vis_mark_exact (s : Vis) (i j : Nat) (hi : i < s.len) (hl : s.len ≤ s.arr.length) :
    (s.mark i).visited j = (decide (j = i) || s.visited j) := by
  have hil : i < s.arr.length := Nat.lt_of_lt_of_le hi hl
  unfold Vis.mark Vis.visited
  rw [if_pos hi]
  simp only [List.getD_eq_getElem?_getD, List.getElem?_set]
  by_cases hji : j = i
  · subst hji
    simp [hil]
  · have hij : ¬ i = j := fun h => hji h.symm
    simp [hji, hij]

/-! ### visited table: size -/

theorem Vis.bump_arr_length (s : Vis) : s.bump.arr.length = s.arr.length := by
  unfold Vis.bump
  simp only
  split <;> simp

theorem Vis.bump_len (s : Vis) : s.bump.len = s.len := by
  unfold Vis.bump
  simp only
  split <;> rfl

theorem Vis.step_size {s : Vis} {m : Nat} (h : s.arr.length ≤ m ∧ s.len ≤ s.arr.length) (op : VOp)
    (hop : ∀ n, op = VOp.reset n → n ≤ m) :
    (s.step op).arr.length ≤ m ∧ (s.step op).len ≤ (s.step op).arr.length := by
  cases op with
  | reset n =>
    have hn := hop n rfl
    simp only [Vis.step, Vis.reset, Vis.bump_arr_length, Vis.bump_len]
    split
    · rename_i hge
      simp only
      omega
    · simp
      omega
  | bump =>
    simp only [Vis.step, Vis.bump_arr_length, Vis.bump_len]
    exact h
  | mark i =>
    simp only [Vis.step, Vis.mark]
    split
    · simp only [List.length_set]; exact h
    · exact h

theorem Vis.run_size (ops : List VOp) (m : Nat) (hm : ∀ n, VOp.reset n ∈ ops → n ≤ m) :
    ∀ {s : Vis}, (s.arr.length ≤ m ∧ s.len ≤ s.arr.length) →
      (s.run ops).arr.length ≤ m ∧ (s.run ops).len ≤ (s.run ops).arr.length := by
  induction ops with
  | nil => intro s h; exact h
  | cons op ops ih =>
    intro s h
    apply ih (fun n hn => hm n (List.mem_cons_of_mem _ hn)) (s := s.step op)
    apply Vis.step_size h
    intro n hn
    exact hm n (by rw [hn]; exact List.mem_cons_self)

/-- C20: the table never grows beyond the largest request (the caller gates requests with CanHandle) -/
theorem vis_size_bound (ops : List VOp) (m : Nat) (hm : ∀ n, VOp.reset n ∈ ops → n ≤ m) :
    (Vis.new.run ops).arr.length ≤ m ∧ (Vis.new.run ops).len ≤ (Vis.new.run ops).arr.length :=
  Vis.run_size ops m hm (by simp [Vis.new])

/-- the pre-fix overflow branch breaks freshness: a witness state (a stale stamp beyond `len`) -/
theorem vis_old_wrap_witness :
    let s : Vis := { arr := [0, 2], len := 1, gen := 65535 }
    -- wrap with the short slice, then a longer search at generation 2 sees entry 1 as already visited
    (((s.bumpOld).reset 2)).visited 1 = true ∧ (((s.bump).reset 2)).visited 1 = false := by
  decide

/-! ### lazy-DFA cache accounting -/

/-- reachable-state invariant of the accounting, parametric in the slack `B` above the capacity -/
structure Cache.Inv (stride cap B : Nat) (c : Cache) : Prop where
  hstride : c.stride = stride
  hcap : c.cap = cap
  hnext : c.nextID = (c.nStates + 1) * stride
  shape : (c.nStates = 0 ∧ c.flatLen = 0 ∧ c.listLen = 0 ∧ c.nfaBytes = 0) ∨
          (0 < c.nStates ∧ c.flatLen = c.nextID ∧ c.listLen = c.nStates + 1)
  bound : c.mem ≤ cap + B

theorem Cache.inv_new (stride cap B : Nat) : (Cache.new stride cap).Inv stride cap B := by
  refine ⟨rfl, rfl, ?_, Or.inl ⟨rfl, rfl, rfl, rfl⟩, ?_⟩
  · simp [Cache.new]
  · simp [Cache.new, Cache.mem]

theorem Cache.clear_inv {stride cap B : Nat} {c : Cache} (h : c.Inv stride cap B) :
    c.clear.Inv stride cap B := by
  refine ⟨h.hstride, h.hcap, ?_, Or.inl ⟨rfl, rfl, rfl, rfl⟩, ?_⟩
  · simp [Cache.clear, h.hstride]
  · simp [Cache.clear, Cache.mem]

/-- `B` must cover one ordinary insert (`hB1`) and the first insert after new/clear, which allocates two
    transition rows and two list slots at once (`hB2`). -/
theorem Cache.add_inv {stride cap B maxSz : Nat} (hs : 0 < stride) (hB1 : 56 + 4 * stride + maxSz ≤ B)
    (hB2 : 64 + 8 * stride + maxSz ≤ cap + B) {c : Cache} (h : c.Inv stride cap B) (sz : Nat)
    (hsz : sz ≤ maxSz) : ((c.add sz).getD c).Inv stride cap B := by
  obtain ⟨h1, h2, h3, h4, h5⟩ := h
  unfold Cache.add
  by_cases hfull : c.mem ≥ c.cap
  · rw [if_pos hfull]; exact ⟨h1, h2, h3, h4, h5⟩
  · rw [if_neg hfull]
    simp only [Option.getD_some]
    have hdiv : c.nextID / c.stride = c.nStates + 1 := by
      rw [h3, h1]; exact Nat.mul_div_cancel _ hs
    refine ⟨h1, h2, ?_, ?_, ?_⟩
    · simp only [h1, h3, Nat.add_mul, Nat.one_mul]
    · right
      simp only [hdiv]
      rcases h4 with ⟨a, b, c', d⟩ | ⟨a, b, c'⟩ <;> omega
    · unfold Cache.mem at *
      simp only [hdiv]
      rcases h4 with ⟨a, b, c', d⟩ | ⟨a, b, c'⟩
      · have hn : c.nextID = stride := by rw [h3, a]; simp
        omega
      · omega

theorem Cache.run_inv {stride cap B maxSz : Nat} (hs : 0 < stride) (hB1 : 56 + 4 * stride + maxSz ≤ B)
    (hB2 : 64 + 8 * stride + maxSz ≤ cap + B) (ops : List COp) (hsz : ∀ sz, COp.add sz ∈ ops → sz ≤ maxSz) :
    ∀ {c : Cache}, c.Inv stride cap B → (c.run ops).Inv stride cap B := by
  induction ops with
  | nil => intro c h; exact h
  | cons op ops ih =>
    intro c h
    apply ih (fun sz hm => hsz sz (List.mem_cons_of_mem _ hm)) (c := c.step op)
    cases op with
    | add sz => exact Cache.add_inv hs hB1 hB2 h sz (hsz sz List.mem_cons_self)
    | clear => exact Cache.clear_inv h

/-- The bound as originally stated (`cap + (48 + 8 + 8*stride + maxSz)` with no lower bound on `cap`) is FALSE:
    the first insert after new/clear allocates two transition rows AND two list slots (16 bytes, not 8), and it is
    accepted as soon as `0 < cap`. Witness: stride = 1, cap = 1, maxSz = 0, ops = [add 0]: mem = 72 > 65. -/
theorem cache_mem_bound_counterexample :
    ¬ (((Cache.new 1 1).run [COp.add 0]).mem ≤ 1 + (48 + 8 + 8 * 1 + 0)) := by
  decide

/-- C20: memory stays within capacity plus one state's worth, for every history of inserts and clears —
    under the extra hypothesis `8 ≤ cap` (see `cache_mem_bound_counterexample` for why it is needed). -/
theorem cache_mem_bound_partial (stride cap maxSz : Nat) (ops : List COp) (hs : 0 < stride) (hcap : 8 ≤ cap)
    (hsz : ∀ sz, COp.add sz ∈ ops → sz ≤ maxSz) :
    ((Cache.new stride cap).run ops).mem ≤ cap + (48 + 8 + 8 * stride + maxSz) :=
  (Cache.run_inv hs (by omega) (by omega) ops hsz (Cache.inv_new stride cap _)).bound

/-- C20, unconditional variant: with TWO list slots (16 bytes) in the slack the bound holds for every `cap`. -/
theorem cache_mem_bound_two_slots (stride cap maxSz : Nat) (ops : List COp) (hs : 0 < stride)
    (hsz : ∀ sz, COp.add sz ∈ ops → sz ≤ maxSz) :
    ((Cache.new stride cap).run ops).mem ≤ cap + (48 + 16 + 8 * stride + maxSz) :=
  (Cache.run_inv hs (by omega) (by omega) ops hsz (Cache.inv_new stride cap _)).bound

theorem Cache.step_stride_cap (c : Cache) (op : COp) : (c.step op).stride = c.stride ∧ (c.step op).cap = c.cap := by
  cases op with
  | add sz =>
    simp only [Cache.step, Cache.add]
    split <;> simp
  | clear => simp [Cache.step, Cache.clear]

theorem Cache.run_stride_cap (ops : List COp) :
    ∀ (c : Cache), (c.run ops).stride = c.stride ∧ (c.run ops).cap = c.cap := by
  induction ops with
  | nil => intro c; exact ⟨rfl, rfl⟩
  | cons op ops ih =>
    intro c
    have h1 := ih (c.step op)
    have h2 := Cache.step_stride_cap c op
    exact ⟨h1.1.trans h2.1, h1.2.trans h2.2⟩

/-- C13/C20: a clear returns the accounting to the state of a new cache (only the clear counter differs) -/
theorem cache_clear_is_new (stride cap : Nat) (ops : List COp) :
    { ((Cache.new stride cap).run ops).clear with clears := 0 } = Cache.new stride cap := by
  have h := Cache.run_stride_cap ops (Cache.new stride cap)
  simp only [Cache.clear, Cache.new] at *
  simp [h.1, h.2]

/-! ### search-state pool -/

def Pool.Inv (p : Pool) : Prop := p.ids.Nodup ∧ ∀ x ∈ p.ids, x < p.next

theorem Pool.Inv.of_perm {p q : Pool} (hp : p.Inv) (hperm : q.ids.Perm p.ids) (hnext : q.next = p.next) :
    q.Inv :=
  ⟨hperm.nodup_iff.mpr hp.1, fun x hx => hnext ▸ hp.2 x (hperm.mem_iff.mp hx)⟩

theorem Pool.Inv.of_sublist {p q : Pool} (hp : p.Inv) (hsub : q.ids.Sublist p.ids) (hnext : q.next = p.next) :
    q.Inv :=
  ⟨hp.1.sublist hsub, fun x hx => hnext ▸ hp.2 x (hsub.subset hx)⟩

theorem perm_cons_eraseIdx {α : Type} : ∀ (l : List α) (k : Nat) (s : α), l[k]? = some s →
    l.Perm (s :: l.eraseIdx k) := by
  intro l
  induction l with
  | nil => intro k s h; simp at h
  | cons a l ih =>
    intro k s h
    cases k with
    | zero =>
      simp at h
      subst h
      simp
    | succ k =>
      simp at h
      simp only [List.eraseIdx_cons_succ]
      exact ((ih k s h).cons a).trans (List.Perm.swap s a _)

theorem gcFilter_sublist : ∀ (l : List Nat) (ks : List Bool),
    ((l.zip ks).filterMap fun (s, k) => if k then some s else none).Sublist l := by
  intro l
  induction l with
  | nil => intro ks; simp
  | cons a l ih =>
    intro ks
    cases ks with
    | nil => simp
    | cons b ks =>
      simp only [List.zip_cons_cons, List.filterMap_cons]
      cases b with
      | true => simp only [if_true]; exact (ih ks).cons_cons a
      | false => simp only [Bool.false_eq_true, if_false]; exact (ih ks).cons a

theorem Pool.inv_init : Pool.init.Inv := by
  simp [Pool.Inv, Pool.init, Pool.ids]

theorem Pool.step_inv {p : Pool} (hp : p.Inv) (op : POp) : (p.step op).Inv := by
  cases op with
  | getLocal t =>
    cases hs : p.slot with
    | none => simp only [Pool.step, hs]; exact hp
    | some s =>
      simp only [Pool.step, hs]
      apply hp.of_perm ?_ (by rfl)
      simp only [Pool.ids, hs, Option.toList, List.map_cons, List.nil_append, List.cons_append]
      exact List.perm_middle
  | getPool t k =>
    cases hs : p.slot with
    | some a => simp only [Pool.step, hs]; exact hp
    | none =>
      cases hk : p.pool[k]? with
      | none => simp only [Pool.step, hs, hk]; exact hp
      | some s =>
        simp only [Pool.step, hs, hk]
        apply hp.of_perm ?_ (by rfl)
        simp only [Pool.ids, hs, Option.toList, List.map_cons, List.nil_append]
        exact List.perm_middle.trans ((perm_cons_eraseIdx _ _ _ hk).symm.append_right _)
  | getNew t =>
    cases hs : p.slot with
    | some a => simp only [Pool.step, hs]; exact hp
    | none =>
      simp only [Pool.step, hs]
      have hperm : ({ slot := none, pool := p.pool, held := (t, p.next) :: p.held, next := p.next + 1 } : Pool).ids.Perm
          (p.next :: p.ids) := by
        simp only [Pool.ids, hs, Option.toList, List.map_cons, List.nil_append]
        exact List.perm_middle
      refine ⟨hperm.nodup_iff.mpr (List.nodup_cons.mpr ⟨?_, hp.1⟩), ?_⟩
      · intro hmem
        exact Nat.lt_irrefl _ (hp.2 _ hmem)
      · intro x hx
        rcases List.mem_cons.mp (hperm.mem_iff.mp hx) with h | h
        · show x < p.next + 1; omega
        · have := hp.2 x h
          show x < p.next + 1; omega
  | put t s =>
    by_cases hmem : (t, s) ∈ p.held
    · have hperm : (p.held.map (·.2)).Perm (s :: (p.held.erase (t, s)).map (·.2)) :=
        (List.perm_cons_erase hmem).map (·.2)
      cases hs : p.slot with
      | none =>
        simp only [Pool.step, if_pos hmem, hs]
        apply hp.of_perm ?_ (by rfl)
        simp only [Pool.ids, hs, Option.toList, List.nil_append, List.cons_append]
        exact ((hperm.append_left p.pool).trans List.perm_middle).symm
      | some a =>
        simp only [Pool.step, if_pos hmem, hs]
        apply hp.of_perm ?_ (by rfl)
        simp only [Pool.ids, hs, Option.toList, List.nil_append, List.cons_append]
        exact (((hperm.append_left p.pool).trans List.perm_middle).symm).cons a
    · simp only [Pool.step, if_neg hmem]; exact hp
  | gc keep =>
    simp only [Pool.step]
    apply hp.of_sublist ?_ (by rfl)
    simp only [Pool.ids]
    exact ((List.Sublist.refl _).append (gcFilter_sublist _ _)).append (List.Sublist.refl _)

theorem Pool.run_inv (ops : List POp) : ∀ {p : Pool}, p.Inv → (p.run ops).Inv := by
  induction ops with
  | nil => intro p h; exact h
  | cons op ops ih =>
    intro p h
    exact ih (p := p.step op) (Pool.step_inv h op)

/-- C06: in every reachable state of the hand-off protocol all state ids are distinct: no state is in two
    places, in particular no two goroutines (and no two nested calls) hold the same state. -/
theorem pool_ids_nodup (ops : List POp) : (Pool.init.run ops).ids.Nodup :=
  (Pool.run_inv ops Pool.inv_init).1

theorem snd_nodup_inj : ∀ (l : List (Nat × Nat)), (l.map (·.2)).Nodup →
    ∀ a b s, (a, s) ∈ l → (b, s) ∈ l → a = b := by
  intro l
  induction l with
  | nil => intro _ a b s h; simp at h
  | cons x l ih =>
    intro hn a b s ha hb
    simp only [List.map_cons, List.nodup_cons] at hn
    obtain ⟨hx, hn⟩ := hn
    rcases List.mem_cons.mp ha with ha | ha <;> rcases List.mem_cons.mp hb with hb | hb
    · rw [← hb] at ha
      exact (Prod.mk.inj ha).1
    · exfalso; apply hx
      rw [← ha]
      exact List.mem_map.mpr ⟨(b, s), hb, rfl⟩
    · exfalso; apply hx
      rw [← hb]
      exact List.mem_map.mpr ⟨(a, s), ha, rfl⟩
    · exact ih hn a b s ha hb

theorem pool_exclusive (ops : List POp) (t1 t2 s : Nat) (h1 : (t1, s) ∈ (Pool.init.run ops).held)
    (h2 : (t2, s) ∈ (Pool.init.run ops).held) : t1 = t2 := by
  have hn := pool_ids_nodup ops
  unfold Pool.ids at hn
  exact snd_nodup_inj _ (hn.sublist (List.sublist_append_right _ _)) t1 t2 s h1 h2

theorem Pool.round_init (t : Nat) : (Pool.init.step (POp.getLocal t)).step (POp.put t 0) = Pool.init := by
  simp [Pool.step, Pool.init]

/-- C20: a sequential caller (get then put, nothing else running) never makes the pool allocate:
    the slot is refilled by every put, so the next get is a `getLocal`. -/
theorem pool_sequential_no_alloc (k : Nat) (t : Nat) :
    let p := Pool.init.run ((List.replicate k [POp.getLocal t, POp.put t 0]).flatten)
    p = Pool.init := by
  induction k with
  | zero => rfl
  | succ k ih =>
    simp only [List.replicate_succ, List.flatten_cons, Pool.run, List.cons_append, List.nil_append,
      List.foldl_cons] at *
    rw [Pool.round_init]
    exact ih

end Cx.State
