import Cx.Model.State
/-
  Cx.Proofs.State — invariants of the recycled state, for every operation sequence (C06, C13, C20).
-/
namespace Cx.State

/-- C13: after any history, a new search (reset) or a new start position (bump) sees a table with NO entry
    marked visited — for every index of the whole backing array, so re-slicing to a longer haystack is safe.
    (History = any interleaving of searches of any sizes, start-position bumps and markings, across the wrap.) -/
theorem vis_fresh_after_reset (ops : List VOp) (n idx : Nat) :
    ((Vis.new.run ops).reset n).visited idx = false := by
  sorry

theorem vis_fresh_after_bump (ops : List VOp) (idx : Nat) :
    ((Vis.new.run ops).bump).visited idx = false := by
  sorry

/-- C13: marking makes exactly that entry visited and nothing else -/
theorem vis_mark_exact (s : Vis) (i j : Nat) (hi : i < s.len) (hl : s.len ≤ s.arr.length) :
    (s.mark i).visited j = (decide (j = i) || s.visited j) := by
  sorry

/-- C20: the table never grows beyond the largest request (the caller gates requests with CanHandle) -/
theorem vis_size_bound (ops : List VOp) (m : Nat) (hm : ∀ n, VOp.reset n ∈ ops → n ≤ m) :
    (Vis.new.run ops).arr.length ≤ m ∧ (Vis.new.run ops).len ≤ (Vis.new.run ops).arr.length := by
  sorry

/-- the pre-fix overflow branch breaks freshness: a witness state (a stale stamp beyond `len`) -/
theorem vis_old_wrap_witness :
    let s : Vis := { arr := [0, 2], len := 1, gen := 65535 }
    -- wrap with the short slice, then a longer search at generation 2 sees entry 1 as already visited
    (((s.bumpOld).reset 2)).visited 1 = true ∧ (((s.bump).reset 2)).visited 1 = false := by
  sorry

/-- C20: memory stays within capacity plus one state's worth, for every history of inserts and clears -/
theorem cache_mem_bound (stride cap maxSz : Nat) (ops : List COp) (hs : 0 < stride)
    (hsz : ∀ sz, COp.add sz ∈ ops → sz ≤ maxSz) :
    ((Cache.new stride cap).run ops).mem ≤ cap + (48 + 8 + 8 * stride + maxSz) := by
  sorry

/-- C13/C20: a clear returns the accounting to the state of a new cache (only the clear counter differs) -/
theorem cache_clear_is_new (stride cap : Nat) (ops : List COp) :
    { ((Cache.new stride cap).run ops).clear with clears := 0 } = Cache.new stride cap := by
  sorry

/-- C06: in every reachable state of the hand-off protocol all state ids are distinct: no state is in two
    places, in particular no two goroutines (and no two nested calls) hold the same state. -/
theorem pool_ids_nodup (ops : List POp) : (Pool.init.run ops).ids.Nodup := by
  sorry

theorem pool_exclusive (ops : List POp) (t1 t2 s : Nat) (h1 : (t1, s) ∈ (Pool.init.run ops).held)
    (h2 : (t2, s) ∈ (Pool.init.run ops).held) : t1 = t2 := by
  sorry

/-- C20: a sequential caller (get then put, nothing else running) never makes the pool allocate:
    the slot is refilled by every put, so the next get is a `getLocal`. -/
theorem pool_sequential_no_alloc (k : Nat) (t : Nat) :
    let p := Pool.init.run ((List.replicate k [POp.getLocal t, POp.put t 0]).flatten)
    p = Pool.init := by
  sorry

end Cx.State
