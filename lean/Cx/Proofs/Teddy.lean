import Cx.Model.Teddy
/-
  Cx.Proofs.Teddy — C16 for the slim Teddy prefilter: the fingerprint never hides a literal (mask soundness),
  so candidate search + verification + resume finds exactly the first offset where some literal occurs.
-/
namespace Cx.Teddy
open Cx

/-- well-formed construction (what `NewTeddy` guarantees before building): at least one pattern,
    every pattern at least `fpLen ≥ 1` bytes long, all pattern bytes are bytes -/
structure WF (t : T) : Prop where
  nonempty : t.patterns ≠ []
  nb_eq : t.nb = min 8 t.patterns.length
  fp_pos : 1 ≤ t.fpLen
  fp_le : ∀ p ∈ t.patterns, t.fpLen ≤ p.length
  min_le : ∀ p ∈ t.patterns, t.minLen ≤ p.length
  min_mem : ∃ p ∈ t.patterns, p.length = t.minLen
  bytes : ∀ p ∈ t.patterns, ∀ b ∈ p, b < 256

/-- C16 mask soundness: if pattern number `id` occurs at offset `i`, its bucket bit is set in the candidate mask -/
theorem candMask_sound (t : T) (wf : WF t) (h : Bytes) (hb : ∀ k, h.at k < 256) (i id : Nat) (p : Pat)
    (hp : t.patterns[id]? = some p) (ho : occursAt h p i = true) :
    (candMask t h i).testBit (id % t.nb) = true := by
  sorry

/-- C16: `Find` returns the least offset at or after `start` where one of the literals occurs, or none -/
theorem find_eq_naive (t : T) (wf : WF t) (h : Bytes) (hb : ∀ k, h.at k < 256) (start : Nat) :
    find t h start = if start ≥ h.size then none else naiveFind t.patterns h (h.size + 1) start := by
  sorry

/-- C16/C07: a reported match really is an occurrence of the reported pattern, inside the haystack -/
theorem findMatch_sound (t : T) (h : Bytes) (start s id : Nat) (hr : findMatch t h start = some (s, id)) :
    ∃ p, t.patterns[id]? = some p ∧ occursAt h p s = true ∧ start ≤ s := by
  sorry

/-- C16 ("complete ⇒ exact span" needs pattern order): with at most 8 patterns the verification order is the
    pattern order, so the reported pattern is the FIRST pattern (alternation priority) occurring at that offset -/
theorem findMatch_priority (t : T) (wf : WF t) (h : Bytes) (hb : ∀ k, h.at k < 256) (start s id : Nat)
    (h8 : t.patterns.length ≤ 8) (hr : findMatch t h start = some (s, id)) :
    ∀ j p, j < id → t.patterns[j]? = some p → occursAt h p s = false := by
  sorry

end Cx.Teddy
