import Cx.Model.Teddy
/-
  Cx.Proofs.Teddy — C16 for the slim Teddy prefilter: the fingerprint never hides a literal (mask soundness),
  so candidate search + verification + resume finds exactly the first offset where some literal occurs.
-/
namespace Cx.Teddy
open Cx

/-- well-formed construction (what `NewTeddy` guarantees before building): at least one pattern,
    every pattern at least `fpLen ≥ 1` bytes long, all pattern bytes are bytes -/
structure WF (t : T) : Prop where
  nonempty : t.patterns ≠ []
  nb_eq : t.nb = min 8 t.patterns.length
  fp_pos : 1 ≤ t.fpLen
  fp_le : ∀ p ∈ t.patterns, t.fpLen ≤ p.length
  min_le : ∀ p ∈ t.patterns, t.minLen ≤ p.length
  min_mem : ∃ p ∈ t.patterns, p.length = t.minLen
  bytes : ∀ p ∈ t.patterns, ∀ b ∈ p, b < 256

/-! ### bit-level helpers -/

theorem foldl_or_testBit {α : Type} (f : α → Nat) (l : List α) (a b : Nat) :
    (l.foldl (fun acc x => acc ||| f x) a).testBit b = (a.testBit b || l.any (fun x => (f x).testBit b)) := by
  induction l generalizing a with
  | nil => simp
  | cons x xs ih => simp [ih, Nat.testBit_or, Bool.or_assoc]

theorem foldl_and_testBit {α : Type} (f g : α → Nat) (l : List α) (a b : Nat) :
    (l.foldl (fun acc x => acc &&& f x &&& g x) a).testBit b
      = (a.testBit b && l.all (fun x => (f x).testBit b && (g x).testBit b)) := by
  induction l generalizing a with
  | nil => simp
  | cons x xs ih => simp [ih, Nat.testBit_and, Bool.and_assoc]

theorem one_shiftLeft_testBit_self (k : Nat) : (1 <<< k).testBit k = true := by
  rw [Nat.one_shiftLeft]; exact Nat.testBit_two_pow_self

theorem testBit_255 (k : Nat) (hk : k < 8) : (255 : Nat).testBit k = true := by
  have := Nat.testBit_two_pow_sub_one 8 k
  simpa [hk] using this

theorem nb_pos {t : T} (wf : WF t) : 0 < t.nb := by
  have := wf.nonempty
  have h2 : 0 < t.patterns.length := List.length_pos_iff.mpr this
  rw [wf.nb_eq]; omega

theorem nb_le {t : T} (wf : WF t) : t.nb ≤ 8 := by
  rw [wf.nb_eq]; omega

theorem loMask_bit (t : T) (pos : Nat) (p : Pat) (id : Nat) (hp : t.patterns[id]? = some p) :
    (loMask t pos (p.getD pos 0 % 16)).testBit (id % t.nb) = true := by
  show ((t.patterns.zipIdx.filter fun x => x.1.getD pos 0 % 16 = p.getD pos 0 % 16).foldl
      (fun acc x => acc ||| (1 <<< (x.2 % t.nb))) 0).testBit (id % t.nb) = true
  rw [foldl_or_testBit (fun x : Pat × Nat => 1 <<< (x.2 % t.nb))]
  simp only [Nat.zero_testBit, Bool.false_or, List.any_eq_true]
  refine ⟨(p, id), ?_, one_shiftLeft_testBit_self _⟩
  rw [List.mem_filter]
  exact ⟨List.mem_zipIdx_iff_getElem?.mpr hp, by simp⟩

theorem hiMask_bit (t : T) (pos : Nat) (p : Pat) (id : Nat) (hp : t.patterns[id]? = some p) :
    (hiMask t pos (p.getD pos 0 / 16 % 16)).testBit (id % t.nb) = true := by
  show ((t.patterns.zipIdx.filter fun x => x.1.getD pos 0 / 16 % 16 = p.getD pos 0 / 16 % 16).foldl
      (fun acc x => acc ||| (1 <<< (x.2 % t.nb))) 0).testBit (id % t.nb) = true
  rw [foldl_or_testBit (fun x : Pat × Nat => 1 <<< (x.2 % t.nb))]
  simp only [Nat.zero_testBit, Bool.false_or, List.any_eq_true]
  refine ⟨(p, id), ?_, one_shiftLeft_testBit_self _⟩
  rw [List.mem_filter]
  exact ⟨List.mem_zipIdx_iff_getElem?.mpr hp, by simp⟩

theorem occursAt_at {h : Bytes} {p : Pat} {i : Nat} (ho : occursAt h p i = true) :
    i + p.length ≤ h.size ∧ ∀ k, k < p.length → h.at (i + k) = p.getD k 0 := by
  unfold occursAt at ho
  simp only [Bool.and_eq_true, decide_eq_true_eq, List.all_eq_true, List.mem_range] at ho
  exact ho

/-- C16 mask soundness: if pattern number `id` occurs at offset `i`, its bucket bit is set in the candidate mask -/
theorem candMask_sound (t : T) (wf : WF t) (h : Bytes) (hb : ∀ k, h.at k < 256) (i id : Nat) (p : Pat)
    (hp : t.patterns[id]? = some p) (ho : occursAt h p i = true) :
    (candMask t h i).testBit (id % t.nb) = true := by
  have _ := hb  -- not needed: an occurrence forces the nibbles to agree
  have hlt : id % t.nb < 8 := Nat.lt_of_lt_of_le (Nat.mod_lt _ (nb_pos wf)) (nb_le wf)
  have hmem : p ∈ t.patterns := List.mem_of_getElem? hp
  have hfp := wf.fp_le p hmem
  obtain ⟨_, hat⟩ := occursAt_at ho
  unfold candMask
  rw [foldl_and_testBit (fun pos => loMask t pos (h.at (i + pos) % 16))
      (fun pos => hiMask t pos (h.at (i + pos) / 16 % 16))]
  rw [testBit_255 _ hlt, Bool.true_and, List.all_eq_true]
  intro pos hpos
  rw [List.mem_range] at hpos
  rw [hat pos (by omega), loMask_bit t pos p id hp, hiMask_bit t pos p id hp]
  rfl


/-! ### the specification side -/

/-- some pattern occurs at offset `i` -/
def occ (t : T) (h : Bytes) (i : Nat) : Bool := t.patterns.any fun p => occursAt h p i

theorem occ_of_get {t : T} {h : Bytes} {i id : Nat} {p : Pat} (hp : t.patterns[id]? = some p)
    (ho : occursAt h p i = true) : occ t h i = true := by
  unfold occ
  rw [List.any_eq_true]
  exact ⟨p, List.mem_of_getElem? hp, ho⟩

theorem occ_false_get {t : T} {h : Bytes} {i id : Nat} {p : Pat} (hocc : occ t h i = false)
    (hp : t.patterns[id]? = some p) : occursAt h p i = false := by
  cases ho : occursAt h p i with
  | false => rfl
  | true => rw [occ_of_get hp ho] at hocc; exact absurd hocc (by simp)

theorem occ_exists {t : T} {h : Bytes} {i : Nat} (ho : occ t h i = true) :
    ∃ (id : Nat) (p : Pat), t.patterns[id]? = some p ∧ occursAt h p i = true := by
  unfold occ at ho
  rw [List.any_eq_true] at ho
  obtain ⟨p, hm, hp⟩ := ho
  obtain ⟨id, hid⟩ := List.mem_iff_getElem?.mp hm
  exact ⟨id, p, hid, hp⟩

/-- least-index form of a search result -/
def Least (P : Nat → Bool) (i : Nat) : Option Nat → Prop
  | none => ∀ j, i ≤ j → P j = false
  | some s => i ≤ s ∧ P s = true ∧ ∀ j, i ≤ j → j < s → P j = false

theorem naive_none (pats : List Pat) (h : Bytes) : ∀ fuel i,
    (∀ j, i ≤ j → (pats.any fun p => occursAt h p j) = false) → naiveFind pats h fuel i = none
  | 0, _, _ => rfl
  | fuel+1, i, hno => by
    simp only [naiveFind]
    split
    · rfl
    · rw [hno i (Nat.le_refl _)]
      simp only [Bool.false_eq_true, ↓reduceIte]
      exact naive_none pats h fuel (i+1) (fun j hj => hno j (by omega))

theorem naive_some (pats : List Pat) (h : Bytes) (s : Nat) (hs : s ≤ h.size)
    (hocc : (pats.any fun p => occursAt h p s) = true) : ∀ fuel i, i ≤ s → h.size + 1 ≤ fuel + i →
    (∀ j, i ≤ j → j < s → (pats.any fun p => occursAt h p j) = false) → naiveFind pats h fuel i = some s
  | 0, i, his, hf, _ => by omega
  | fuel+1, i, his, hf, hno => by
    simp only [naiveFind]
    rw [if_neg (by omega)]
    by_cases hi : i = s
    · subst hi
      rw [if_pos hocc]
    · rw [hno i (Nat.le_refl _) (by omega)]
      simp only [Bool.false_eq_true, ↓reduceIte]
      exact naive_some pats h s hs hocc fuel (i+1) (by omega) (by omega) (fun j hj hjs => hno j (by omega) hjs)

theorem occ_le_size {t : T} {h : Bytes} {i : Nat} (ho : occ t h i = true) : i ≤ h.size := by
  obtain ⟨_, p, _, hp⟩ := occ_exists ho
  have := (occursAt_at hp).1
  omega

theorem naive_of_least (t : T) (h : Bytes) (fuel i : Nat) (r : Option Nat) (hf : h.size + 1 ≤ fuel + i)
    (hl : Least (occ t h) i r) : naiveFind t.patterns h fuel i = r := by
  cases r with
  | none => exact naive_none _ _ _ _ hl
  | some s =>
    obtain ⟨h1, h2, h3⟩ := hl
    exact naive_some _ _ s (occ_le_size h2) h2 fuel i h1 hf h3

/-- an occurrence of a pattern of a well-formed table lies strictly inside the haystack, with room for
    `fpLen` and `minLen` bytes -/
theorem occ_room {t : T} (wf : WF t) {h : Bytes} {i : Nat} (ho : occ t h i = true) :
    i + t.fpLen ≤ h.size ∧ i + t.minLen ≤ h.size ∧ i < h.size := by
  obtain ⟨_, p, hp, hop⟩ := occ_exists ho
  have hm := List.mem_of_getElem? hp
  have h1 := (occursAt_at hop).1
  have h2 := wf.fp_le p hm
  have h3 := wf.min_le p hm
  have h4 := wf.fp_pos
  omega

theorem occ_cand {t : T} (wf : WF t) {h : Bytes} (hb : ∀ k, h.at k < 256) {i : Nat} (ho : occ t h i = true) :
    candMask t h i ≠ 0 := by
  obtain ⟨id, p, hp, hop⟩ := occ_exists ho
  have := candMask_sound t wf h hb i id p hp hop
  intro h0
  rw [h0, Nat.zero_testBit] at this
  exact absurd this (by simp)

/-! ### candidate search -/

theorem findCand_some (t : T) (h : Bytes) : ∀ fuel i pos m, findCand t h fuel i = some (pos, m) →
    i ≤ pos ∧ pos + t.fpLen ≤ h.size ∧ m = candMask t h pos ∧ m ≠ 0 ∧ ∀ j, i ≤ j → j < pos → candMask t h j = 0
  | 0, _, _, _, hr => nomatch hr
  | fuel+1, i, pos, m, hr => by
    simp only [findCand] at hr
    split at hr
    · exact nomatch hr
    · split at hr
      · rename_i hm
        injection hr with hr
        injection hr with h1 h2
        subst h1; subst h2
        exact ⟨Nat.le_refl _, by omega, rfl, hm, fun j _ _ => by omega⟩
      · rename_i hm
        obtain ⟨a, b, c, d, e⟩ := findCand_some t h fuel (i+1) pos m hr
        refine ⟨by omega, b, c, d, fun j hj hjp => ?_⟩
        by_cases hji : j = i
        · subst hji; simpa using hm
        · exact e j (by omega) hjp

theorem findCand_none (t : T) (h : Bytes) : ∀ fuel i, findCand t h fuel i = none → h.size + 1 ≤ fuel + i →
    ∀ j, i ≤ j → j + t.fpLen ≤ h.size → candMask t h j = 0
  | 0, _, _, hf, j, hj, hjl => by omega
  | fuel+1, i, hr, hf, j, hj, hjl => by
    simp only [findCand] at hr
    split at hr
    · omega
    · split at hr
      · exact nomatch hr
      · rename_i hm
        by_cases hji : j = i
        · subst hji; simpa using hm
        · exact findCand_none t h fuel (i+1) hr (by omega) j (by omega) hjl

/-! ### verification -/

/-- `find?` over `zipIdx` with a predicate on (pattern, index): the hit is the least index satisfying it -/
theorem find?_zipIdx_some' {l : List Pat} {P : Pat × Nat → Bool} {p : Pat} {id : Nat}
    (hr : l.zipIdx.find? P = some (p, id)) :
    l[id]? = some p ∧ P (p, id) = true ∧ ∀ j q, j < id → l[j]? = some q → P (q, j) = false := by
  rw [List.find?_eq_some_iff_getElem] at hr
  obtain ⟨h1, k, hk, h2, h3⟩ := hr
  rw [List.getElem_zipIdx] at h2
  simp only [Nat.zero_add, Prod.mk.injEq] at h2
  obtain ⟨h2a, h2b⟩ := h2
  subst h2b
  rw [List.length_zipIdx] at hk
  refine ⟨?_, h1, ?_⟩
  · rw [List.getElem?_eq_getElem hk, h2a]
  · intro j q hj hq
    have := h3 j hj
    rw [List.getElem_zipIdx] at this
    have hjl : j < l.length := by omega
    rw [List.getElem?_eq_getElem hjl] at hq
    injection hq with hq
    rw [hq] at this
    simpa using this

/-- a verified bucket yields a pattern of that bucket occurring at `pos`, and no earlier pattern of the same
    bucket occurs there -/
theorem verifyBucket_some {t : T} {h : Bytes} {pos b id : Nat} (hr : verifyBucket t h pos b = some id) :
    ∃ p, t.patterns[id]? = some p ∧ occursAt h p pos = true ∧ id % t.nb = b ∧
      ∀ j q, j < id → t.patterns[j]? = some q → j % t.nb = b → occursAt h q pos = false := by
  unfold verifyBucket at hr
  rw [Option.map_eq_some_iff] at hr
  obtain ⟨⟨p, id'⟩, hf, hid⟩ := hr
  simp only at hid
  subst hid
  rw [List.find?_filter] at hf
  obtain ⟨h1, h2, h3⟩ := find?_zipIdx_some' hf
  simp only [decide_eq_true_eq] at h2
  refine ⟨p, h1, h2.2, h2.1, ?_⟩
  intro j q hj hq hjb
  have := h3 j q hj hq
  simpa [hjb] using this

theorem verifyBucket_none {t : T} {h : Bytes} {pos b : Nat} (hr : verifyBucket t h pos b = none)
    {id : Nat} {p : Pat} (hp : t.patterns[id]? = some p) (hb : id % t.nb = b) : occursAt h p pos = false := by
  unfold verifyBucket at hr
  rw [Option.map_eq_none_iff, List.find?_eq_none] at hr
  have := hr (p, id) (by
    rw [List.mem_filter]
    exact ⟨List.mem_zipIdx_iff_getElem?.mpr hp, by simpa using hb⟩)
  simpa using this

/-- one step of the "smallest id wins" fold of `verifyMask` -/
def minStep (best : Option Nat) (id : Nat) : Option Nat :=
  match best with
  | none => some id
  | some b => some (min b id)

theorem foldl_minStep_some : ∀ (l : List Nat) (a : Nat), ∃ m,
    l.foldl minStep (some a) = some m ∧ (m = a ∨ m ∈ l) ∧ m ≤ a ∧ ∀ x, x ∈ l → m ≤ x
  | [], a => ⟨a, rfl, Or.inl rfl, Nat.le_refl _, fun x hx => nomatch hx⟩
  | y :: ys, a => by
    obtain ⟨m, h1, h2, h3, h4⟩ := foldl_minStep_some ys (min a y)
    refine ⟨m, h1, ?_, by omega, ?_⟩
    · rcases h2 with h2 | h2
      · by_cases hay : a ≤ y
        · left; omega
        · right; rw [List.mem_cons]; left; omega
      · right; exact List.mem_cons_of_mem _ h2
    · intro x hx
      rw [List.mem_cons] at hx
      rcases hx with hx | hx
      · subst hx; omega
      · exact h4 x hx

/-- the fold with `min` returns `none` iff the list is empty, otherwise its least element -/
theorem foldl_minStep_none : ∀ (l : List Nat), l.foldl minStep none = none → l = []
  | [], _ => rfl
  | y :: ys, hr => by
    obtain ⟨m, h1, _⟩ := foldl_minStep_some ys y
    rw [List.foldl_cons] at hr
    have : minStep none y = some y := rfl
    rw [this, h1] at hr
    exact nomatch hr

theorem foldl_minStep_eq_some : ∀ (l : List Nat) (m : Nat), l.foldl minStep none = some m →
    m ∈ l ∧ ∀ x, x ∈ l → m ≤ x
  | [], _, hr => nomatch hr
  | y :: ys, m, hr => by
    obtain ⟨m', h1, h2, h3, h4⟩ := foldl_minStep_some ys y
    rw [List.foldl_cons] at hr
    have : minStep none y = some y := rfl
    rw [this, h1] at hr
    injection hr with hr
    subst hr
    refine ⟨?_, ?_⟩
    · rcases h2 with h2 | h2
      · subst h2; exact List.mem_cons_self
      · exact List.mem_cons_of_mem _ h2
    · intro x hx
      rw [List.mem_cons] at hx
      rcases hx with hx | hx
      · subst hx; exact h3
      · exact h4 x hx

theorem verifyMask_eq (t : T) (h : Bytes) (pos m : Nat) :
    verifyMask t h pos m
      = ((List.range 8).filterMap fun b => if m.testBit b then verifyBucket t h pos b else none).foldl
          minStep none := rfl

theorem mem_bucketResults {t : T} {h : Bytes} {pos m id : Nat} :
    id ∈ ((List.range 8).filterMap fun b => if m.testBit b then verifyBucket t h pos b else none) ↔
      ∃ b, b < 8 ∧ m.testBit b = true ∧ verifyBucket t h pos b = some id := by
  rw [List.mem_filterMap]
  constructor
  · rintro ⟨b, hb, hv⟩
    rw [List.mem_range] at hb
    cases hm : m.testBit b with
    | true => rw [hm] at hv; exact ⟨b, hb, hm, by simpa using hv⟩
    | false => rw [hm] at hv; simp at hv
  · rintro ⟨b, hb, hm, hv⟩
    exact ⟨b, List.mem_range.mpr hb, by simpa [hm] using hv⟩

/-- the result of `verifyMask` is the result of some verified bucket, and is ≤ the result of every verified bucket -/
theorem verifyMask_some {t : T} {h : Bytes} {pos m id : Nat} (hr : verifyMask t h pos m = some id) :
    ∃ b, b < 8 ∧ m.testBit b = true ∧ verifyBucket t h pos b = some id ∧
      ∀ c id', c < 8 → m.testBit c = true → verifyBucket t h pos c = some id' → id ≤ id' := by
  rw [verifyMask_eq] at hr
  obtain ⟨h1, h2⟩ := foldl_minStep_eq_some _ _ hr
  obtain ⟨b, hb, hm, hv⟩ := mem_bucketResults.mp h1
  exact ⟨b, hb, hm, hv, fun c id' hc hmc hvc => h2 id' (mem_bucketResults.mpr ⟨c, hc, hmc, hvc⟩)⟩

theorem verifyMask_none {t : T} {h : Bytes} {pos m : Nat} (hr : verifyMask t h pos m = none)
    {b : Nat} (hb : b < 8) (hm : m.testBit b = true) : verifyBucket t h pos b = none := by
  rw [verifyMask_eq] at hr
  have hnil := foldl_minStep_none _ hr
  cases hv : verifyBucket t h pos b with
  | none => rfl
  | some id =>
    have : id ∈ ((List.range 8).filterMap fun b => if m.testBit b then verifyBucket t h pos b else none) :=
      mem_bucketResults.mpr ⟨b, hb, hm, hv⟩
    rw [hnil] at this
    exact nomatch this

theorem verifyMask_none_occ {t : T} (wf : WF t) {h : Bytes} (hb : ∀ k, h.at k < 256) {pos : Nat}
    (hr : verifyMask t h pos (candMask t h pos) = none) : occ t h pos = false := by
  cases ho : occ t h pos with
  | false => rfl
  | true =>
    obtain ⟨id, p, hp, hop⟩ := occ_exists ho
    have hbit := candMask_sound t wf h hb pos id p hp hop
    have hlt : id % t.nb < 8 := Nat.lt_of_lt_of_le (Nat.mod_lt _ (nb_pos wf)) (nb_le wf)
    have := verifyBucket_none (verifyMask_none hr hlt hbit) hp rfl
    rw [this] at hop
    exact absurd hop (by simp)

/-! ### the resume loop -/

theorem findLoop_some (t : T) (h : Bytes) : ∀ fuel from_ s id, findLoop t h fuel from_ = some (s, id) →
    from_ ≤ s ∧ verifyMask t h s (candMask t h s) = some id
  | 0, _, _, _, hr => nomatch hr
  | fuel+1, from_, s, id, hr => by
    simp only [findLoop] at hr
    split at hr
    · exact nomatch hr
    · rename_i pos mask hc
      obtain ⟨a, b, c, d, e⟩ := findCand_some t h _ _ _ _ hc
      split at hr
      · rename_i id' hv
        injection hr with hr
        injection hr with h1 h2
        subst h1; subst h2; subst c
        exact ⟨a, hv⟩
      · split at hr
        · exact nomatch hr
        · obtain ⟨x, y⟩ := findLoop_some t h fuel (pos+1) s id hr
          exact ⟨by omega, y⟩

theorem findLoop_least (t : T) (wf : WF t) (h : Bytes) (hb : ∀ k, h.at k < 256) : ∀ fuel from_,
    h.size ≤ fuel + from_ → Least (occ t h) from_ ((findLoop t h fuel from_).map (·.1))
  | 0, from_, hf => by
    simp only [findLoop, Option.map_none, Least]
    intro j hj
    cases ho : occ t h j with
    | false => rfl
    | true => have := (occ_room wf ho).2.2; omega
  | fuel+1, from_, hf => by
    simp only [findLoop]
    split
    · rename_i hc
      simp only [Option.map_none, Least]
      intro j hj
      cases ho : occ t h j with
      | false => rfl
      | true =>
        have h0 := findCand_none t h _ _ hc (by omega) j hj (occ_room wf ho).1
        exact absurd h0 (occ_cand wf hb ho)
    · rename_i pos mask hc
      obtain ⟨a, b, c, d, e⟩ := findCand_some t h _ _ _ _ hc
      subst c
      have hbefore : ∀ j, from_ ≤ j → j < pos → occ t h j = false := by
        intro j hj hjp
        cases ho : occ t h j with
        | false => rfl
        | true => exact absurd (e j hj hjp) (occ_cand wf hb ho)
      split
      · rename_i id hv
        simp only [Option.map_some, Least]
        obtain ⟨bk, _, _, hvb, _⟩ := verifyMask_some hv
        obtain ⟨p, hp, hop, _⟩ := verifyBucket_some hvb
        exact ⟨a, occ_of_get hp hop, hbefore⟩
      · rename_i hv
        have hpos := verifyMask_none_occ wf hb hv
        split
        · simp only [Option.map_none, Least]
          intro j hj
          cases ho : occ t h j with
          | false => rfl
          | true =>
            have := (occ_room wf ho).2.2
            by_cases hjq : j = pos
            · subst hjq; rw [hpos] at ho; exact nomatch ho
            · have : j < pos := by omega
              rw [hbefore j hj this] at ho
              exact nomatch ho
        · have ih := findLoop_least t wf h hb fuel (pos+1) (by omega)
          cases hrec : findLoop t h fuel (pos+1) with
          | none =>
            rw [hrec] at ih
            simp only [Option.map_none, Least] at ih ⊢
            intro j hj
            by_cases hjp : j < pos
            · exact hbefore j hj hjp
            · by_cases hjq : j = pos
              · subst hjq; exact hpos
              · exact ih j (by omega)
          | some r =>
            rw [hrec] at ih
            simp only [Option.map_some, Least] at ih ⊢
            obtain ⟨i1, i2, i3⟩ := ih
            refine ⟨by omega, i2, fun j hj hjs => ?_⟩
            by_cases hjp : j < pos
            · exact hbefore j hj hjp
            · by_cases hjq : j = pos
              · subst hjq; exact hpos
              · exact i3 j (by omega) hjs

/-! ### the short-haystack path -/

theorem find?_zipIdx_some {l : List Pat} {P : Pat → Bool} {p : Pat} {id : Nat}
    (hr : (l.zipIdx.find? fun (p, _) => P p) = some (p, id)) :
    l[id]? = some p ∧ P p = true ∧ ∀ j q, j < id → l[j]? = some q → P q = false := by
  rw [List.find?_eq_some_iff_getElem] at hr
  obtain ⟨h1, k, hk, h2, h3⟩ := hr
  rw [List.getElem_zipIdx] at h2
  simp only [Nat.zero_add, Prod.mk.injEq] at h2
  obtain ⟨h2a, h2b⟩ := h2
  subst h2b
  rw [List.length_zipIdx] at hk
  refine ⟨?_, h1, ?_⟩
  · rw [List.getElem?_eq_getElem hk, h2a]
  · intro j q hj hq
    have := h3 j hj
    rw [List.getElem_zipIdx] at this
    have hjl : j < l.length := by omega
    rw [List.getElem?_eq_getElem hjl] at hq
    injection hq with hq
    rw [hq] at this
    simpa using this

theorem find?_zipIdx_none {l : List Pat} {P : Pat → Bool}
    (hr : (l.zipIdx.find? fun (p, _) => P p) = none) : l.any P = false := by
  rw [List.find?_eq_none] at hr
  cases ha : l.any P with
  | false => rfl
  | true =>
    rw [List.any_eq_true] at ha
    obtain ⟨p, hm, hp⟩ := ha
    obtain ⟨id, hid⟩ := List.mem_iff_getElem?.mp hm
    have := hr (p, id) (List.mem_zipIdx_iff_getElem?.mpr hid)
    exact absurd hp this

theorem findScalar_some (t : T) (h : Bytes) : ∀ fuel i s id, findScalar t h fuel i = some (s, id) →
    i ≤ s ∧ (∃ p, t.patterns[id]? = some p ∧ occursAt h p s = true) ∧
    (∀ j q, j < id → t.patterns[j]? = some q → occursAt h q s = false) ∧
    ∀ k, i ≤ k → k < s → occ t h k = false
  | 0, _, _, _, hr => nomatch hr
  | fuel+1, i, s, id, hr => by
    simp only [findScalar] at hr
    split at hr
    · exact nomatch hr
    · split at hr
      · rename_i p id' hf
        injection hr with hr
        injection hr with h1 h2
        subst h1; subst h2
        obtain ⟨a, b, c⟩ := find?_zipIdx_some (P := fun p => occursAt h p i) hf
        exact ⟨Nat.le_refl _, ⟨p, a, b⟩, c, fun k _ _ => by omega⟩
      · rename_i hf
        have hno := find?_zipIdx_none (P := fun p => occursAt h p i) hf
        obtain ⟨a, b, c, d⟩ := findScalar_some t h fuel (i+1) s id hr
        refine ⟨by omega, b, c, fun k hk hks => ?_⟩
        by_cases hki : k = i
        · subst hki; exact hno
        · exact d k (by omega) hks

theorem findScalar_none (t : T) (wf : WF t) (h : Bytes) : ∀ fuel i, findScalar t h fuel i = none →
    h.size + 1 ≤ fuel + i → ∀ k, i ≤ k → occ t h k = false
  | 0, i, _, hf, k, hk => by
    cases ho : occ t h k with
    | false => rfl
    | true => have := (occ_room wf ho).2.2; omega
  | fuel+1, i, hr, hf, k, hk => by
    simp only [findScalar] at hr
    split at hr
    · cases ho : occ t h k with
      | false => rfl
      | true => have := (occ_room wf ho).2.1; omega
    · split at hr
      · exact nomatch hr
      · rename_i hf'
        have hno := find?_zipIdx_none (P := fun p => occursAt h p i) hf'
        by_cases hki : k = i
        · subst hki; exact hno
        · exact findScalar_none t wf h fuel (i+1) hr (by omega) k (by omega)

theorem findScalar_least (t : T) (wf : WF t) (h : Bytes) (fuel i : Nat) (hf : h.size + 1 ≤ fuel + i) :
    Least (occ t h) i ((findScalar t h fuel i).map (·.1)) := by
  cases hr : findScalar t h fuel i with
  | none => exact findScalar_none t wf h fuel i hr hf
  | some r =>
    obtain ⟨s, id⟩ := r
    obtain ⟨a, ⟨p, hp, hop⟩, _, d⟩ := findScalar_some t h fuel i s id hr
    exact ⟨a, occ_of_get hp hop, d⟩

/-! ### the theorems -/

/-- C16: `Find` returns the least offset at or after `start` where one of the literals occurs, or none -/
theorem find_eq_naive (t : T) (wf : WF t) (h : Bytes) (hb : ∀ k, h.at k < 256) (start : Nat) :
    find t h start = if start ≥ h.size then none else naiveFind t.patterns h (h.size + 1) start := by
  unfold find findMatch
  by_cases hs : start ≥ h.size
  · rw [if_pos hs, if_pos hs]; rfl
  · rw [if_neg hs, if_neg hs]
    symm
    apply naive_of_least t h _ _ _ (by omega)
    by_cases h16 : h.size - start < 16
    · rw [if_pos h16]
      exact findScalar_least t wf h _ _ (by omega)
    · rw [if_neg h16]
      exact findLoop_least t wf h hb _ _ (by omega)

/-- C16/C07: a reported match really is an occurrence of the reported pattern, inside the haystack -/
theorem findMatch_sound (t : T) (h : Bytes) (start s id : Nat) (hr : findMatch t h start = some (s, id)) :
    ∃ p, t.patterns[id]? = some p ∧ occursAt h p s = true ∧ start ≤ s := by
  unfold findMatch at hr
  split at hr
  · exact nomatch hr
  · split at hr
    · obtain ⟨a, ⟨p, hp, hop⟩, _, _⟩ := findScalar_some t h _ _ _ _ hr
      exact ⟨p, hp, hop, a⟩
    · obtain ⟨a, hv⟩ := findLoop_some t h _ _ _ _ hr
      obtain ⟨_, _, _, hvb, _⟩ := verifyMask_some hv
      obtain ⟨p, hp, hop, _⟩ := verifyBucket_some hvb
      exact ⟨p, hp, hop, a⟩

/-- C16 ("complete ⇒ exact span"): the reported pattern is the FIRST pattern (alternation priority) occurring at
    that offset, for any number of patterns -/
theorem findMatch_priority (t : T) (wf : WF t) (h : Bytes) (hb : ∀ k, h.at k < 256) (start s id : Nat)
    (hr : findMatch t h start = some (s, id)) :
    ∀ j p, j < id → t.patterns[j]? = some p → occursAt h p s = false := by
  unfold findMatch at hr
  split at hr
  · exact nomatch hr
  · split at hr
    · exact (findScalar_some t h _ _ _ _ hr).2.2.1
    · obtain ⟨_, hv⟩ := findLoop_some t h _ _ _ _ hr
      obtain ⟨b, _, _, _, hmin⟩ := verifyMask_some hv
      intro j p hj hp
      cases hop : occursAt h p s with
      | false => rfl
      | true =>
        have hbit := candMask_sound t wf h hb s j p hp hop
        have hlt : j % t.nb < 8 := Nat.lt_of_lt_of_le (Nat.mod_lt _ (nb_pos wf)) (nb_le wf)
        cases hvj : verifyBucket t h s (j % t.nb) with
        | none =>
          have := verifyBucket_none hvj hp rfl
          rw [this] at hop
          exact nomatch hop
        | some id' =>
          have hle := hmin _ _ hlt hbit hvj
          obtain ⟨_, _, _, _, hfirst⟩ := verifyBucket_some hvj
          have := hfirst j p (by omega) hp rfl
          rw [this] at hop
          exact nomatch hop

end Cx.Teddy
