import Cx.Proofs.ReverseBuild
/-
  Cx.Proofs.ReverseSem — what a `Built` automaton accepts: its paths from the start state to the match state 0 are exactly
  the paths of the reversed effective edge relation `EffEdge` from a forward match state to a forward start state.
-/
namespace Cx.Rev
open Cx Cx.Nfa

/-- the label the reverse automaton puts on the edge `e` into `q` -/
def effLbl (sa su : Nat) (a : Bool) (q : Nat) (e : Edge) : Lbl :=
  if IsStart sa su a q then (if consumeOf sa su q then lbl e else none) else lbl e

/-- forward edge `p --l--> q` as the reverse automaton sees it: from a mapped state, with the effective label -/
def EffEdge (ei : Nat → List Edge) (rm : RMap) (sa su : Nat) (a : Bool) (p : Nat) (l : Lbl) (q : Nat) : Prop :=
  ∃ e ∈ ei q, e.from_ = p ∧ (rm.look p).isSome = true ∧ l = effLbl sa su a q e

theorem effOut_iff {ei : Nat → List Edge} {rm : RMap} {sa su : Nat} {a : Bool} {q : Nat} {l : Lbl} {y : Nat} :
    EffOut ei rm sa su a q l y ↔
      (∃ p, rm.look p = some y ∧ EffEdge ei rm sa su a p l q) ∨ (IsStart sa su a q ∧ ei q ≠ [] ∧ l = none ∧ y = 0) := by
  unfold EffOut EffEdge effLbl
  by_cases hst : IsStart sa su a q
  · simp only [if_pos hst, StartOut]
    constructor
    · rintro ⟨hne, ⟨e, he, h1, h2⟩ | ⟨rfl, rfl⟩⟩
      · exact Or.inl ⟨e.from_, h1, e, he, rfl, by simp [h1], h2.symm⟩
      · exact Or.inr ⟨hst, hne, rfl, rfl⟩
    · rintro (⟨p, hp, e, he, rfl, _, h2⟩ | ⟨_, hne, rfl, rfl⟩)
      · exact ⟨fun h => (by rw [h] at he; cases he), Or.inl ⟨e, he, hp, h2.symm⟩⟩
      · exact ⟨hne, Or.inr ⟨rfl, rfl⟩⟩
  · simp only [if_neg hst, EdgeOut]
    constructor
    · rintro ⟨e, he, h1, h2⟩
      exact Or.inl ⟨e.from_, h1, e, he, rfl, by simp [h1], h2.symm⟩
    · rintro (⟨p, hp, e, he, rfl, _, h2⟩ | ⟨h, _⟩)
      · exact ⟨e, he, hp, h2.symm⟩
      · exact absurd h hst

theorem stepA_mtch {N : NFA} {h : Bytes} {x i : Nat} {b : Nat × Nat} (hm : N.get x = .mtch) : ¬ StepA N h (x, i) b := by
  intro s
  cases s <;> simp_all

theorem star_from_mtch {N : NFA} {h : Bytes} {x i : Nat} {b : Nat × Nat} (hm : N.get x = .mtch) (s : StepsA N h (x, i) b) :
    b = (x, i) := by
  cases s with
  | refl _ => rfl
  | cons s _ => exact absurd s (stepA_mtch hm)

/-- an `Out` transition is a path of the automaton -/
theorem out_steps {R : NFA} {h : Bytes} {glo ghi x : Nat} {l : Lbl} {y : Nat}
    (hnl : ∀ z, glo ≤ z → z < ghi → noLookS (R.get z) = true) (hx : noLookS (R.get x) = true)
    (ho : Out R.get glo ghi x l y) {i j : Nat} (hl : lab l h i j) : StepsA R h (x, i) (y, j) := by
  induction ho with
  | direct hm _ => exact .single (trans_stepA hx hm hl)
  | through hm h1 h2 _ ih => exact .cons (trans_stepA hx hm rfl) (ih (hnl _ h1 h2) hl)

theorem via_steps {R : NFA} {h : Bytes} {glo ghi c : Nat} {l : Lbl} {y : Nat}
    (hnl : ∀ z, glo ≤ z → z < ghi → noLookS (R.get z) = true)
    (hv : Via R.get glo ghi c l y) {i j : Nat} (hl : lab l h i j) : StepsA R h (c, i) (y, j) := by
  unfold Via at hv
  split at hv
  · rename_i hc
    exact out_steps hnl (hnl c hc.1 hc.2) hv hl
  · obtain ⟨rfl, rfl⟩ := hv
    cases hl
    exact .refl _

section
variable {ei : Nat → List Edge} {rm : RMap} {sa su : Nat} {a : Bool} {ms : List Nat} {R : NFA}

/-- the properties of a gadget, as `Built.gadget` delivers them -/
def GProps (ei : Nat → List Edge) (rm : RMap) (sa su : Nat) (a : Bool) (R : NFA) (q r glo ghi : Nat) : Prop :=
  0 < glo ∧ (∀ p t, rm.look p = some t → t < glo) ∧
  (∀ z, (z = r ∧ r ≠ 0) ∨ (glo ≤ z ∧ z < ghi) → simpleS (R.get z) = true) ∧
  (∀ l y, Out R.get glo ghi r l y ↔ EffOut ei rm sa su a q l y)

theorem sound_main (B : Built ei rm sa su a ms R) (h : Bytes) {c d : Nat × Nat} (s : StepsA R h c d) :
    R.get d.1 = .mtch → ∀ q r glo ghi, rm.look q = some r → GProps ei rm sa su a R q r glo ghi →
      (c.1 = r ∨ (glo ≤ c.1 ∧ c.1 < ghi)) → (∀ l y, Out R.get glo ghi c.1 l y → Out R.get glo ghi r l y) →
      ∃ s0, IsStart sa su a s0 ∧ (rm.look s0).isSome = true ∧
        ESteps (RevEdges (EffEdge ei rm sa su a)) h (q, c.2) (s0, d.2) := by
  induction s with
  | refl c =>
    intro hm q r glo ghi hq gp hx _
    obtain ⟨g0, g1, g2, g3⟩ := gp
    have hr : c.1 = r ∧ r = 0 := by
      by_cases hc : (c.1 = r ∧ r ≠ 0) ∨ (glo ≤ c.1 ∧ c.1 < ghi)
      · exact absurd hm (simpleS_ne_mtch (g2 _ hc))
      · rcases hx with hx | hx
        · refine ⟨hx, ?_⟩
          by_cases h0 : r = 0
          · exact h0
          · exact absurd (Or.inl ⟨hx, h0⟩) hc
        · exact absurd (Or.inr hx) hc
    obtain ⟨_, rfl⟩ := hr
    exact ⟨q, B.zero_start q hq, by simp [hq], .refl _⟩
  | @cons c c' d st tail ih =>
    intro hm q r glo ghi hq gp hx hsub
    obtain ⟨g0, g1, g2, g3⟩ := gp
    obtain ⟨x, i⟩ := c
    obtain ⟨x', i'⟩ := c'
    simp only at hx hsub ⊢
    have hxs : (x = r ∧ r ≠ 0) ∨ (glo ≤ x ∧ x < ghi) := by
      rcases hx with hx | hx
      · by_cases h0 : r = 0
        · subst hx; subst h0
          exact absurd st (stepA_mtch B.get0)
        · exact Or.inl ⟨hx, h0⟩
      · exact Or.inr hx
    obtain ⟨l, hm', hl⟩ := stepA_trans (simpleS_noRune (g2 x hxs)) st
    by_cases hax : l = none ∧ glo ≤ x' ∧ x' < ghi
    · -- still inside the gadget
      obtain ⟨rfl, h1, h2⟩ := hax
      cases hl
      exact ih hm q r glo ghi hq ⟨g0, g1, g2, g3⟩ (Or.inr ⟨h1, h2⟩)
        (fun l y ho => hsub l y (.through hm' h1 h2 ho))
    · have ho : Out R.get glo ghi r l x' := hsub l x' (.direct hm' hax)
      rcases effOut_iff.mp ((g3 l x').mp ho) with ⟨p, hp, he⟩ | ⟨hst, _, rfl, rfl⟩
      · obtain ⟨glo', ghi', gp'⟩ := B.gadget p x' hp
        obtain ⟨s0, h1, h2, h3⟩ := ih hm p x' glo' ghi' hp gp' (Or.inl rfl) (fun _ _ ho => ho)
        exact ⟨s0, h1, h2, .cons (show EStep (RevEdges (EffEdge ei rm sa su a)) h (q, i) (p, i') from ⟨l, he, hl⟩) h3⟩
      · cases hl
        have := star_from_mtch B.get0 tail
        subst this
        exact ⟨q, hst, by simp [hq], .refl _⟩

theorem sound_start (B : Built ei rm sa su a ms R) (h : Bytes) {glo ghi : Nat}
    (g2 : ∀ z, glo ≤ z → z < ghi → simpleS (R.get z) = true) {c d : Nat × Nat} (s : StepsA R h c d) :
    R.get d.1 = .mtch → glo ≤ c.1 → c.1 < ghi →
      (∀ l y, Out R.get glo ghi c.1 l y → l = none ∧ ∃ m ∈ ms, rm.look m = some y) →
      ∃ m ∈ ms, ∃ s0, IsStart sa su a s0 ∧ (rm.look s0).isSome = true ∧
        ESteps (RevEdges (EffEdge ei rm sa su a)) h (m, c.2) (s0, d.2) := by
  induction s with
  | refl c =>
    intro hm h1 h2 _
    exact absurd hm (simpleS_ne_mtch (g2 _ h1 h2))
  | @cons c c' d st tail ih =>
    intro hm h1 h2 hsub
    obtain ⟨x, i⟩ := c
    obtain ⟨x', i'⟩ := c'
    simp only at h1 h2 hsub ⊢
    obtain ⟨l, hm', hl⟩ := stepA_trans (simpleS_noRune (g2 x h1 h2)) st
    by_cases hax : l = none ∧ glo ≤ x' ∧ x' < ghi
    · obtain ⟨rfl, h3, h4⟩ := hax
      cases hl
      exact ih hm h3 h4 (fun l y ho => hsub l y (.through hm' h3 h4 ho))
    · obtain ⟨rfl, m, hmem, hy⟩ := hsub l x' (.direct hm' hax)
      cases hl
      obtain ⟨glo', ghi', gp'⟩ := B.gadget m x' hy
      obtain ⟨s0, k1, k2, k3⟩ := sound_main B h tail hm m x' glo' ghi' hy gp' (Or.inl rfl) (fun _ _ ho => ho)
      exact ⟨m, hmem, s0, k1, k2, k3⟩

theorem complete_main (B : Built ei rm sa su a ms R) (h : Bytes) {c d : Nat × Nat}
    (s : ESteps (RevEdges (EffEdge ei rm sa su a)) h c d) :
    ∀ rq, rm.look c.1 = some rq → ∃ rp, rm.look d.1 = some rp ∧ StepsA R h (rq, c.2) (rp, d.2) := by
  induction s with
  | refl c => intro rq hq; exact ⟨rq, hq, .refl _⟩
  | @cons c c' d st _ ih =>
    intro rq hq
    obtain ⟨l, he, hl⟩ := st
    have he' : EffEdge ei rm sa su a c'.1 l c.1 := he
    obtain ⟨rp', hp'⟩ := Option.isSome_iff_exists.mp (by obtain ⟨e, _, h1, h2, _⟩ := he'; exact h2)
    obtain ⟨glo, ghi, g0, g1, g2, g3⟩ := B.gadget c.1 rq hq
    have ho : Out R.get glo ghi rq l rp' := (g3 l rp').mpr (effOut_iff.mpr (Or.inl ⟨c'.1, hp', he'⟩))
    have hnl : ∀ z, glo ≤ z → z < ghi → noLookS (R.get z) = true := fun z h1 h2 => simpleS_noLook (g2 z (Or.inr ⟨h1, h2⟩))
    have hx : noLookS (R.get rq) = true := by
      by_cases h0 : rq = 0
      · rw [h0, B.get0]; rfl
      · exact simpleS_noLook (g2 rq (Or.inl ⟨rfl, h0⟩))
    obtain ⟨rp, k1, k2⟩ := ih rp' hp'
    exact ⟨rp, k1, (out_steps hnl hx ho hl).trans k2⟩

/-- **what the built automaton accepts** -/
theorem built_accepts (B : Built ei rm sa su a ms R) (hms : ∀ m ∈ ms, (rm.look m).isSome = true) (h : Bytes) (i j : Nat) :
    AcceptsA R h i j ↔ ∃ m ∈ ms, ∃ s0, IsStart sa su a s0 ∧ (rm.look s0).isSome = true ∧
      ESteps (RevEdges (EffEdge ei rm sa su a)) h (m, i) (s0, j) := by
  obtain ⟨glo, ghi, s0', s1, s2, s3⟩ := B.start
  constructor
  · rintro ⟨mm, hs, hmm, _⟩
    by_cases hc : glo ≤ R.startAnchored ∧ R.startAnchored < ghi
    · exact sound_start B h s2 hs hmm hc.1 hc.2 (fun l y ho => (s3 l y).mp ((via_aux hc.1 hc.2 l y).mpr ho))
    · have hv : Via R.get glo ghi R.startAnchored none R.startAnchored := by
        unfold Via; rw [if_neg hc]; exact ⟨rfl, rfl⟩
      obtain ⟨_, m, hmem, hy⟩ := (s3 _ _).mp hv
      obtain ⟨glo', ghi', gp'⟩ := B.gadget m _ hy
      obtain ⟨s0, k1, k2, k3⟩ := sound_main B h hs hmm m _ glo' ghi' hy gp' (Or.inl rfl) (fun _ _ ho => ho)
      exact ⟨m, hmem, s0, k1, k2, k3⟩
  · rintro ⟨m, hmem, s0, hst, hs0, hp⟩
    obtain ⟨rm_, hrm⟩ := Option.isSome_iff_exists.mp (hms m hmem)
    have hv : Via R.get glo ghi R.startAnchored none rm_ := (s3 none rm_).mpr ⟨rfl, m, hmem, hrm⟩
    have p1 : StepsA R h (R.startAnchored, i) (rm_, i) :=
      via_steps (fun z h1 h2 => simpleS_noLook (s2 z h1 h2)) hv rfl
    obtain ⟨r0, k1, k2⟩ := complete_main B h hp rm_ hrm
    simp only at k1 k2
    by_cases h0 : r0 = 0
    · subst h0
      exact ⟨0, p1.trans k2, B.get0, B.size_pos⟩
    · obtain ⟨glo', ghi', g0, g1, g2, g3⟩ := B.gadget s0 r0 k1
      have hne : ei s0 ≠ [] := fun hh => h0 (B.start_zero s0 r0 k1 hst hh)
      have ho : Out R.get glo' ghi' r0 none 0 := (g3 none 0).mpr (effOut_iff.mpr (Or.inr ⟨hst, hne, rfl, rfl⟩))
      have p3 : StepsA R h (r0, j) (0, j) :=
        out_steps (fun z h1 h2 => simpleS_noLook (g2 z (Or.inr ⟨h1, h2⟩))) (simpleS_noLook (g2 r0 (Or.inl ⟨rfl, h0⟩))) ho rfl
      exact ⟨0, (p1.trans k2).trans p3, B.get0, B.size_pos⟩

end

end Cx.Rev
