import Cx.Model.MetaFindAll
import Cx.Proofs.Loops
import Cx.Proofs.MetaFind
/-
  Cx.Proofs.MetaFindAll — the enumeration loops of `meta/findall.go` (model `Cx.Model.MetaFindAll`) REFINE the abstract loops of
  `Cx.Model.Loops` run over the reference search, relative to the contracts of the single searches they call.

  Hypotheses (for one haystack of length `len`, `ref : Nat → Option Span` the reference single search):
    FindOK ref id len   (`Cx.Proofs.Loops`) a reference match found from `pos` lies in `[pos, len]`, and searching again from
                        anywhere up to its start finds it again;
    LoopOK O P ref len  `findAt a = ref a` for `a ≤ len` (what `MetaFind.findIndicesAtWithState_eq_ref` & co. give);
                        `findIndices = ref 0` when the always-anchored shortcut is taken;
                        `DirectOK` WHEN `useDFADirect P` holds — in particular nothing is asked of the DFA pair in leftmost-longest mode;
    DirectOK O ref len  `fwd`: `fwdSearchAt a` = END of `ref a`; `rev`: for `ref a = (s, e)`, `e ≠ a`: `revSearch a e = s`.
                        From the contracts of `Cx.Proofs.MetaFind`: `DirectOK.of_bi : RefOK → BiOK → DirectOK`, where `BiOK.rev_total`
                        (the reverse search never gives up) is what makes `rev` an equation.
  Theorems:
    idxLoop_eq_loopA / countLoop_eq_loopB / subLoop_eq_loopB      the accumulator loops are `Loops.loopA / loopB` over `searchStep`
    searchStep_eq_ref                                             one iteration's search is the reference search
    findAllIndicesLoop_refines   findAllIndicesLoop … n = Loops.findAllA P.alwaysAnchored ref id next len (lim n)
    count_refines                n ≠ 0 → count … n = (Loops.findAllB ref id next len (lim n)).length        (count_zero: n = 0 → 0)
    findSubmatchAtWithState_span / findAllSubmatch_refines        spans of FindAllSubmatch = Loops.findAllB over ref
    findAllIndicesStreaming_eq_std, count_eq_std, findAllSubmatch_eq_std, streaming_limit_prefix, count_eq_length
                                 composed with `Cx.Proofs.Loops`: = `Std.stdFindAll ref id w len n` (regexp's allMatches)
    useDFADirect_both            the `|| e.strategy == UseBoth` of the guard is dead: a UseBoth state has no `revDFACache`
    meta_loopOK, metaFindAll_eq_std, metaCount_eq_std             the instance over `Cx.Model.MetaFind` (four core strategies)
  Counter-models (`by decide`): cex_direct_longest (guard removed: Count 3 instead of 2 for `[ab]|[ab][ab]` on "aaa"),
    cex_rev_gives_up (`rev_total` dropped: the loop breaks), cex_rev_lower_bound (reverse search below `pos`: overlapping matches),
    cex_anchored_flag (shortcut on a pattern that is not anchored), cex_streaming_zero (n = 0 is "no limit" for
    FindAllIndicesStreaming but "nothing" for Count / FindAllSubmatch); non-vacuity: cexA_loopOK (direct branch ON).
-/
namespace Cx.MetaFindAll
open Cx Cx.Loops Cx.Std
open Cx.MetaFind (Span)

variable {α : Type}

/-- Go's `n int` ("`n <= 0`: all") as the limit of `Cx.Model.Loops` (= `Cx.C04.limOf`) -/
def lim (n : Int) : Option Nat := if n ≤ 0 then none else some n.toNat

theorem limitHit_lim (n : Int) (k : Nat) : limitHit (lim n) k = true ↔ ¬ (n ≤ 0 ∨ (k : Int) < n) := by
  unfold lim
  by_cases h : n ≤ 0
  · rw [if_pos h]; simp [limitHit, h]
  · rw [if_neg h]; simp only [limitHit, decide_eq_true_eq]; omega

theorem limitHit_lim_succ (n : Int) (k : Nat) : limitHit (lim n) (k + 1) = true ↔ (n > 0 ∧ ((k + 1 : Nat) : Int) ≥ n) := by
  rw [limitHit_lim]; omega

/-! ### `nextPos` -/

/-- `utf8.DecodeRune`'s width is at least 1 inside the input and 0 at the end -/
theorem widthAt_ok (h : Bytes) : WidthOK (Utf8.widthAt h) h.size := by
  constructor
  · intro p hp
    unfold Utf8.widthAt Utf8.decodeAt Utf8.decodeAtEnd
    rw [if_neg (by omega)]
    simp only []
    repeat' split
    all_goals simp
  · intro p hp
    unfold Utf8.widthAt Utf8.decodeAt Utf8.decodeAtEnd
    rw [if_pos hp]

theorem widthAt_ascii (h : Bytes) {pos : Nat} (h1 : pos < h.size) (h2 : h.at pos < 128) : Utf8.widthAt h pos = 1 := by
  unfold Utf8.widthAt Utf8.decodeAt Utf8.decodeAtEnd
  rw [if_neg (by omega)]
  simp [h2]

/-- Go's `nextPos` is the step of `Cx.Model.Loops` for `utf8.DecodeRune`'s width -/
theorem nextPos_eq_nextOf (h : Bytes) : nextPos h = nextOf (Utf8.widthAt h) := by
  funext pos
  unfold nextPos nextOf
  by_cases h1 : pos ≥ h.size
  · rw [if_pos (Or.inl h1), (widthAt_ok h).zero_ge pos h1, if_pos rfl]
  · have hw := (widthAt_ok h).pos_lt pos (by omega)
    rw [if_neg (show ¬ Utf8.widthAt h pos = 0 by omega)]
    by_cases h2 : h.at pos < 128
    · rw [if_pos (Or.inr h2), widthAt_ascii h (by omega) h2]
    · rw [if_neg (show ¬ (pos ≥ h.size ∨ h.at pos < 128) by omega)]; rfl

/-! ### the accumulator loops are the loops of `Cx.Model.Loops` over `searchStep` -/

theorem idxLoop_eq_loopA (O : Oracles) (d : Bool) (next : Nat → Nat) (len : Nat) (n : Int) :
    ∀ (fuel pos : Nat) (last : Option Nat) (results : List Span),
      idxLoop O d next len n fuel pos last results
        = results ++ loopA (searchStep O d) id next len fuel pos last results.length (lim n) := by
  intro fuel
  induction fuel with
  | zero => intro pos last results; simp [idxLoop, loopA]
  | succ fuel ih =>
    intro pos last results
    by_cases hl : limitHit (lim n) results.length = true
    · rw [loopA_lim _ _ _ _ _ _ _ _ _ hl, idxLoop, if_pos ((limitHit_lim n _).mp hl)]; simp
    · have hl' : ¬ ¬ (n ≤ 0 ∨ (results.length : Int) < n) := fun h => hl ((limitHit_lim n _).mpr h)
      rw [idxLoop, if_neg hl']
      cases hf : searchStep O d pos with
      | none => rw [loopA_none _ _ _ _ _ _ _ _ hf]; simp
      | some m =>
        simp only []
        by_cases hr : m.1 = m.2 ∧ some m.1 = last
        · rw [if_pos hr, loopA_rej (sp := id) hl hf hr]
          by_cases hlt : next pos > len
          · rw [if_pos hlt, if_pos hlt]; simp
          · rw [if_neg hlt, if_neg hlt]; exact ih _ _ _
        · rw [if_neg hr, loopA_acc (sp := id) hl hf hr]
          simp only [id, advance]
          by_cases hlt : (if m.1 = m.2 then next m.2 else if m.2 > pos then m.2 else pos + 1) > len
          · rw [if_pos hlt, if_pos hlt]
          · rw [if_neg hlt, if_neg hlt, ih]
            simp

theorem countLoop_eq_loopB (O : Oracles) (d : Bool) (next : Nat → Nat) (len : Nat) (n : Int) :
    ∀ (fuel pos : Nat) (last : Option Nat) (cnt : Nat),
      countLoop O d next len n fuel pos last cnt
        = cnt + (loopB (searchStep O d) id next len fuel pos last cnt (lim n)).length := by
  intro fuel
  induction fuel with
  | zero => intro pos last cnt; simp [countLoop, loopB]
  | succ fuel ih =>
    intro pos last cnt
    rw [countLoop, loopB]
    by_cases hp : pos > len
    · rw [if_pos hp, if_pos hp]; simp
    · rw [if_neg hp, if_neg hp]
      cases hf : searchStep O d pos with
      | none => simp
      | some m =>
        simp only [id]
        by_cases hr : m.1 = m.2 ∧ some m.1 = last
        · rw [if_pos hr, if_pos hr]
          by_cases hlt : next pos > len
          · rw [if_pos hlt, if_pos hlt]; simp
          · rw [if_neg hlt, if_neg hlt]; exact ih _ _ _
        · rw [if_neg hr, if_neg hr]
          by_cases hl : limitHit (lim n) (cnt + 1) = true
          · rw [if_pos hl, if_pos ((limitHit_lim_succ n cnt).mp hl)]; simp
          · rw [if_neg hl, if_neg (fun h => hl ((limitHit_lim_succ n cnt).mpr h)), ih]
            simp only [advance, List.length_cons]
            omega

theorem subLoop_eq_loopB (find : Nat → Option α) (sp : α → Span) (next : Nat → Nat) (len : Nat) (n : Int) :
    ∀ (fuel pos : Nat) (last : Option Nat) (ms : List α),
      subLoop find sp next len n fuel pos last ms
        = ms ++ loopB find sp next len fuel pos last ms.length (lim n) := by
  intro fuel
  induction fuel with
  | zero => intro pos last ms; simp [subLoop, loopB]
  | succ fuel ih =>
    intro pos last ms
    rw [subLoop, loopB]
    by_cases hp : pos > len
    · rw [if_pos hp, if_pos hp]; simp
    · rw [if_neg hp, if_neg hp]
      cases hf : find pos with
      | none => simp
      | some m =>
        simp only []
        by_cases hr : (sp m).1 = (sp m).2 ∧ some (sp m).1 = last
        · rw [if_pos hr, if_pos hr]
          by_cases hlt : next pos > len
          · rw [if_pos hlt, if_pos hlt]; simp
          · rw [if_neg hlt, if_neg hlt]; exact ih _ _ _
        · rw [if_neg hr, if_neg hr]
          have hlen : (ms ++ [m]).length = ms.length + 1 := by simp
          by_cases hl : limitHit (lim n) (ms.length + 1) = true
          · rw [if_pos hl, hlen, if_pos ((limitHit_lim_succ n _).mp hl)]
          · rw [if_neg hl, hlen, if_neg (fun h => hl ((limitHit_lim_succ n _).mpr h)), ih, hlen]
            simp [advance]

/-! ### congruence and naturality of the abstract loops -/

/-- `loopA` started inside the input reads `find` inside the input only -/
theorem loopA_congr {f g : Nat → Option α} (sp : α → Span) (next : Nat → Nat) (len : Nat) (n : Option Nat)
    (hfg : ∀ p, p ≤ len → f p = g p) :
    ∀ (fuel pos : Nat) (last : Option Nat) (cnt : Nat), pos ≤ len →
      loopA f sp next len fuel pos last cnt n = loopA g sp next len fuel pos last cnt n := by
  intro fuel
  induction fuel with
  | zero => intro pos last cnt _; rfl
  | succ fuel ih =>
    intro pos last cnt hp
    rw [loopA, loopA, hfg pos hp]
    split
    · rfl
    · cases g pos with
      | none => rfl
      | some m =>
        simp only []
        split
        · split
          · rfl
          · exact ih _ _ _ (by omega)
        · split
          · rfl
          · congr 1; exact ih _ _ _ (by omega)

/-- `loopB` tests `pos ≤ len` itself -/
theorem loopB_congr {f g : Nat → Option α} (sp : α → Span) (next : Nat → Nat) (len : Nat) (n : Option Nat)
    (hfg : ∀ p, p ≤ len → f p = g p) :
    ∀ (fuel pos : Nat) (last : Option Nat) (cnt : Nat),
      loopB f sp next len fuel pos last cnt n = loopB g sp next len fuel pos last cnt n := by
  intro fuel
  induction fuel with
  | zero => intro pos last cnt; rfl
  | succ fuel ih =>
    intro pos last cnt
    rw [loopB, loopB]
    by_cases hp : pos > len
    · rw [if_pos hp, if_pos hp]
    · rw [if_neg hp, if_neg hp, hfg pos (by omega)]
      cases g pos with
      | none => rfl
      | some m =>
        simp only []
        split
        · split
          · rfl
          · exact ih _ _ _
        · split
          · rfl
          · congr 1; exact ih _ _ _

/-- the spans of `loopB` over matches with captures are `loopB` over the spans -/
theorem loopB_map (find : Nat → Option α) (sp : α → Span) (next : Nat → Nat) (len : Nat) (n : Option Nat) :
    ∀ (fuel pos : Nat) (last : Option Nat) (cnt : Nat),
      (loopB find sp next len fuel pos last cnt n).map sp
        = loopB (fun p => (find p).map sp) id next len fuel pos last cnt n := by
  intro fuel
  induction fuel with
  | zero => intro pos last cnt; rfl
  | succ fuel ih =>
    intro pos last cnt
    rw [loopB, loopB]
    by_cases hp : pos > len
    · rw [if_pos hp, if_pos hp]; rfl
    · rw [if_neg hp, if_neg hp]
      cases find pos with
      | none => rfl
      | some m =>
        simp only [Option.map_some, id]
        split
        · split
          · rfl
          · exact ih _ _ _
        · split
          · rfl
          · rw [List.map_cons]; congr 1; exact ih _ _ _

/-! ### contracts -/

/-- the DFA pair called by the `useDFADirect` branch, relative to the reference: the forward DFA reports the END of the
    reference match from `a`, and the reverse DFA, asked for a start in `[a, e)` of a match ending at that end, its START -/
structure DirectOK (O : Oracles) (ref : Nat → Option Span) (len : Nat) : Prop where
  fwd : ∀ a, a ≤ len → O.fwdSearchAt a = (ref a).map (·.2)
  rev : ∀ a s e, a ≤ len → ref a = some (s, e) → e ≠ a → O.revSearch a e = some s

/-- what the loops need of the searches they call -/
structure LoopOK (O : Oracles) (P : Params) (ref : Nat → Option Span) (len : Nat) : Prop where
  findAt : ∀ a, a ≤ len → O.findAt a = ref a
  findIndices : P.alwaysAnchored = true → O.findIndices = ref 0
  direct : useDFADirect P = true → DirectOK O ref len

/-- **one iteration's search is the reference search**, whichever branch runs -/
theorem searchStep_eq_ref {O : Oracles} {ref : Nat → Option Span} {len : Nat} (ok : FindOK ref id len)
    (hat : ∀ a, a ≤ len → O.findAt a = ref a) (d : Bool) (hd : d = true → DirectOK O ref len) {a : Nat} (ha : a ≤ len) :
    searchStep O d a = ref a := by
  unfold searchStep
  cases d with
  | false => simp only [Bool.false_eq_true, if_false]; exact hat a ha
  | true =>
    have D := hd rfl
    rw [if_pos rfl, D.fwd a ha]
    cases hr : ref a with
    | none => rfl
    | some se =>
      obtain ⟨s, e⟩ := se
      have hb := ok.bounds hr
      simp only [id] at hb
      simp only [Option.map_some]
      by_cases he : e = a
      · rw [if_pos he]
        have : s = a := by omega
        rw [this, he]
      · rw [if_neg he, D.rev a s e ha hr he]

/-- the guard's `|| e.strategy == UseBoth` is dead: `newSearchState` gives a UseBoth state no `revDFACache` -/
theorem useDFADirect_both (P : Params) (h : P.strategy = .both) : useDFADirect P = false := by
  simp [useDFADirect, hasRevDFACache, h]

/-- the direct branch runs exactly for a UseDFA engine in leftmost-first mode that has both DFAs -/
theorem useDFADirect_iff (P : Params) :
    useDFADirect P = true ↔ P.longest = false ∧ P.strategy = .dfa ∧ P.hasDFA = true ∧ P.hasReverseDFA = true := by
  obtain ⟨st, lg, d, r, _, _, _, _, _⟩ := P
  cases st <;> cases lg <;> cases d <;> cases r <;> simp [useDFADirect, hasDfaCache, hasRevDFACache]

theorem useDFADirect_longest (P : Params) (h : P.longest = true) : useDFADirect P = false := by
  simp [useDFADirect, h]

/-! ### refinement -/

/-- **`findAllIndicesLoop` refines `Loops.findAllA` over the reference search** -/
theorem findAllIndicesLoop_refines {O : Oracles} {P : Params} {ref : Nat → Option Span} {len : Nat}
    (ok : FindOK ref id len) (L : LoopOK O P ref len) (next : Nat → Nat) (n : Int) :
    findAllIndicesLoop O P next len n = findAllA P.alwaysAnchored ref id next len (lim n) := by
  unfold findAllIndicesLoop findAllA
  by_cases ha : P.alwaysAnchored = true
  · rw [if_pos ha, if_pos ha, L.findIndices ha]
    cases ref 0 <;> rfl
  · rw [if_neg ha, if_neg ha, idxLoop_eq_loopA]
    simp only [List.nil_append, List.length_nil]
    exact loopA_congr id next len (lim n) (fun p hp => searchStep_eq_ref ok L.findAt _ L.direct hp) _ _ _ _ (Nat.zero_le _)

/-- **`Count` refines the length of `Loops.findAllB` over the reference search** -/
theorem count_refines {O : Oracles} {P : Params} {ref : Nat → Option Span} {len : Nat}
    (ok : FindOK ref id len) (L : LoopOK O P ref len) (next : Nat → Nat) (n : Int) (hn : n ≠ 0) :
    count O P next len n = (findAllB ref id next len (lim n)).length := by
  unfold count countWith findAllB
  rw [if_neg hn, countLoop_eq_loopB, Nat.zero_add]
  congr 1
  exact loopB_congr id next len (lim n) (fun p hp => searchStep_eq_ref ok L.findAt _ L.direct hp) _ _ _ _

theorem count_zero (O : Oracles) (P : Params) (next : Nat → Nat) (len : Nat) : count O P next len 0 = 0 := by
  simp [count, countWith]

/-! ### FindSubmatchAt / FindAllSubmatch: the spans -/

/-- the capture-producing searches, at the level of the overall span -/
structure SubOK {M : Type} (S : SubOracles M) (P : Params) (sp : M → Span) (ref : Nat → Option Span) (len : Nat) : Prop where
  /-- the one-pass DFA (anchored search at 0), when it answers, answers the reference match; a failure only falls through -/
  onepass : P.hasOnePass = true → ∀ m, (if P.longest then S.onepassLongest else S.onepass) = some m → ref 0 = some (sp m)
  /-- the Pike VM with captures finds the reference span -/
  pike : ∀ a, a ≤ len → (S.pikeCapsAt a).map sp = ref a
  /-- the Pike VM run inside the span found by phase 1 reports that span -/
  inSpan : ∀ a s e m, a ≤ len → ref a = some (s, e) → S.pikeCapsInSpan s e = some m → sp m = (s, e)
  ofSpan : ∀ s e, sp (S.ofSpan s e) = (s, e)

/-- **`findSubmatchAtWithState` finds the reference span**: one-pass, direct Pike VM and two-phase paths -/
theorem findSubmatchAtWithState_span {M : Type} {O : Oracles} {S : SubOracles M} {P : Params} {sp : M → Span}
    {ref : Nat → Option Span} {len : Nat} (hat : ∀ a, a ≤ len → O.findAt a = ref a) (K : SubOK S P sp ref len)
    {a : Nat} (ha : a ≤ len) : (findSubmatchAtWithState O S P a).map sp = ref a := by
  unfold findSubmatchAtWithState
  have tail : (if directToPike P.strategy then S.pikeCapsAt a
      else match O.findAt a with
        | none => none
        | some se =>
          if P.captureCount ≤ 1 then some (S.ofSpan se.1 se.2)
          else match S.pikeCapsInSpan se.1 se.2 with
            | some m => some m
            | none => S.pikeCapsAt a).map sp = ref a := by
    split
    · exact K.pike a ha
    · rw [hat a ha]
      cases hr : ref a with
      | none => rfl
      | some se =>
        obtain ⟨s, e⟩ := se
        simp only []
        split
        · simp [K.ofSpan]
        · cases hs : S.pikeCapsInSpan s e with
          | none => simp only []; rw [K.pike a ha, hr]
          | some m => simp only [Option.map_some]; rw [K.inSpan a s e m ha hr hs]
  simp only []
  split
  · rename_i m hm
    split at hm
    · rename_i hc
      rw [hc.1, Option.map_some, K.onepass hc.2.1 m hm]
    · exact absurd hm (by simp)
  · exact tail

/-- **the spans of `FindAllSubmatch` refine `Loops.findAllB` over the reference search** -/
theorem findAllSubmatch_refines {M : Type} {O : Oracles} {S : SubOracles M} {P : Params} {sp : M → Span}
    {ref : Nat → Option Span} {len : Nat} (hat : ∀ a, a ≤ len → O.findAt a = ref a) (K : SubOK S P sp ref len)
    (next : Nat → Nat) (n : Int) (hn : n ≠ 0) :
    (findAllSubmatch O S P sp next len n).map sp = findAllB ref id next len (lim n) := by
  unfold findAllSubmatch findAllB
  rw [if_neg hn, subLoop_eq_loopB, List.nil_append, List.length_nil, loopB_map]
  exact loopB_congr id next len (lim n) (fun p hp => findSubmatchAtWithState_span hat K hp) _ _ _ _

theorem findAllSubmatch_zero {M : Type} (O : Oracles) (S : SubOracles M) (P : Params) (sp : M → Span) (next : Nat → Nat)
    (len : Nat) : findAllSubmatch O S P sp next len 0 = [] := by
  simp [findAllSubmatch]

/-! ### composed with `Cx.Proofs.Loops`: regexp's `allMatches` -/

theorem lim_neg_one : lim (-1) = none := by decide

theorem lim_zero : lim 0 = none := by decide

/-- `findAllIndicesLoop(h, n)` is `allMatches` with limit `n`; `n = 0` means "all" here. `anch`: when the engine says
    always-anchored, the reference has no match from a later offset. -/
theorem findAllIndicesLoop_eq_std {O : Oracles} {P : Params} {ref : Nat → Option Span} {len : Nat} (w : Nat → Nat)
    (ok : FindOK ref id len) (wk : WidthOK w len) (L : LoopOK O P ref len)
    (anch : P.alwaysAnchored = true → ∀ p, 0 < p → ref p = none) (n : Int) :
    findAllIndicesLoop O P (nextOf w) len n = stdFindAll ref id w len (if n = 0 then -1 else n) := by
  rw [findAllIndicesLoop_refines ok L]
  have key : ∀ k : Int, k ≠ 0 → findAllA P.alwaysAnchored ref id (nextOf w) len (lim k) = stdFindAll ref id w len k := by
    intro k hk
    cases ha : P.alwaysAnchored with
    | false => exact loopA_eq_std ref id w len ok wk k hk
    | true => exact anchored_eq_std ref id w len ok wk (anch ha) k hk
  by_cases hn : n = 0
  · rw [if_pos hn, hn, lim_zero, ← lim_neg_one]
    exact key (-1) (by decide)
  · rw [if_neg hn]; exact key n hn

/-- the CharClassSearcher's one-pass enumeration is the full `allMatches` sequence -/
def CcOK (O : Oracles) (P : Params) (ref : Nat → Option Span) (w : Nat → Nat) (len : Nat) : Prop :=
  P.strategy = .charClassSearcher → P.hasCharClassSearcher = true → O.ccFindAll = stdFindAll ref id w len (-1)

/-- **`FindAllIndicesStreaming(h, n)` = `allMatches` with limit `n`** (`n = 0`: all) -/
theorem findAllIndicesStreaming_eq_std {O : Oracles} {P : Params} {ref : Nat → Option Span} {len : Nat} (w : Nat → Nat)
    (ok : FindOK ref id len) (wk : WidthOK w len) (L : LoopOK O P ref len)
    (anch : P.alwaysAnchored = true → ∀ p, 0 < p → ref p = none) (C : CcOK O P ref w len) (n : Int) :
    findAllIndicesStreaming O P (nextOf w) len n = stdFindAll ref id w len (if n = 0 then -1 else n) := by
  unfold findAllIndicesStreaming
  by_cases hc : P.strategy ≠ .charClassSearcher ∨ P.hasCharClassSearcher = false
  · rw [if_pos hc]; exact findAllIndicesLoop_eq_std w ok wk L anch n
  · rw [if_neg hc]
    have hs : P.strategy = .charClassSearcher := Classical.byContradiction fun h => hc (Or.inl h)
    have hh : P.hasCharClassSearcher = true := by
      cases hb : P.hasCharClassSearcher with
      | true => rfl
      | false => exact absurd (Or.inr hb) hc
    simp only []
    rw [C hs hh]
    by_cases hpos : n > 0
    · have hn0 : ¬ n = 0 := by omega
      rw [if_neg hn0]
      have hpre := std_limit_prefix ref id w len ok wk n.toNat
      have hcast : ((n.toNat : Nat) : Int) = n := by omega
      rw [hcast] at hpre
      by_cases hlen : ((stdFindAll ref id w len (-1)).length : Int) > n
      · rw [if_pos ⟨hpos, hlen⟩, hpre]
      · rw [if_neg (fun h => hlen h.2), hpre, List.take_of_length_le (by omega)]
    · rw [if_neg (fun h => hpos h.1)]
      by_cases hn0 : n = 0
      · rw [if_pos hn0]
      · rw [if_neg hn0]
        unfold stdFindAll
        have : n < 0 := by omega
        simp only [this, if_true]
        rfl

/-- **`Count(h, n)` = the number of matches `allMatches` delivers with limit `n`** (`n ≠ 0`) -/
theorem count_eq_std {O : Oracles} {P : Params} {ref : Nat → Option Span} {len : Nat} (w : Nat → Nat)
    (ok : FindOK ref id len) (wk : WidthOK w len) (L : LoopOK O P ref len) (n : Int) (hn : n ≠ 0) :
    count O P (nextOf w) len n = (stdFindAll ref id w len n).length := by
  rw [count_refines ok L _ n hn]
  congr 1
  exact loopB_eq_std ref id w len ok wk n hn

/-- `Count(h, n) = len(FindAllIndicesStreaming(h, n))` for `n ≠ 0` -/
theorem count_eq_length {O : Oracles} {P : Params} {ref : Nat → Option Span} {len : Nat} (w : Nat → Nat)
    (ok : FindOK ref id len) (wk : WidthOK w len) (L : LoopOK O P ref len)
    (anch : P.alwaysAnchored = true → ∀ p, 0 < p → ref p = none) (C : CcOK O P ref w len) (n : Int) (hn : n ≠ 0) :
    count O P (nextOf w) len n = (findAllIndicesStreaming O P (nextOf w) len n).length := by
  rw [count_eq_std w ok wk L n hn, findAllIndicesStreaming_eq_std w ok wk L anch C n, if_neg hn]

/-- a positive limit only truncates -/
theorem streaming_limit_prefix {O : Oracles} {P : Params} {ref : Nat → Option Span} {len : Nat} (w : Nat → Nat)
    (ok : FindOK ref id len) (wk : WidthOK w len) (L : LoopOK O P ref len)
    (anch : P.alwaysAnchored = true → ∀ p, 0 < p → ref p = none) (C : CcOK O P ref w len) (n : Nat) (hn : 0 < n) :
    findAllIndicesStreaming O P (nextOf w) len (n : Int)
      = (findAllIndicesStreaming O P (nextOf w) len (-1)).take n := by
  rw [findAllIndicesStreaming_eq_std w ok wk L anch C, findAllIndicesStreaming_eq_std w ok wk L anch C,
    if_neg (by omega), if_neg (by decide)]
  exact std_limit_prefix ref id w len ok wk n

/-- **the spans of `FindAllSubmatch(h, n)` = `allMatches` with limit `n`** (`n ≠ 0`) -/
theorem findAllSubmatch_eq_std {M : Type} {O : Oracles} {S : SubOracles M} {P : Params} {sp : M → Span}
    {ref : Nat → Option Span} {len : Nat} (w : Nat → Nat) (ok : FindOK ref id len) (wk : WidthOK w len)
    (hat : ∀ a, a ≤ len → O.findAt a = ref a) (K : SubOK S P sp ref len) (n : Int) (hn : n ≠ 0) :
    (findAllSubmatch O S P sp (nextOf w) len n).map sp = stdFindAll ref id w len n := by
  rw [findAllSubmatch_refines hat K _ n hn]
  exact loopB_eq_std ref id w len ok wk n hn

/-! ### the instance over the dispatch model `Cx.Model.MetaFind` (UseNFA / UseDFA / UseBoth / UseBoundedBacktracker) -/

/-- the reference of `Cx.Proofs.MetaFind` for one haystack, cut off after its end (no loop asks beyond `len`) -/
def refOn (ref : Bytes → Nat → Option Span) (h : Bytes) (a : Nat) : Option Span := if a ≤ h.size then ref h a else none

theorem refOn_le {ref : Bytes → Nat → Option Span} {h : Bytes} {a : Nat} (ha : a ≤ h.size) : refOn ref h a = ref h a := by
  unfold refOn; rw [if_pos ha]

/-- `RefOK` (sound, inside the haystack, scanning the starts in order) gives the `FindOK` of the loop theorems -/
theorem refOn_findOK {Mt : Bytes → Nat → Nat → Prop} {ref : Bytes → Nat → Option Span} {h : Bytes}
    (R : MetaFind.RefOK Mt ref h) : FindOK (refOn ref h) id h.size := by
  constructor
  · intro pos m hf
    unfold refOn at hf
    by_cases hp : pos ≤ h.size
    · rw [if_pos hp] at hf
      obtain ⟨s, e⟩ := m
      obtain ⟨h1, h2, h3, _⟩ := R.span_le hp hf
      exact ⟨h1, h2, h3⟩
    · rw [if_neg hp] at hf; exact absurd hf (by simp)
  · intro pos m p hf h1 h2
    unfold refOn at hf
    by_cases hp : pos ≤ h.size
    · rw [if_pos hp] at hf
      obtain ⟨s, e⟩ := m
      obtain ⟨g1, g2, g3, _⟩ := R.span_le hp hf
      simp only [id] at h2
      rw [refOn_le (by omega)]
      exact R.restart pos p s e hp hf h1 h2
    · rw [if_neg hp] at hf; exact absurd hf (by simp)

/-- **`BiOK` is the contract of the direct branch**: `fwd` as it stands; `rev` is the two-pass lemma, which uses `rev_some`
    (the reverse DFA answers the least start) AND `rev_total` (it never gives up) -/
theorem DirectOK.of_bi {O : MetaFind.Oracles} {Mt : Bytes → Nat → Nat → Prop} {ref : Bytes → Nat → Option Span} {h : Bytes}
    (R : MetaFind.RefOK Mt ref h) (B : MetaFind.BiOK O Mt ref h) (P : MetaFind.Params) (st : MetaFind.Strategy) :
    DirectOK (oraclesOfMeta O P st h) (refOn ref h) h.size where
  fwd := fun a ha => by rw [refOn_le ha]; exact B.fwd a ha
  rev := fun a s e ha hr he => by rw [refOn_le ha] at hr; exact MetaFind.two_pass R B ha hr he

theorem useDFADirect_ofMeta {P : MetaFind.Params} {st : MetaFind.Strategy} (hd : useDFADirect (paramsOfMeta P st) = true) :
    P.longest = false ∧ st = .dfa ∧ P.hasDFA = true ∧ P.hasReverseDFA = true := by
  obtain ⟨h1, h2, h3, h4⟩ := (useDFADirect_iff _).mp hd
  refine ⟨h1, ?_, h3, h4⟩
  cases st <;> simp [paramsOfMeta, stratOfMeta] at h2 ⊢

/-- the component contracts of `Cx.Proofs.MetaFind` give everything the loops ask for -/
theorem meta_loopOK {O : MetaFind.Oracles} {P : MetaFind.Params} {Mt : Bytes → Nat → Nat → Prop}
    {ref : Bytes → Nat → Option Span} {h : Bytes} (S : MetaFind.OraclesOK O P Mt ref h) (st : MetaFind.Strategy)
    (hf : ∀ a, a ≤ h.size → MetaFind.StratFlags O P ref h a st) :
    LoopOK (oraclesOfMeta O P st h) (paramsOfMeta P st) (refOn ref h) h.size where
  findAt := fun a ha => by
    rw [refOn_le ha]; exact MetaFind.findIndicesAtWithState_eq_ref S st ha (hf a ha)
  findIndices := fun _ => by
    rw [refOn_le (Nat.zero_le _)]; exact MetaFind.findIndices_eq_ref S st (hf 0 (Nat.zero_le _))
  direct := fun hd => by
    obtain ⟨hl, _, _, hr⟩ := useDFADirect_ofMeta hd
    exact DirectOK.of_bi S.toRefOK (S.bi hl hr) P st

theorem meta_anch {O : MetaFind.Oracles} {P : MetaFind.Params} {Mt : Bytes → Nat → Nat → Prop}
    {ref : Bytes → Nat → Option Span} {h : Bytes} (S : MetaFind.OraclesOK O P Mt ref h) (st : MetaFind.Strategy)
    (ha : (paramsOfMeta P st).alwaysAnchored = true) : ∀ p, 0 < p → refOn ref h p = none := by
  intro p hp
  unfold refOn
  split
  · rename_i hle; exact MetaFind.anchored_none S ha hle hp
  · rfl

/-- **`Engine.FindAllIndicesStreaming` (four core strategies) = regexp's `allMatches` over the reference search**, relative to
    the component contracts `OraclesOK` of the dispatch -/
theorem metaFindAll_eq_std {O : MetaFind.Oracles} {P : MetaFind.Params} {Mt : Bytes → Nat → Nat → Prop}
    {ref : Bytes → Nat → Option Span} {h : Bytes} (S : MetaFind.OraclesOK O P Mt ref h) (st : MetaFind.Strategy)
    (hf : ∀ a, a ≤ h.size → MetaFind.StratFlags O P ref h a st) (n : Int) :
    metaFindAll O P st h n = stdFindAll (refOn ref h) id (Utf8.widthAt h) h.size (if n = 0 then -1 else n) := by
  unfold metaFindAll
  rw [nextPos_eq_nextOf]
  apply findAllIndicesStreaming_eq_std _ (refOn_findOK S.toRefOK) (widthAt_ok h) (meta_loopOK S st hf) (meta_anch S st)
  intro hs
  cases st <;> simp [paramsOfMeta, stratOfMeta] at hs

/-- **`Engine.Count` (four core strategies) = the number of matches of `allMatches`** -/
theorem metaCount_eq_std {O : MetaFind.Oracles} {P : MetaFind.Params} {Mt : Bytes → Nat → Nat → Prop}
    {ref : Bytes → Nat → Option Span} {h : Bytes} (S : MetaFind.OraclesOK O P Mt ref h) (st : MetaFind.Strategy)
    (hf : ∀ a, a ≤ h.size → MetaFind.StratFlags O P ref h a st) (n : Int) (hn : n ≠ 0) :
    metaCount O P st h n = (stdFindAll (refOn ref h) id (Utf8.widthAt h) h.size n).length := by
  unfold metaCount
  rw [nextPos_eq_nextOf]
  exact count_eq_std _ (refOn_findOK S.toRefOK) (widthAt_ok h) (meta_loopOK S st hf) n hn

/-! ### a decidable check of `FindOK` for tables (driver, counter-models) -/

theorem findOK_of_check {f : Nat → Option Span} {len : Nat} (hc : findOKCheck f len = true)
    (hn : ∀ p, p > len → f p = none) : FindOK f id len := by
  unfold findOKCheck at hc
  rw [List.all_eq_true] at hc
  have key : ∀ pos m, f pos = some m →
      pos ≤ m.1 ∧ m.1 ≤ m.2 ∧ m.2 ≤ len ∧ ∀ p, p ≤ len → pos ≤ p → p ≤ m.1 → f p = some m := by
    intro pos m hf
    have hp : pos ≤ len := by
      apply Classical.byContradiction
      intro hgt
      rw [hn pos (by omega)] at hf
      exact absurd hf (by simp)
    have := hc pos (List.mem_range.mpr (by omega))
    rw [hf] at this
    simp only [Bool.and_eq_true, decide_eq_true_eq, List.all_eq_true, List.mem_range, Bool.or_eq_true,
      Bool.not_eq_true', Bool.and_eq_false_iff, decide_eq_false_iff_not, beq_iff_eq] at this
    obtain ⟨⟨⟨h1, h2⟩, h3⟩, h4⟩ := this
    refine ⟨h1, h2, h3, ?_⟩
    intro p hpl g1 g2
    rcases h4 p (by omega) with h | h
    · rcases h with h | h <;> omega
    · exact h
  constructor
  · intro pos m hf
    obtain ⟨h1, h2, h3, _⟩ := key pos m hf
    exact ⟨h1, h2, h3⟩
  · intro pos m p hf h1 h2
    obtain ⟨g1, g2, g3, g4⟩ := key pos m hf
    simp only [id] at h2
    exact g4 p (by omega) h1 h2

theorem tab_none (t : List (Option Span)) {p : Nat} (hp : p ≥ t.length) : tab t p = none := by
  unfold tab
  rw [List.getD_eq_getElem?_getD, List.getElem?_eq_none hp]
  rfl

/-- rune widths of an ASCII haystack of length `len` -/
def asciiW (len : Nat) (p : Nat) : Nat := if p < len then 1 else 0

theorem asciiW_ok (len : Nat) : WidthOK (asciiW len) len := by
  constructor
  · intro p hp; simp [asciiW, hp]
  · intro p hp; unfold asciiW; rw [if_neg (by omega)]

/-! ### counter-models: every hypothesis is needed -/

/-- `[ab]|[ab][ab]` on "aaa" in leftmost-LONGEST mode: the reference (what `findIndicesAtWithState` answers: Pike VM) -/
def cexL_ref : Nat → Option Span := tab [some (0, 2), some (1, 3), some (2, 3), none]

/-- the DFA pair of the same pattern: the forward DFA reports the end of the leftmost-FIRST match, `[ab]`: one byte -/
def cexL_O : Oracles where
  findAt := cexL_ref
  findIndices := cexL_ref 0
  fwdSearchAt := fun a => if a < 3 then some (a + 1) else none
  revSearch := fun lo e => if lo < e ∧ e ≤ 3 then some (max lo (e - 2)) else none

def cexL_P : Params := { strategy := .dfa, longest := true, hasDFA := true, hasReverseDFA := true }

theorem cexL_findOK : FindOK cexL_ref id 3 :=
  findOK_of_check (by decide) (fun _ hp => tab_none _ (by simp only [List.length_cons, List.length_nil]; omega))

/-- **the `!e.longest` guard is necessary.**  `Longest()`, `[ab]|[ab][ab]` on "aaa": the reference enumeration is
    `[0,2) [2,3)`.  With the guard (HEAD) the direct branch is off and `Count` = 2 = the length of `FindAll`; without it (`Count`
    before the fix) the leftmost-first DFA pair is asked and `Count` = 3.  Everything else (`findAt = ref`, `FindOK`) holds. -/
theorem cex_direct_longest :
    useDFADirect cexL_P = false ∧ useDFADirectNoLongestGuard cexL_P = true
    ∧ stdFindAll cexL_ref id (asciiW 3) 3 (-1) = [(0, 2), (2, 3)]
    ∧ findAllIndicesStreaming cexL_O cexL_P (nextOf (asciiW 3)) 3 (-1) = [(0, 2), (2, 3)]
    ∧ count cexL_O cexL_P (nextOf (asciiW 3)) 3 (-1) = 2
    ∧ countNoLongestGuard cexL_O cexL_P (nextOf (asciiW 3)) 3 (-1) = 3
    ∧ idxLoop cexL_O true (nextOf (asciiW 3)) 3 (-1) 5 0 none [] = [(0, 1), (1, 2), (2, 3)] := by
  decide

/-- `a+` on "aab": reference and a DFA pair whose reverse search GIVES UP (answers -1 whatever it is asked) -/
def cexR_ref : Nat → Option Span := tab [some (0, 2), some (1, 2), none, none]

def cexR_O : Oracles where
  findAt := cexR_ref
  findIndices := cexR_ref 0
  fwdSearchAt := fun a => (cexR_ref a).map (·.2)
  revSearch := fun _ _ => none

def cexR_P : Params := { strategy := .dfa, hasDFA := true, hasReverseDFA := true }

theorem cexR_findOK : FindOK cexR_ref id 3 :=
  findOK_of_check (by decide) (fun _ hp => tab_none _ (by simp only [List.length_cons, List.length_nil]; omega))

/-- **`rev_total` is necessary.**  The forward contract holds, the reverse search never answers anything wrong (`rev_some` holds
    vacuously) — but it gives up, and the direct branch turns that into `break`: the enumeration loses the match `[0,2)` that
    `findIndicesAtWithState` would have found.  `DirectOK.rev` (from `BiOK.rev_total`) excludes it. -/
theorem cex_rev_gives_up :
    useDFADirect cexR_P = true
    ∧ (∀ a, a ≤ 3 → cexR_O.fwdSearchAt a = (cexR_ref a).map (·.2))
    ∧ (∀ a, a ≤ 3 → cexR_O.findAt a = cexR_ref a)
    ∧ stdFindAll cexR_ref id (asciiW 3) 3 (-1) = [(0, 2)]
    ∧ findAllIndicesStreaming cexR_O cexR_P (nextOf (asciiW 3)) 3 (-1) = []
    ∧ count cexR_O cexR_P (nextOf (asciiW 3)) 3 (-1) = 0 := by
  decide

/-- `[ab]|[ab][ab]` on "aa", leftmost-first; a reverse search that ignores its lower bound `pos` (least start ≥ 0) -/
def cexB_ref : Nat → Option Span := tab [some (0, 1), some (1, 2), none]

def cexB_O : Oracles where
  findAt := cexB_ref
  findIndices := cexB_ref 0
  fwdSearchAt := fun a => (cexB_ref a).map (·.2)
  revSearch := fun _ e => some (e - 2)

/-- **the lower bound `pos` of the reverse search matters** (`SearchReverse(…, pos, matchEnd)`, not `0`): searching back
    past `pos` reports `[0,2)`, which overlaps the previous match `[0,1)` -/
theorem cex_rev_lower_bound :
    stdFindAll cexB_ref id (asciiW 2) 2 (-1) = [(0, 1), (1, 2)]
    ∧ findAllIndicesStreaming cexB_O cexR_P (nextOf (asciiW 2)) 2 (-1) = [(0, 1), (0, 2)] := by
  decide

/-- `a` on "aa" -/
def cexA_ref : Nat → Option Span := tab [some (0, 1), some (1, 2), none]

def cexA_O : Oracles where
  findAt := cexA_ref
  findIndices := cexA_ref 0
  fwdSearchAt := fun a => (cexA_ref a).map (·.2)
  revSearch := fun lo e => if lo < e then some (e - 1) else none

theorem cexA_findOK : FindOK cexA_ref id 2 :=
  findOK_of_check (by decide) (fun _ hp => tab_none _ (by simp only [List.length_cons, List.length_nil]; omega))

/-- **the always-anchored shortcut needs an anchored pattern** (hypothesis `anch`): with the flag set for a pattern that
    matches later too, one match is reported; `Count`, which has no such shortcut, counts both -/
theorem cex_anchored_flag :
    stdFindAll cexA_ref id (asciiW 2) 2 (-1) = [(0, 1), (1, 2)]
    ∧ findAllIndicesStreaming cexA_O { alwaysAnchored := true } (nextOf (asciiW 2)) 2 (-1) = [(0, 1)]
    ∧ count cexA_O { alwaysAnchored := true } (nextOf (asciiW 2)) 2 (-1) = 2 := by
  decide

/-- **`n = 0`**: "no limit" for `FindAllIndicesStreaming` (l.168: "0=no limit"), "nothing" for `Count` and `FindAllSubmatch`
    (and for regexp: `FindAll(…, 0)` is nil) — `count_eq_length` needs `n ≠ 0`; the callers in regex.go return early for 0 -/
theorem cex_streaming_zero :
    findAllIndicesStreaming cexA_O {} (nextOf (asciiW 2)) 2 0 = [(0, 1), (1, 2)]
    ∧ count cexA_O {} (nextOf (asciiW 2)) 2 0 = 0
    ∧ stdFindAll cexA_ref id (asciiW 2) 2 0 = [] := by
  decide

/-- non-vacuity: the `a` on "aa" oracles satisfy every hypothesis of the theorems, with the direct branch ON -/
theorem cexA_loopOK : LoopOK cexA_O cexR_P cexA_ref 2 where
  findAt := fun _ _ => rfl
  findIndices := fun _ => rfl
  direct := fun _ =>
    { fwd := fun _ _ => rfl
      rev := by
        have : ∀ a, a ≤ 2 →
            (cexA_ref a).all (fun m => decide (m.2 ≠ a → cexA_O.revSearch a m.2 = some m.1)) = true := by decide
        intro a s e ha hr he
        have h := this a ha
        rw [hr] at h
        simp only [Option.all_some, decide_eq_true_eq] at h
        exact h he }

example : useDFADirect cexR_P = true ∧
    findAllIndicesStreaming cexA_O cexR_P (nextOf (asciiW 2)) 2 (-1) = stdFindAll cexA_ref id (asciiW 2) 2 (-1) :=
  ⟨by decide, by rw [findAllIndicesStreaming_eq_std _ cexA_findOK (asciiW_ok 2) cexA_loopOK (fun h => nomatch h)
    (fun h => nomatch h)]; rfl⟩

end Cx.MetaFindAll
