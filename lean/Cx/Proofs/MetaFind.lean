import Cx.Model.MetaFind
import Cx.Proofs.RevSuffix
/-
  Cx.Proofs.MetaFind — the core dispatch of the meta engine (`meta/find_indices.go`, model `Cx.Model.MetaFind`) returns exactly
  what the reference search returns, RELATIVE to the contracts of its components.

  `Mt h s e` is an abstract match relation ("the pattern matches `h[s:e)` in the context of `h`"; instantiated with `Accepts N` in
  `Cx.Proofs.MetaFindInst`), `ref h at` an abstract reference search = the leftmost-first span from `at` (instantiated with
  `btSearchAt N`).  In leftmost-longest mode (`Longest()`) read `ref` as the leftmost-longest reference: the NFA engines (Pike
  VM, both backtrackers) honour the flag, the DFAs do not — which is why `OraclesOK.bi` (the DFA contracts) is only demanded for
  `P.longest = false`.  The code calls the DFA pair in leftmost-first mode only: `findIndicesDFA*` start with `if e.longest`
  → Pike VM (`findIndicesDFA_longest`; their `_eq_ref` theorems are stated for `P.longest = false`), and the fallbacks of the
  UseBoundedBacktracker functions are guarded by `!e.longest` since ecab302 (`dfaFallback`), so the UseNFA / UseBoth /
  UseBoundedBacktracker theorems hold in BOTH modes.

  Component contracts (all for the haystack at hand; every one is a field of `OraclesOK`, guarded by the flags under which the
  code calls the component):
    RefOK     ref is sound, its start is the leftmost start of any match from `at`, `none` = no match (`RevSuffix.RefSpec`:
              btSearchAt_sound/_leftmost); matches lie inside the haystack; ref SCANS the starts in order (`restart`: restarting
              anywhere before the match start changes nothing — `RevSuffix.btSearchAt_restart`)
    PfOK      the prefilter NEVER SKIPS: `pfFind h a = some p` → `a ≤ p < |h|` and no match starts in `[a, p)`;
              `none` → no match starts at or after `a`                                            (prefilter.Find)
    PfCompleteOK  complete prefilter with `LiteralLen() > 0`: the candidate IS the reference match: `ref h a = (p, p+len)`
    PfMatchOK `FindMatch` IS the reference search                                                 (Teddy.FindMatch)
    BiOK      `fwdSearchAt h a` = END of `ref h a` (SearchAt: `Dfa.searchAtU_eq_bt'`); `revSearch h lo e = some s`: `s` is the
              least start ≥ lo of a match ending at `e` (`RevSuffix.revDfa_contract`); and the reverse search is TOTAL: it
              answers whenever such a start exists (the code turns a failed reverse search into "no match")
    AnchOK    `fwdSearchAtAnchored h c`: `none` → no match starts at `c`; `some e` → a match `[c,e)`, and if `c` is the
              reference start then `e` is the reference end                                       (SearchAtAnchored)
    pike      `pike h a = ref h a`                                                                (C14_pike_search_eq_reference)
    im        `fwdIsMatchAt` has no false negatives (a false positive only costs a Pike VM run)   (IsMatchAt)
    bt        under the guard `hasBT ∧ ¬canMatchEmpty ∧ CanHandle`: `bt h a = ref h a`             (bounded backtracker)
    btSl/asSl the backtrackers run on a SLICE answer the reference of the sliced haystack (`SliceOK` then says that slicing
              does not change the reference: look-behind-free pattern or `at = 0`; ASCII NFA: the slice is ASCII)
    fb        first-byte rejection is sound

  Theorems (`f O P h at = ref h at` for `at ≤ |h|`):
    bidirectionalCore_eq_ref / bidirectional_eq_ref / bidirectionalLongest_eq_ref
    findIndicesDFA_eq_ref, findIndicesDFAAt_eq_ref, candLoop_eq_ref (the loop is dead code: `findIndicesDFA_candLoop_dead`)
    findIndicesNFA_eq_ref, findIndicesNFAAt_eq_ref
    findIndicesAdaptive_eq_ref, findIndicesAdaptiveAt_eq_ref
    findIndicesBT_eq_ref, findIndicesBTAt_eq_ref, findIndicesBTAtWithState_eq_ref   (both modes; no `AsciiTailOK` any more)
    findIndices_eq_ref, findIndicesAt_eq_ref, findIndicesAtWithState_eq_ref     (the dispatch)
    isMatchNFA_eq_ref, isMatchDFA_eq_ref, isMatchAdaptive_eq_ref                (`IsMatch`, meta/ismatch.go: `= (ref h 0).isSome`)
    findIndicesDFA_longest / findIndicesDFAAt_longest                           (leftmost-longest mode: the Pike VM)
  followed by one counter-model per hypothesis (`cex_*`, brute-force oracles over explicit tables, `by decide`; `cex_*_fixed`:
  hypotheses that are no longer needed because the code was repaired) and a
  non-vacuity instance (`litOracles_ok`: a literal pattern with a complete prefilter; the instance over the real component
  models is `realOracles_ok` in `Cx.Proofs.MetaFindInst`).

  Findings of the transliteration (all confirmed on the real code, see the `cex_*` section).  Three were repaired in the code
  after commit 83f9184; the model follows HEAD and their counter-models became `cex_*_fixed` witnesses (the model returns the
  reference on the very inputs that used to go wrong):
    * FIXED (ecab302) `findIndicesBidirectionalDFALongest` (the `CanHandle` fallback of UseBoundedBacktracker) reported
      leftmost-FIRST spans in leftmost-longest mode: every call is now guarded by `!e.longest`  (`cex_longest_fallback_fixed`);
    * FIXED (b09f397) the ASCII backtracker was never told about `Longest()`: `SetLongest` now configures it
      (`cex_ascii_longest_fixed`);
    * FIXED (fffbd3b) `findIndicesBoundedBacktrackerAt(WithState)`: the ASCII check read at most 4096 bytes of a start-anchored
      pattern's input but the ASCII-only automaton ran over ALL of it: the check now reads all of it (`cex_ascii_tail_fixed`;
      the hypothesis `AsciiTailOK` is gone);
  still there:
    * the "V12 windowed" backtracker of `findIndicesBoundedBacktrackerAtWithState` returns a span cut at the window;
    * the candidate loop and the "non-greedy" prefilter branch of `findIndicesDFA` are dead code;
    * `findIndicesAdaptive` trusts `FindMatch` without asking `IsComplete()` (unreachable with the default configuration:
      a Teddy prefilter implies UseDFA / UseTeddy).
-/
namespace Cx.MetaFind
open Cx
open Cx.RevSuffix (RefSpec findFirst findFirst_some findFirst_none)

/-! ### the reference -/

/-- the reference search: `RevSuffix.RefSpec` + matches lie inside the haystack + `ref` scans the start positions in order -/
structure RefOK (Mt : Bytes → Nat → Nat → Prop) (ref : Bytes → Nat → Option Span) (h : Bytes) : Prop
    extends RefSpec Mt ref h where
  mt_le : ∀ s e, s ≤ h.size → Mt h s e → s ≤ e ∧ e ≤ h.size
  restart : ∀ a a' s e, a ≤ h.size → ref h a = some (s, e) → a ≤ a' → a' ≤ s → ref h a' = some (s, e)

section
variable {O : Oracles} {P : Params} {Mt : Bytes → Nat → Nat → Prop} {ref : Bytes → Nat → Option Span} {h : Bytes}

/-- **skip-ahead is sound**: if no match starts in `[a, pos)`, the search from `pos` is the search from `a` -/
theorem RefOK.skip (R : RefOK Mt ref h) {a pos : Nat} (hap : a ≤ pos) (hp : pos ≤ h.size)
    (hno : ∀ s e, a ≤ s → s < pos → ¬ Mt h s e) : ref h pos = ref h a := by
  have ha : a ≤ h.size := by omega
  cases hr : ref h a with
  | none => exact R.toRefSpec.none_of hp (fun s e h1 h2 => R.ref_none a ha hr s e (by omega) h2)
  | some se =>
    obtain ⟨s, e⟩ := se
    obtain ⟨h1, h2, h3⟩ := R.ref_sound a s e ha hr
    have : pos ≤ s := by
      apply Classical.byContradiction
      intro hlt
      exact hno s e h1 (by omega) h3
    exact R.restart a pos s e ha hr hap this

/-- the span of the reference lies inside the haystack -/
theorem RefOK.span_le (R : RefOK Mt ref h) {a s e : Nat} (ha : a ≤ h.size) (hr : ref h a = some (s, e)) :
    a ≤ s ∧ s ≤ e ∧ e ≤ h.size ∧ Mt h s e := by
  obtain ⟨h1, h2, h3⟩ := R.ref_sound a s e ha hr
  obtain ⟨h4, h5⟩ := R.mt_le s e h2 h3
  exact ⟨h1, h4, h5, h3⟩

/-! ### prefilter -/

/-- `prefilter.Find` never skips a match -/
structure PfOK (O : Oracles) (Mt : Bytes → Nat → Nat → Prop) (h : Bytes) : Prop where
  pf_some : ∀ a p, a ≤ h.size → O.pfFind h a = some p → a ≤ p ∧ p < h.size ∧ ∀ s e, a ≤ s → s < p → ¬ Mt h s e
  pf_none : ∀ a, a ≤ h.size → O.pfFind h a = none → ∀ s e, a ≤ s → s ≤ h.size → ¬ Mt h s e

theorem PfOK.none_ref (F : PfOK O Mt h) (R : RefOK Mt ref h) {a : Nat} (ha : a ≤ h.size) (hf : O.pfFind h a = none) :
    ref h a = none :=
  R.toRefSpec.none_of ha (F.pf_none a ha hf)

theorem PfOK.some_ref (F : PfOK O Mt h) (R : RefOK Mt ref h) {a p : Nat} (ha : a ≤ h.size) (hf : O.pfFind h a = some p) :
    a ≤ p ∧ p < h.size ∧ ref h p = ref h a := by
  obtain ⟨h1, h2, h3⟩ := F.pf_some a p ha hf
  exact ⟨h1, h2, R.skip h1 (by omega) h3⟩

/-- with a prefilter no match starts at the very end of the haystack (`Find` answers -1 for `start >= len`) -/
theorem PfOK.end_none (F : PfOK O Mt h) (R : RefOK Mt ref h) : ref h h.size = none := by
  cases hf : O.pfFind h h.size with
  | none => exact F.none_ref R (Nat.le_refl _) hf
  | some p =>
    obtain ⟨h1, h2, _⟩ := F.pf_some _ p (Nat.le_refl _) hf
    omega

/-- complete prefilter with a uniform literal length: the candidate is the reference match -/
def PfCompleteOK (O : Oracles) (P : Params) (ref : Bytes → Nat → Option Span) (h : Bytes) : Prop :=
  ∀ a p, a ≤ h.size → O.pfFind h a = some p → ref h a = some (p, p + P.literalLen)

/-- `FindMatch` is the reference search -/
def PfMatchOK (O : Oracles) (ref : Bytes → Nat → Option Span) (h : Bytes) : Prop :=
  ∀ a, a ≤ h.size → O.pfFindMatch h a = ref h a

/-! ### the two-pass bidirectional DFA search -/

/-- forward DFA = end of the reference match; reverse DFA = least start for a given end, total -/
structure BiOK (O : Oracles) (Mt : Bytes → Nat → Nat → Prop) (ref : Bytes → Nat → Option Span) (h : Bytes) : Prop where
  fwd : ∀ a, a ≤ h.size → O.fwdSearchAt h a = (ref h a).map (·.2)
  rev_some : ∀ lo e s, lo < e → e ≤ h.size → O.revSearch h lo e = some s →
    lo ≤ s ∧ Mt h s e ∧ ∀ s', lo ≤ s' → s' ≤ h.size → Mt h s' e → s ≤ s'
  rev_total : ∀ lo e s, lo < e → e ≤ h.size → lo ≤ s → s ≤ h.size → Mt h s e → (O.revSearch h lo e).isSome = true

/-- **the key lemma of the two-pass search**: if the reference span from `at` is `(s, e)`, the least start `≥ at` of a match
    ending at `e` is `s` — `s ≤ s'` because `s` is the leftmost start of ANY match, `s' ≤ s` because `[s, e)` is itself a
    match ending at `e` -/
theorem two_pass (R : RefOK Mt ref h) (B : BiOK O Mt ref h) {at_ s e : Nat} (hat : at_ ≤ h.size)
    (hr : ref h at_ = some (s, e)) (hne : e ≠ at_) : O.revSearch h at_ e = some s := by
  obtain ⟨h1, h2, h3, h4⟩ := R.span_le hat hr
  have hlt : at_ < e := by omega
  have ht := B.rev_total at_ e s hlt h3 h1 (by omega) h4
  obtain ⟨s', hs'⟩ := Option.isSome_iff_exists.mp ht
  obtain ⟨g1, g2, g3⟩ := B.rev_some at_ e s' hlt h3 hs'
  have a1 : s' ≤ s := g3 s h1 (by omega) h4
  have a2 : s ≤ s' := R.ref_leftmost at_ s e hat hr s' e g1 g2
  rw [hs']
  congr 1
  omega

theorem bidirectionalLongest_eq_ref (R : RefOK Mt ref h) (B : BiOK O Mt ref h) {at_ : Nat} (hat : at_ ≤ h.size) :
    bidirectionalLongest O h at_ = ref h at_ := by
  unfold bidirectionalLongest
  rw [B.fwd at_ hat]
  cases hr : ref h at_ with
  | none => rfl
  | some se =>
    obtain ⟨s, e⟩ := se
    obtain ⟨h1, h2, h3, h4⟩ := R.span_le hat hr
    simp only [Option.map_some]
    by_cases he : e = at_
    · rw [if_pos he]
      have : s = at_ := by omega
      subst he
      rw [this]
    · rw [if_neg he, two_pass R B hat hr he]

/-- **forward DFA → end, reverse DFA → start is the reference search** (`findIndicesBidirectionalDFACore`).  The
    always-anchored shortcut needs that an always-anchored pattern only matches at offset 0. -/
theorem bidirectionalCore_eq_ref (R : RefOK Mt ref h) (B : BiOK O Mt ref h)
    (hanch : P.alwaysAnchored = true → ∀ s e, s ≤ h.size → Mt h s e → s = 0) {at_ : Nat} (hat : at_ ≤ h.size) :
    bidirectionalCore O P h at_ = ref h at_ := by
  unfold bidirectionalCore
  rw [B.fwd at_ hat]
  cases hr : ref h at_ with
  | none => rfl
  | some se =>
    obtain ⟨s, e⟩ := se
    obtain ⟨h1, h2, h3, h4⟩ := R.span_le hat hr
    simp only [Option.map_some]
    by_cases he : e = at_
    · rw [if_pos he]
      have : s = at_ := by omega
      subst he
      rw [this]
    · rw [if_neg he]
      by_cases ha : P.alwaysAnchored = true
      · rw [if_pos ha]
        have := hanch ha s e (by omega) h4
        have : at_ = s := by omega
        rw [this]
      · rw [if_neg ha, two_pass R B hat hr he]

theorem bidirectional_eq_ref (R : RefOK Mt ref h) (B : BiOK O Mt ref h)
    (hanch : P.alwaysAnchored = true → ∀ s e, s ≤ h.size → Mt h s e → s = 0) {at_ : Nat} (hat : at_ ≤ h.size) :
    bidirectional O P h at_ = ref h at_ :=
  bidirectionalCore_eq_ref R B hanch hat

/-! ### component contracts of the engines -/

/-- `pikevm.SearchAt` is the reference search -/
def PikeOK (O : Oracles) (ref : Bytes → Nat → Option Span) (h : Bytes) : Prop := ∀ a, a ≤ h.size → O.pike h a = ref h a

/-- `dfa.IsMatchAt` has no false negatives (a false positive only costs a Pike VM run) -/
def IsMatchOK (O : Oracles) (ref : Bytes → Nat → Option Span) (h : Bytes) : Prop :=
  ∀ a, a ≤ h.size → (ref h a).isSome = true → O.fwdIsMatchAt h a = true

/-- `boundedBacktracker.SearchAtWithState` is the reference search on every span it can handle -/
def BtOK (O : Oracles) (ref : Bytes → Nat → Option Span) (h : Bytes) : Prop :=
  ∀ a, a ≤ h.size → O.btCanHandle (h.size - a) = true → O.bt h a = ref h a

/-- `dfa.SearchAtAnchored`: sound, complete, and at the reference's start it reports the reference's end -/
structure AnchOK (O : Oracles) (Mt : Bytes → Nat → Nat → Prop) (ref : Bytes → Nat → Option Span) (h : Bytes) : Prop where
  anch_some : ∀ c e, c ≤ h.size → O.fwdSearchAtAnchored h c = some e → Mt h c e
  anch_none : ∀ c, c ≤ h.size → O.fwdSearchAtAnchored h c = none → ∀ e, ¬ Mt h c e
  anch_ref : ∀ c e, c ≤ h.size → ref h c = some (c, e) → O.fwdSearchAtAnchored h c = some e

/-! ### UseDFA -/

/-- `findIndicesDFAAt` / `findIndicesDFAAtWithState` return the reference's span (leftmost-first mode).
    `hpf`: the prefilter — complete or not, whatever `prefilterPartialCoverage` says — must never skip a match;
    `hbi`: the DFA pair meets the two-pass contract; `him`: without a reverse DFA, `IsMatchAt` has no false negatives. -/
theorem findIndicesDFAAt_eq_ref (R : RefOK Mt ref h) (hl : P.longest = false) (K : PikeOK O ref h)
    (hpf : P.hasPrefilter = true → PfOK O Mt h) (hbi : P.hasReverseDFA = true → BiOK O Mt ref h)
    (him : P.hasPrefilter = false → P.hasReverseDFA = false → IsMatchOK O ref h)
    (hanch : P.alwaysAnchored = true → ∀ s e, s ≤ h.size → Mt h s e → s = 0) {at_ : Nat} (hat : at_ ≤ h.size) :
    findIndicesDFAAt O P h at_ = ref h at_ := by
  unfold findIndicesDFAAt
  rw [hl]
  simp only [Bool.false_eq_true, ↓reduceIte]
  by_cases hp : P.hasPrefilter = true
  · rw [if_pos hp]
    have F := hpf hp
    cases hf : O.pfFind h at_ with
    | none => exact (F.none_ref R hat hf).symm
    | some pos =>
      obtain ⟨h1, h2, h3⟩ := F.some_ref R hat hf
      show (if P.hasReverseDFA = true then bidirectional O P h pos else O.pike h pos) = ref h at_
      by_cases hr : P.hasReverseDFA = true
      · rw [if_pos hr, bidirectional_eq_ref R (hbi hr) hanch (by omega), h3]
      · rw [if_neg hr, K pos (by omega), h3]
  · rw [if_neg hp]
    by_cases hr : P.hasReverseDFA = true
    · rw [if_pos hr, bidirectional_eq_ref R (hbi hr) hanch hat]
    · rw [if_neg hr]
      have I := him (by simpa using hp) (by simpa using hr)
      cases hm : O.fwdIsMatchAt h at_ with
      | true => simp only [Bool.not_true, Bool.false_eq_true, ↓reduceIte]; exact K at_ hat
      | false =>
        simp only [Bool.not_false, ↓reduceIte]
        cases hrf : ref h at_ with
        | none => rfl
        | some se =>
          have := I at_ hat (by rw [hrf]; rfl)
          rw [hm] at this
          cases this

/-- `findIndicesDFA` without its two unreachable branches -/
def findIndicesDFALive (O : Oracles) (P : Params) (h : Bytes) : Option Span :=
  if P.longest then O.pike h 0
  else if P.hasPrefilter && P.pfComplete then
    match O.pfFind h 0 with
    | none => none
    | some pos => if P.literalLen > 0 then some (pos, pos + P.literalLen) else O.pike h 0
  else if P.hasPrefilter && !P.pfComplete then
    match O.pfFind h 0 with
    | none => none
    | some pos => if P.hasReverseDFA then bidirectional O P h pos else O.pike h pos
  else if P.hasReverseDFA then bidirectional O P h 0
  else if !O.fwdIsMatchAt h 0 then none
  else O.pike h 0

/-- **the candidate loop (`nfaStateCount > 100`, l.261-301) and the "non-greedy" prefilter branch (l.305-312) of
    `findIndicesDFA` are dead code**: the two branches before them return whenever `e.prefilter != nil` -/
theorem findIndicesDFA_candLoop_dead (O : Oracles) (P : Params) (h : Bytes) :
    findIndicesDFA O P h = findIndicesDFALive O P h := by
  unfold findIndicesDFA findIndicesDFALive
  cases P.longest <;> cases P.hasPrefilter <;> cases P.pfComplete <;> rfl

/-- `findIndicesDFA` returns the reference's span (leftmost-first mode) -/
theorem findIndicesDFA_eq_ref (R : RefOK Mt ref h) (hl : P.longest = false) (K : PikeOK O ref h)
    (hpf : P.hasPrefilter = true → PfOK O Mt h)
    (hpc : P.hasPrefilter = true → P.pfComplete = true → P.literalLen > 0 → PfCompleteOK O P ref h)
    (hbi : P.hasReverseDFA = true → BiOK O Mt ref h)
    (him : P.hasPrefilter = false → P.hasReverseDFA = false → IsMatchOK O ref h)
    (hanch : P.alwaysAnchored = true → ∀ s e, s ≤ h.size → Mt h s e → s = 0) :
    findIndicesDFA O P h = ref h 0 := by
  rw [findIndicesDFA_candLoop_dead]
  unfold findIndicesDFALive
  rw [hl]
  simp only [Bool.false_eq_true, ↓reduceIte]
  have hat : 0 ≤ h.size := Nat.zero_le _
  by_cases hp : P.hasPrefilter = true
  · have F := hpf hp
    by_cases hc : P.pfComplete = true
    · rw [if_pos (by rw [hp, hc]; rfl)]
      cases hf : O.pfFind h 0 with
      | none => exact (F.none_ref R hat hf).symm
      | some pos =>
        show (if P.literalLen > 0 then some (pos, pos + P.literalLen) else O.pike h 0) = ref h 0
        by_cases hL : P.literalLen > 0
        · rw [if_pos hL, hpc hp hc hL 0 pos hat hf]
        · rw [if_neg hL, K 0 hat]
    · have hc' : P.pfComplete = false := by simpa using hc
      rw [if_neg (by rw [hp, hc']; decide), if_pos (by rw [hp, hc']; rfl)]
      cases hf : O.pfFind h 0 with
      | none => exact (F.none_ref R hat hf).symm
      | some pos =>
        obtain ⟨h1, h2, h3⟩ := F.some_ref R hat hf
        show (if P.hasReverseDFA = true then bidirectional O P h pos else O.pike h pos) = ref h 0
        by_cases hr : P.hasReverseDFA = true
        · rw [if_pos hr, bidirectional_eq_ref R (hbi hr) hanch (by omega), h3]
        · rw [if_neg hr, K pos (by omega), h3]
  · have hp' : P.hasPrefilter = false := by simpa using hp
    rw [if_neg (by rw [hp']; simp), if_neg (by rw [hp']; simp)]
    have := findIndicesDFAAt_eq_ref R hl K hpf hbi him hanch hat
    unfold findIndicesDFAAt at this
    rw [hl, hp'] at this
    simp only [Bool.false_eq_true, ↓reduceIte] at this
    exact this

/-- **the candidate loop is correct as well** (were it reachable): prefilter candidates verified one by one with the ANCHORED
    forward DFA (or the Pike VM) yield the reference's span -/
theorem candLoop_eq_ref (R : RefOK Mt ref h) (F : PfOK O Mt h) (K : PikeOK O ref h)
    (A : P.hasDFA = true → AnchOK O Mt ref h)
    (hpc : P.pfComplete = true → P.literalLen > 0 → PfCompleteOK O P ref h)
    (hfm : P.pfComplete = true → P.pfHasFindMatch = true → PfMatchOK O ref h) :
    ∀ (fuel pos : Nat), pos ≤ h.size → h.size + 1 - pos ≤ fuel → candLoop O P h fuel pos = ref h pos := by
  intro fuel
  induction fuel with
  | zero => intro pos hp hf; omega
  | succ fuel ih =>
    intro pos hpos hfuel
    rw [candLoop]
    by_cases hlt : pos < h.size
    · rw [if_pos hlt]
      cases hf : O.pfFind h pos with
      | none => exact (F.none_ref R hpos hf).symm
      | some cand =>
        obtain ⟨h1, h2, h3⟩ := F.some_ref R hpos hf
        -- the verification of the candidate (the code after the `IsComplete` block)
        have verify : (if P.hasDFA = true then
              match O.fwdSearchAtAnchored h cand with
              | some e => some (cand, e)
              | none => candLoop O P h fuel (cand + 1)
            else
              match O.pike h cand with
              | some (s, e) => if s = cand then some (s, e) else candLoop O P h fuel (cand + 1)
              | none => candLoop O P h fuel (cand + 1)) = ref h pos := by
          rw [← h3]
          have hnext : (∀ e, ¬ Mt h cand e) → candLoop O P h fuel (cand + 1) = ref h cand := by
            intro hno
            rw [ih (cand + 1) (by omega) (by omega)]
            exact R.skip (Nat.le_succ _) (by omega) (fun s e g1 g2 => by
              have : s = cand := by omega
              subst this
              exact hno e)
          by_cases hd : P.hasDFA = true
          · rw [if_pos hd]
            have AA := A hd
            cases ha : O.fwdSearchAtAnchored h cand with
            | none => exact hnext (AA.anch_none cand (by omega) ha)
            | some e =>
              have hm := AA.anch_some cand e (by omega) ha
              obtain ⟨s', e', hr⟩ := R.toRefSpec.some_of (a := cand) (by omega) (Nat.le_refl _) (by omega) hm
              obtain ⟨g1, _, _⟩ := R.ref_sound cand s' e' (by omega) hr
              have g2 := R.ref_leftmost cand s' e' (by omega) hr cand e (Nat.le_refl _) hm
              have : s' = cand := by omega
              subst this
              have := AA.anch_ref s' e' (by omega) hr
              rw [ha] at this
              cases this
              exact hr.symm
          · rw [if_neg hd, K cand (by omega)]
            cases hr : ref h cand with
            | none =>
              have := hnext (fun e hm => R.ref_none cand (by omega) hr cand e (Nat.le_refl _) (by omega) hm)
              rw [hr] at this
              exact this
            | some se =>
              obtain ⟨s, e⟩ := se
              show (if s = cand then some (s, e) else candLoop O P h fuel (cand + 1)) = some (s, e)
              by_cases hs : s = cand
              · rw [if_pos hs]
              · rw [if_neg hs]
                have := hnext (fun e' hm => hs (by
                  have g1 := (R.ref_sound cand s e (by omega) hr).1
                  have g2 := R.ref_leftmost cand s e (by omega) hr cand e' (Nat.le_refl _) hm
                  omega))
                rw [hr] at this
                exact this
        show (match (if P.pfComplete = true then
                  if P.literalLen > 0 then some (cand, cand + P.literalLen)
                  else if P.pfHasFindMatch = true then O.pfFindMatch h pos else none
                else none : Option Span) with
              | some r => some r
              | none => _) = ref h pos
        by_cases hc : P.pfComplete = true
        · rw [if_pos hc]
          by_cases hL : P.literalLen > 0
          · rw [if_pos hL]
            exact (hpc hc hL pos cand hpos hf).symm
          · rw [if_neg hL]
            by_cases hm : P.pfHasFindMatch = true
            · rw [if_pos hm, hfm hc hm pos hpos]
              cases hr : ref h pos with
              | none => rw [hr] at verify; exact verify
              | some r => rfl
            · rw [if_neg hm]
              exact verify
        · rw [if_neg hc]
          exact verify
    · rw [if_neg hlt]
      have : pos = h.size := by omega
      subst this
      exact (F.end_none R).symm

/-! ### UseNFA -/

theorem nfaFrom_eq_ref (K : PikeOK O ref h) (hbt : useBT P = true → BtOK O ref h) {a : Nat} (ha : a ≤ h.size) :
    nfaFrom O P h a = ref h a := by
  unfold nfaFrom
  by_cases hu : (useBT P && O.btCanHandle (h.size - a)) = true
  · rw [if_pos hu]
    simp only [Bool.and_eq_true] at hu
    exact hbt hu.1 a ha hu.2
  · rw [if_neg hu]
    exact K a ha

/-- `findIndicesNFAAt` / `findIndicesNFAAtWithState`: the prefilter is only used (and only has to be sound) when it does not
    have partial coverage; the backtracker only when `useBT` -/
theorem findIndicesNFAAt_eq_ref (R : RefOK Mt ref h) (K : PikeOK O ref h) (hbt : useBT P = true → BtOK O ref h)
    (hpf : P.hasPrefilter = true → P.prefilterPartialCoverage = false → PfOK O Mt h) {at_ : Nat} (hat : at_ ≤ h.size) :
    findIndicesNFAAt O P h at_ = ref h at_ := by
  unfold findIndicesNFAAt
  by_cases hc : (P.hasPrefilter && !P.prefilterPartialCoverage) = true
  · rw [if_pos hc]
    simp only [Bool.and_eq_true, Bool.not_eq_true'] at hc
    have F := hpf hc.1 hc.2
    by_cases hge : at_ ≥ h.size
    · rw [if_pos hge]
      have : at_ = h.size := by omega
      subst this
      exact (F.end_none R).symm
    · rw [if_neg hge]
      cases hf : O.pfFind h at_ with
      | none => exact (F.none_ref R hat hf).symm
      | some pos =>
        obtain ⟨h1, h2, h3⟩ := F.some_ref R hat hf
        show nfaFrom O P h pos = ref h at_
        rw [nfaFrom_eq_ref K hbt (by omega), h3]
  · rw [if_neg hc]
    exact nfaFrom_eq_ref K hbt hat

theorem findIndicesNFA_eq_ref (R : RefOK Mt ref h) (K : PikeOK O ref h) (hbt : useBT P = true → BtOK O ref h)
    (hpf : P.hasPrefilter = true → P.prefilterPartialCoverage = false → PfOK O Mt h) :
    findIndicesNFA O P h = ref h 0 := by
  have hat : 0 ≤ h.size := Nat.zero_le _
  unfold findIndicesNFA
  by_cases hc : (P.hasPrefilter && !P.prefilterPartialCoverage) = true
  · rw [if_pos hc]
    simp only [Bool.and_eq_true, Bool.not_eq_true'] at hc
    have F := hpf hc.1 hc.2
    cases hf : O.pfFind h 0 with
    | none => exact (F.none_ref R hat hf).symm
    | some pos =>
      obtain ⟨h1, h2, h3⟩ := F.some_ref R hat hf
      show nfaFrom O P h pos = ref h 0
      rw [nfaFrom_eq_ref K hbt (by omega), h3]
  · rw [if_neg hc]
    exact nfaFrom_eq_ref K hbt hat

/-! ### UseBoth -/

theorem adaptiveFrom_eq_ref (R : RefOK Mt ref h) (K : PikeOK O ref h) (F : PfOK O Mt h)
    (hpc : P.pfComplete = true → P.literalLen > 0 → PfCompleteOK O P ref h) {a pos : Nat} (ha : a ≤ h.size)
    (hf : O.pfFind h a = some pos) : adaptiveFrom O P h pos = ref h a := by
  obtain ⟨h1, h2, h3⟩ := F.some_ref R ha hf
  unfold adaptiveFrom
  by_cases hc : (P.pfComplete && decide (P.literalLen > 0)) = true
  · rw [if_pos hc]
    simp only [Bool.and_eq_true, decide_eq_true_eq] at hc
    exact (hpc hc.1 hc.2 a pos ha hf).symm
  · rw [if_neg hc, K pos (by omega), h3]

/-- `findIndicesAdaptiveAt` / `findIndicesAdaptiveAtWithState`.  What `dfa.FindAt` answers is irrelevant for the result (it
    only selects which of two exact engines runs). -/
theorem findIndicesAdaptiveAt_eq_ref (R : RefOK Mt ref h) (K : PikeOK O ref h) (hbt : useBT P = true → BtOK O ref h)
    (hpf : P.hasPrefilter = true → PfOK O Mt h)
    (hpc : P.hasPrefilter = true → P.pfComplete = true → P.literalLen > 0 → PfCompleteOK O P ref h)
    {at_ : Nat} (hat : at_ ≤ h.size) : findIndicesAdaptiveAt O P h at_ = ref h at_ := by
  unfold findIndicesAdaptiveAt
  by_cases hc : (P.hasPrefilter && P.hasDFA) = true
  · rw [if_pos hc]
    simp only [Bool.and_eq_true] at hc
    have F := hpf hc.1
    cases hf : O.pfFind h at_ with
    | none => exact (F.none_ref R hat hf).symm
    | some pos => exact adaptiveFrom_eq_ref R K F (hpc hc.1) hat hf
  · rw [if_neg hc]
    by_cases hd : (P.hasDFA && (O.fwdFindAt h at_).isSome) = true
    · rw [if_pos hd]; exact K at_ hat
    · rw [if_neg hd]; exact findIndicesNFAAt_eq_ref R K hbt (fun hp _ => hpf hp) hat

/-- `findIndicesAdaptive`: additionally, a prefilter that implements `FindMatch` is trusted to BE the search -/
theorem findIndicesAdaptive_eq_ref (R : RefOK Mt ref h) (K : PikeOK O ref h) (hbt : useBT P = true → BtOK O ref h)
    (hpf : P.hasPrefilter = true → PfOK O Mt h)
    (hpc : P.hasPrefilter = true → P.pfComplete = true → P.literalLen > 0 → PfCompleteOK O P ref h)
    (hfm : P.hasPrefilter = true → P.hasDFA = true → P.pfHasFindMatch = true → PfMatchOK O ref h) :
    findIndicesAdaptive O P h = ref h 0 := by
  have hat : 0 ≤ h.size := Nat.zero_le _
  unfold findIndicesAdaptive
  by_cases hc : (P.hasPrefilter && P.hasDFA) = true
  · rw [if_pos hc]
    simp only [Bool.and_eq_true] at hc
    have F := hpf hc.1
    by_cases hm : P.pfHasFindMatch = true
    · rw [if_pos hm]; exact hfm hc.1 hc.2 hm 0 hat
    · rw [if_neg hm]
      cases hf : O.pfFind h 0 with
      | none => exact (F.none_ref R hat hf).symm
      | some pos => exact adaptiveFrom_eq_ref R K F (hpc hc.1) hat hf
  · rw [if_neg hc]
    by_cases hd : (P.hasDFA && (O.fwdFindAt h 0).isSome) = true
    · rw [if_pos hd]; exact K 0 hat
    · rw [if_neg hd]; exact findIndicesNFA_eq_ref R K hbt (fun hp _ => hpf hp)

/-! ### UseBoundedBacktracker -/

/-- first-byte rejection is sound: a haystack whose first byte is not in the set has no match from 0 -/
def FirstByteOK (O : Oracles) (P : Params) (ref : Bytes → Nat → Option Span) (h : Bytes) : Prop :=
  firstByteRejects O P h = true → ref h 0 = none

theorem dfaFallback_iff : dfaFallback P = true ↔ P.longest = false ∧ P.hasDFA = true ∧ P.hasReverseDFA = true := by
  unfold dfaFallback
  cases P.longest <;> cases P.hasDFA <;> cases P.hasReverseDFA <;> decide

/-- `findIndicesBoundedBacktracker`.  `hbt'`: in THIS strategy the backtracker is used whatever `canMatchEmpty` says;
    `hbi`: the `CanHandle` fallback is the two-pass DFA search, which finds LEFTMOST-FIRST spans — since ecab302 the code takes
    it in leftmost-first mode only (`dfaFallback`), so the DFA contract is only needed there and the theorem holds in both
    modes (in leftmost-longest mode `ref` is the leftmost-longest reference and the fallback is the Pike VM) -/
theorem findIndicesBT_eq_ref (R : RefOK Mt ref h) (K : PikeOK O ref h) (hbt : useBT P = true → BtOK O ref h)
    (hbt' : P.hasBT = true → BtOK O ref h)
    (hpf : P.hasPrefilter = true → P.prefilterPartialCoverage = false → PfOK O Mt h)
    (hfb : FirstByteOK O P ref h)
    (hbi : P.hasBT = true → P.longest = false → P.hasDFA = true → P.hasReverseDFA = true → O.btCanHandle h.size = false →
      BiOK O Mt ref h) :
    findIndicesBT O P h = ref h 0 := by
  have hat : 0 ≤ h.size := Nat.zero_le _
  unfold findIndicesBT
  by_cases hb : P.hasBT = true
  · rw [if_neg (by rw [hb]; decide)]
    by_cases hf : firstByteRejects O P h = true
    · rw [if_pos hf]; exact (hfb hf).symm
    · rw [if_neg hf]
      cases hch : O.btCanHandle h.size with
      | true =>
        simp only [Bool.not_true, Bool.and_false, Bool.false_eq_true, ↓reduceIte]
        exact hbt' hb 0 hat hch
      | false =>
        simp only [Bool.not_false, Bool.and_true, ↓reduceIte]
        by_cases ha : P.alwaysAnchored = true
        · rw [if_pos ha]; exact K 0 hat
        · rw [if_neg ha]
          by_cases hd : dfaFallback P = true
          · rw [if_pos hd]
            obtain ⟨d1, d2, d3⟩ := dfaFallback_iff.mp hd
            exact bidirectionalLongest_eq_ref R (hbi hb d1 d2 d3 hch) hat
          · rw [if_neg hd]; exact K 0 hat
  · rw [if_pos (by simpa using hb)]
    exact findIndicesNFA_eq_ref R K hbt hpf

/-- the backtrackers run on a slice `haystack[lo:hi]` answer the reference of THAT haystack (in the mode at hand: since
    b09f397 `SetLongest` configures the ASCII backtracker as well as the general one) -/
structure SliceOK (O : Oracles) (ref : Bytes → Nat → Option Span) (h : Bytes) : Prop where
  btSl : ∀ lo hi, lo ≤ hi → hi ≤ h.size → O.btCanHandle (hi - lo) = true → O.btSlice h lo hi = ref (h.extract lo hi) 0
  /-- the ASCII automaton is equivalent on ASCII input only -/
  asSl : ∀ lo hi, lo ≤ hi → hi ≤ h.size → isASCIIIn h lo hi = true → O.asciiCanHandle (hi - lo) = true →
    O.asciiSlice h lo hi = ref (h.extract lo hi) 0

/-- slicing the haystack at `at` does not change the reference (true for `at = 0`, and for patterns without look-behind) -/
def SliceInv (ref : Bytes → Nat → Option Span) (h : Bytes) (at_ : Nat) : Prop :=
  shift at_ (ref (h.extract at_ h.size) 0) = ref h at_

/-- `findIndicesBoundedBacktrackerAt`.  Since fffbd3b the ASCII check covers all of `haystack[at:]`, which is exactly the
    slice the ASCII automaton then runs on: no hypothesis about unread bytes is left.  Since ecab302 the two-pass fallback is
    taken in leftmost-first mode only: `hbi` is only needed there, the theorem holds in both modes. -/
theorem findIndicesBTAt_eq_ref (R : RefOK Mt ref h) (K : PikeOK O ref h) (hbt : useBT P = true → BtOK O ref h)
    (hpf : P.hasPrefilter = true → P.prefilterPartialCoverage = false → PfOK O Mt h)
    (hbi : P.hasBT = true → P.longest = false → P.hasDFA = true → P.hasReverseDFA = true → BiOK O Mt ref h)
    (S : P.hasBT = true → SliceOK O ref h) {at_ : Nat} (hat : at_ ≤ h.size)
    (hsl : P.hasBT = true → SliceInv ref h at_) :
    findIndicesBTAt O P h at_ = ref h at_ := by
  unfold findIndicesBTAt
  by_cases hb : P.hasBT = true
  · rw [if_neg (by rw [hb]; decide)]
    have SS := S hb
    have fallback : ∀ (x : Option Span), x = ref h at_ →
        (if dfaFallback P = true then bidirectionalLongest O h at_ else x) = ref h at_ := by
      intro x hx
      by_cases hd : dfaFallback P = true
      · rw [if_pos hd]
        obtain ⟨d1, d2, d3⟩ := dfaFallback_iff.mp hd
        exact bidirectionalLongest_eq_ref R (hbi hb d1 d2 d3) hat
      · rw [if_neg hd]; exact hx
    show (if (P.hasAsciiBT && isASCIIIn h at_ h.size) = true then _ else _) = ref h at_
    by_cases hA : (P.hasAsciiBT && isASCIIIn h at_ h.size) = true
    · rw [if_pos hA]
      simp only [Bool.and_eq_true] at hA
      cases hch : O.asciiCanHandle (h.size - at_) with
      | false =>
        simp only [Bool.not_false, ↓reduceIte]
        exact fallback _ (K at_ hat)
      | true =>
        simp only [Bool.not_true, Bool.false_eq_true, ↓reduceIte]
        rw [SS.asSl at_ h.size hat (Nat.le_refl _) hA.2 hch]
        exact hsl hb
    · rw [if_neg hA]
      cases hch : O.btCanHandle (h.size - at_) with
      | false =>
        simp only [Bool.not_false, ↓reduceIte]
        exact fallback _ (findIndicesNFAAt_eq_ref R K hbt hpf hat)
      | true =>
        simp only [Bool.not_true, Bool.false_eq_true, ↓reduceIte]
        rw [SS.btSl at_ h.size hat (Nat.le_refl _) hch]
        exact hsl hb
  · rw [if_pos (by simpa using hb)]
    exact findIndicesNFAAt_eq_ref R K hbt hpf hat

/-- the "V12 windowed" searches of `findIndicesBoundedBacktrackerAtWithState` run the backtracker on `haystack[at:at+max]`
    and return what it finds: the theorem needs that to be the reference's span (it is not in general: `cex_window`) -/
def WindowOK (O : Oracles) (ref : Bytes → Nat → Option Span) (h : Bytes) (at_ : Nat) : Prop :=
  (O.btMaxInput > 0 → h.size - at_ > O.btMaxInput → ∀ r, shift at_ (O.btSlice h at_ (at_ + O.btMaxInput)) = some r →
    ref h at_ = some r) ∧
  (O.asciiMaxInput > 0 → h.size - at_ > O.asciiMaxInput → ∀ r, shift at_ (O.asciiSlice h at_ (at_ + O.asciiMaxInput)) = some r →
    ref h at_ = some r)

/-- `findIndicesBoundedBacktrackerAtWithState` (both modes; the windows are reached whenever the two-pass fallback is not
    taken — in leftmost-longest mode also with both DFAs present: `hw` is guarded by `dfaFallback P = false`) -/
theorem findIndicesBTAtWithState_eq_ref (R : RefOK Mt ref h) (K : PikeOK O ref h) (hbt : useBT P = true → BtOK O ref h)
    (hpf : P.hasPrefilter = true → P.prefilterPartialCoverage = false → PfOK O Mt h)
    (hfb : FirstByteOK O P ref h)
    (hbi : P.hasBT = true → P.longest = false → P.hasDFA = true → P.hasReverseDFA = true → BiOK O Mt ref h)
    (S : P.hasBT = true → SliceOK O ref h) {at_ : Nat} (hat : at_ ≤ h.size)
    (hsl : P.hasBT = true → SliceInv ref h at_)
    (hw : P.hasBT = true → dfaFallback P = false → WindowOK O ref h at_) :
    findIndicesBTAtWithState O P h at_ = ref h at_ := by
  unfold findIndicesBTAtWithState
  by_cases hb : P.hasBT = true
  · rw [if_neg (by rw [hb]; decide)]
    by_cases hf : (decide (at_ = 0) && firstByteRejects O P h) = true
    · rw [if_pos hf]
      simp only [Bool.and_eq_true, decide_eq_true_eq] at hf
      rw [hf.1]
      exact (hfb hf.2).symm
    · rw [if_neg hf]
      have SS := S hb
      have fallback : ∀ (w : Option Span),
          (dfaFallback P = false → ∀ r, w = some r → ref h at_ = some r) →
          (if dfaFallback P = true then bidirectionalLongest O h at_
           else match w with | some r => some r | none => O.pike h at_) = ref h at_ := by
        intro w hw'
        by_cases hd : dfaFallback P = true
        · rw [if_pos hd]
          obtain ⟨d1, d2, d3⟩ := dfaFallback_iff.mp hd
          exact bidirectionalLongest_eq_ref R (hbi hb d1 d2 d3) hat
        · rw [if_neg hd]
          cases hww : w with
          | none => exact K at_ hat
          | some r => exact (hw' (by simpa using hd) r hww).symm
      show (if (P.hasAsciiBT && isASCIIIn h at_ h.size) = true then _ else _) = ref h at_
      by_cases hA : (P.hasAsciiBT && isASCIIIn h at_ h.size) = true
      · rw [if_pos hA]
        simp only [Bool.and_eq_true] at hA
        cases hch : O.asciiCanHandle (h.size - at_) with
        | false =>
          simp only [Bool.not_false, ↓reduceIte]
          apply fallback
          intro hd r hr
          have W := (hw hb hd).2
          by_cases hc : (decide (O.asciiMaxInput > 0) && decide (h.size - at_ > O.asciiMaxInput)) = true
          · rw [if_pos hc] at hr
            simp only [Bool.and_eq_true, decide_eq_true_eq] at hc
            exact W hc.1 hc.2 r hr
          · rw [if_neg hc] at hr; cases hr
        | true =>
          simp only [Bool.not_true, Bool.false_eq_true, ↓reduceIte]
          rw [SS.asSl at_ h.size hat (Nat.le_refl _) hA.2 hch]
          exact hsl hb
      · rw [if_neg hA]
        cases hch : O.btCanHandle (h.size - at_) with
        | false =>
          simp only [Bool.not_false, ↓reduceIte]
          apply fallback
          intro hd r hr
          have W := (hw hb hd).1
          by_cases hc : (decide (O.btMaxInput > 0) && decide (h.size - at_ > O.btMaxInput)) = true
          · rw [if_pos hc] at hr
            simp only [Bool.and_eq_true, decide_eq_true_eq] at hc
            exact W hc.1 hc.2 r hr
          · rw [if_neg hc] at hr; cases hr
        | true =>
          simp only [Bool.not_true, Bool.false_eq_true, ↓reduceIte]
          rw [SS.btSl at_ h.size hat (Nat.le_refl _) hch]
          exact hsl hb
  · rw [if_pos (by simpa using hb)]
    exact findIndicesNFAAt_eq_ref R K hbt hpf hat

/-! ### leftmost-longest mode: the DFA functions hand over to the Pike VM -/

theorem findIndicesDFA_longest (hl : P.longest = true) : findIndicesDFA O P h = O.pike h 0 := by
  unfold findIndicesDFA; rw [if_pos hl]

theorem findIndicesDFAAt_longest (hl : P.longest = true) (at_ : Nat) : findIndicesDFAAt O P h at_ = O.pike h at_ := by
  unfold findIndicesDFAAt; rw [if_pos hl]

/-! ### all contracts, and the dispatch -/

/-- every component contract, each guarded by the flag under which the dispatch calls the component.  `bi` (the DFA pair) is
    demanded in leftmost-first mode only: the DFAs do not honour `Longest()`. -/
structure OraclesOK (O : Oracles) (P : Params) (Mt : Bytes → Nat → Nat → Prop) (ref : Bytes → Nat → Option Span) (h : Bytes) :
    Prop extends RefOK Mt ref h where
  pike : PikeOK O ref h
  pf : P.hasPrefilter = true → P.prefilterPartialCoverage = false → PfOK O Mt h
  pfc : P.hasPrefilter = true → P.pfComplete = true → P.literalLen > 0 → PfCompleteOK O P ref h
  pfm : P.hasPrefilter = true → P.pfHasFindMatch = true → PfMatchOK O ref h
  bi : P.longest = false → P.hasReverseDFA = true → BiOK O Mt ref h
  im : P.hasDFA = true → IsMatchOK O ref h
  bt : P.hasBT = true → BtOK O ref h
  sl : P.hasBT = true → SliceOK O ref h
  fb : FirstByteOK O P ref h
  anchored : P.alwaysAnchored = true → ∀ s e, s ≤ h.size → Mt h s e → s = 0

/-- the hypotheses of the UseDFA / UseBoth functions on the engine flags: leftmost-first mode for the DFA paths, and a
    prefilter WITHOUT partial coverage (these functions do not look at the flag; `findIndicesNFA*` do) -/
structure DfaFlags (P : Params) : Prop where
  cov : P.hasPrefilter = true → P.prefilterPartialCoverage = false
  dfa : P.hasDFA = true

theorem useBT_hasBT (hu : useBT P = true) : P.hasBT = true := by
  unfold useBT at hu
  simp only [Bool.and_eq_true] at hu
  exact hu.1

theorem findIndicesNFA_ok (S : OraclesOK O P Mt ref h) : findIndicesNFA O P h = ref h 0 :=
  findIndicesNFA_eq_ref S.toRefOK S.pike (fun hu => S.bt (useBT_hasBT hu)) S.pf

theorem findIndicesNFAAt_ok (S : OraclesOK O P Mt ref h) {at_ : Nat} (hat : at_ ≤ h.size) :
    findIndicesNFAAt O P h at_ = ref h at_ :=
  findIndicesNFAAt_eq_ref S.toRefOK S.pike (fun hu => S.bt (useBT_hasBT hu)) S.pf hat

theorem findIndicesDFA_ok (S : OraclesOK O P Mt ref h) (hl : P.longest = false) (D : DfaFlags P) :
    findIndicesDFA O P h = ref h 0 :=
  findIndicesDFA_eq_ref S.toRefOK hl S.pike (fun hp => S.pf hp (D.cov hp)) S.pfc (S.bi hl) (fun _ _ => S.im D.dfa) S.anchored

theorem findIndicesDFAAt_ok (S : OraclesOK O P Mt ref h) (hl : P.longest = false) (D : DfaFlags P) {at_ : Nat}
    (hat : at_ ≤ h.size) : findIndicesDFAAt O P h at_ = ref h at_ :=
  findIndicesDFAAt_eq_ref S.toRefOK hl S.pike (fun hp => S.pf hp (D.cov hp)) (S.bi hl) (fun _ _ => S.im D.dfa) S.anchored hat

theorem findIndicesAdaptive_ok (S : OraclesOK O P Mt ref h) (hcov : P.hasPrefilter = true → P.prefilterPartialCoverage = false) :
    findIndicesAdaptive O P h = ref h 0 :=
  findIndicesAdaptive_eq_ref S.toRefOK S.pike (fun hu => S.bt (useBT_hasBT hu)) (fun hp => S.pf hp (hcov hp)) S.pfc
    (fun hp _ hm => S.pfm hp hm)

theorem findIndicesAdaptiveAt_ok (S : OraclesOK O P Mt ref h) (hcov : P.hasPrefilter = true → P.prefilterPartialCoverage = false)
    {at_ : Nat} (hat : at_ ≤ h.size) : findIndicesAdaptiveAt O P h at_ = ref h at_ :=
  findIndicesAdaptiveAt_eq_ref S.toRefOK S.pike (fun hu => S.bt (useBT_hasBT hu)) (fun hp => S.pf hp (hcov hp)) S.pfc hat

/-- `findIndicesBoundedBacktracker`, both modes (until ecab302 this needed `longest = false`, or no DFA pair, or `CanHandle`) -/
theorem findIndicesBT_ok (S : OraclesOK O P Mt ref h) : findIndicesBT O P h = ref h 0 :=
  findIndicesBT_eq_ref S.toRefOK S.pike (fun hu => S.bt (useBT_hasBT hu)) S.bt S.pf S.fb (fun _ hl _ hr _ => S.bi hl hr)

/-- `findIndicesBoundedBacktrackerAt`, both modes, whatever the bytes of the haystack (until fffbd3b / ecab302 this needed
    `AsciiTailOK` and `longest = false`) -/
theorem findIndicesBTAt_ok (S : OraclesOK O P Mt ref h) {at_ : Nat} (hat : at_ ≤ h.size)
    (hsl : P.hasBT = true → SliceInv ref h at_) :
    findIndicesBTAt O P h at_ = ref h at_ :=
  findIndicesBTAt_eq_ref S.toRefOK S.pike (fun hu => S.bt (useBT_hasBT hu)) S.pf (fun _ hl _ hr => S.bi hl hr) S.sl hat hsl

theorem findIndicesBTAtWithState_ok (S : OraclesOK O P Mt ref h) {at_ : Nat} (hat : at_ ≤ h.size)
    (hsl : P.hasBT = true → SliceInv ref h at_)
    (hw : P.hasBT = true → dfaFallback P = false → WindowOK O ref h at_) :
    findIndicesBTAtWithState O P h at_ = ref h at_ :=
  findIndicesBTAtWithState_eq_ref S.toRefOK S.pike (fun hu => S.bt (useBT_hasBT hu)) S.pf S.fb (fun _ hl _ hr => S.bi hl hr) S.sl
    hat hsl hw

/-- an always-anchored pattern has no match from `at > 0` (the early return of `FindIndicesAt`) -/
theorem anchored_none (S : OraclesOK O P Mt ref h) (ha : P.alwaysAnchored = true) {at_ : Nat} (hat : at_ ≤ h.size)
    (hpos : at_ > 0) : ref h at_ = none := by
  apply S.toRefSpec.none_of hat
  intro s e h1 h2 hm
  have := S.anchored ha s e h2 hm
  omega

/-- what the strategy at hand needs beyond `OraclesOK` -/
def StratFlags (O : Oracles) (P : Params) (ref : Bytes → Nat → Option Span) (h : Bytes) (at_ : Nat) : Strategy → Prop
  | .nfa => True
  | .dfa => P.longest = false ∧ DfaFlags P
  | .both => P.hasPrefilter = true → P.prefilterPartialCoverage = false
  | .bt => (P.hasBT = true → SliceInv ref h at_) ∧ (P.hasBT = true → dfaFallback P = false → WindowOK O ref h at_)

/-- **`FindIndices` is the reference search** for the strategies UseNFA / UseDFA / UseBoth / UseBoundedBacktracker -/
theorem findIndices_eq_ref (S : OraclesOK O P Mt ref h) (st : Strategy) (hf : StratFlags O P ref h 0 st) :
    findIndices O P st h = ref h 0 := by
  cases st with
  | nfa => exact findIndicesNFA_ok S
  | dfa => exact findIndicesDFA_ok S hf.1 hf.2
  | both => exact findIndicesAdaptive_ok S hf
  | bt => exact findIndicesBT_ok S

/-- **`FindIndicesAt` is the reference search** -/
theorem findIndicesAt_eq_ref (S : OraclesOK O P Mt ref h) (st : Strategy) {at_ : Nat} (hat : at_ ≤ h.size)
    (hf : StratFlags O P ref h at_ st) : findIndicesAt O P st h at_ = ref h at_ := by
  unfold findIndicesAt
  by_cases hc : (decide (at_ > 0) && P.alwaysAnchored) = true
  · rw [if_pos hc]
    simp only [Bool.and_eq_true, decide_eq_true_eq] at hc
    exact (anchored_none S hc.2 hat hc.1).symm
  · rw [if_neg hc]
    cases st with
    | nfa => exact findIndicesNFAAt_ok S hat
    | dfa => exact findIndicesDFAAt_ok S hf.1 hf.2 hat
    | both => exact findIndicesAdaptiveAt_ok S hf hat
    | bt => exact findIndicesBTAt_ok S hat hf.1

/-- **`findIndicesAtWithState` (the `FindAll` / `Count` loops) is the reference search** -/
theorem findIndicesAtWithState_eq_ref (S : OraclesOK O P Mt ref h) (st : Strategy) {at_ : Nat} (hat : at_ ≤ h.size)
    (hf : StratFlags O P ref h at_ st) : findIndicesAtWithState O P st h at_ = ref h at_ := by
  unfold findIndicesAtWithState
  by_cases hc : (decide (at_ > 0) && P.alwaysAnchored) = true
  · rw [if_pos hc]
    simp only [Bool.and_eq_true, decide_eq_true_eq] at hc
    exact (anchored_none S hc.2 hat hc.1).symm
  · rw [if_neg hc]
    cases st with
    | nfa => exact findIndicesNFAAt_ok S hat
    | dfa => exact findIndicesDFAAt_ok S hf.1 hf.2 hat
    | both => exact findIndicesAdaptiveAt_ok S hf hat
    | bt => exact findIndicesBTAtWithState_ok S hat hf.1 hf.2

/-! ### `IsMatch` (meta/ismatch.go): UseNFA / UseDFA / UseBoth -/

/-- the boolean entry points of the NFA engines agree with the reference -/
structure IsMatchEnginesOK (O : Oracles) (P : Params) (ref : Bytes → Nat → Option Span) (h : Bytes) : Prop where
  pikeIs : O.pikeIsMatch h = (ref h 0).isSome
  btIs : P.hasBT = true → O.btCanHandle h.size = true → O.btIsMatch h = (ref h 0).isSome

/-- `isMatchNFA`: the prefilter (used whatever `prefilterPartialCoverage` says) must never skip; the backtracker (used whatever
    `canMatchEmpty` says) must be exact -/
theorem isMatchNFA_eq_ref (R : RefOK Mt ref h) (K : PikeOK O ref h) (hbt : P.hasBT = true → BtOK O ref h)
    (hpf : P.hasPrefilter = true → PfOK O Mt h) (E : IsMatchEnginesOK O P ref h) :
    isMatchNFA O P h = (ref h 0).isSome := by
  have hat : 0 ≤ h.size := Nat.zero_le _
  unfold isMatchNFA
  by_cases hp : P.hasPrefilter = true
  · rw [if_pos hp]
    have F := hpf hp
    cases hf : O.pfFind h 0 with
    | none => rw [F.none_ref R hat hf]; rfl
    | some pos =>
      obtain ⟨h1, h2, h3⟩ := F.some_ref R hat hf
      show (if (P.hasBT && O.btCanHandle (h.size - pos)) = true then (O.bt h pos).isSome else (O.pike h pos).isSome) = _
      by_cases hu : (P.hasBT && O.btCanHandle (h.size - pos)) = true
      · rw [if_pos hu]
        simp only [Bool.and_eq_true] at hu
        rw [hbt hu.1 pos (by omega) hu.2, h3]
      · rw [if_neg hu, K pos (by omega), h3]
  · rw [if_neg hp]
    by_cases hu : (P.hasBT && O.btCanHandle h.size) = true
    · rw [if_pos hu]
      simp only [Bool.and_eq_true] at hu
      exact E.btIs hu.1 hu.2
    · rw [if_neg hu]; exact E.pikeIs

/-- `isMatchDFA`: here the DFA's answer is final — `IsMatch` must be exact (no false positives either) -/
theorem isMatchDFA_eq_ref (him : O.fwdIsMatchAt h 0 = (ref h 0).isSome) : isMatchDFA O h = (ref h 0).isSome := him

/-- `isMatchAdaptive`: a complete prefilter's candidate must be a match; the DFA's `IsMatch` must be exact -/
theorem isMatchAdaptive_eq_ref (R : RefOK Mt ref h) (K : PikeOK O ref h) (hbt : P.hasBT = true → BtOK O ref h)
    (hpf : P.hasPrefilter = true → PfOK O Mt h) (E : IsMatchEnginesOK O P ref h)
    (hpc : P.hasPrefilter = true → P.pfComplete = true → ∀ p, O.pfFind h 0 = some p → (ref h 0).isSome = true)
    (him : P.hasPrefilter = false → P.hasDFA = true → O.fwdIsMatchAt h 0 = (ref h 0).isSome) :
    isMatchAdaptive O P h = (ref h 0).isSome := by
  have hat : 0 ≤ h.size := Nat.zero_le _
  have N := isMatchNFA_eq_ref R K hbt hpf E
  unfold isMatchAdaptive
  by_cases hp : P.hasPrefilter = true
  · rw [if_pos hp]
    have F := hpf hp
    cases hf : O.pfFind h 0 with
    | none => rw [F.none_ref R hat hf]; rfl
    | some pos =>
      show (if P.pfComplete = true then true else isMatchNFA O P h) = _
      by_cases hc : P.pfComplete = true
      · rw [if_pos hc, hpc hp hc pos hf]
      · rw [if_neg hc]; exact N
  · rw [if_neg hp]
    by_cases hd : P.hasDFA = true
    · rw [if_pos hd]
      have I := him (by simpa using hp) hd
      cases hm : O.fwdIsMatchAt h 0 with
      | true => rw [← I, hm]; rfl
      | false =>
        simp only [Bool.false_eq_true, ↓reduceIte]
        by_cases hn : O.dfaCacheNearlyFull h = true
        · rw [if_pos hn]; exact N
        · rw [if_neg hn, ← I, hm]
    · rw [if_neg hd]; exact N

end

/-! ### why the hypotheses are needed: counter-models (brute-force oracles over explicit tables)

Each example runs the MODEL on tables that violate exactly one hypothesis and shows the wrong answer next to the reference's
(the `pike` table, which is the reference in all of them except `cex_restart`).  (`a` = 97, `b` = 98, `c` = 99, `x` = 120.)
The `cex_*_fixed` examples are the former counter-models of defects that were repaired in the code: same tables, same inputs,
and the model (which follows the repaired code) now returns the reference.

* `cex_pf_skips` (`PfOK.pf_some`, e.g. a partial-coverage prefilter): pattern `a` on "aa", a prefilter whose first candidate is 1:
  `findIndicesDFAAt` / `findIndicesAdaptiveAt` report [1,2); `findIndicesNFAAt`, which honours `prefilterPartialCoverage`, [0,1).
* `cex_literalLen` (`PfCompleteOK`): `a|bc` on "bc" with a complete prefilter that claims `LiteralLen() = 1`: [0,1) instead of
  [0,2); with `LiteralLen() = 0` (what Teddy answers for literals of unequal length) the Pike VM decides.
* `cex_rev_gives_up` (`BiOK.rev_total`): a reverse DFA that answers -1 turns a match into "no match" (no fallback in the code).
* `cex_longest_fallback_fixed` (was: `OraclesOK.bi` only for `longest = false`; FIXED by ecab302): `[a-z]+?` on "ab" in
  leftmost-longest mode, input too large for the backtracker: the two-pass search would report the leftmost-FIRST span [0,1),
  the reference is [0,2); the code now takes the Pike VM.
  REAL (before the fix): `[a-z]+?` with `Longest()` on 12 MiB of "a": coregex [0 1], regexp [0 12582912].
* `cex_bt_nullable` (`BtOK` under `useBT`): a backtracker that is greedy on `(?:|a)*` ("a": [0,1) instead of [0,0)) is only
  harmless because `canMatchEmpty` keeps it out of `findIndicesNFA*`.
* `cex_anchored_shortcut` (`OraclesOK.anchored`): `IsAlwaysAnchored()` set for a pattern that matches at offset 1.
* `cex_isMatch_false_negative` (`IsMatchOK`).
* `cex_findMatch_incomplete` (`PfMatchOK`): `ab\d` on "ab1" with an INCOMPLETE prefilter that implements `FindMatch`:
  `findIndicesAdaptive` (which does not ask `IsComplete()`) reports the literal's span [0,2), `findIndicesAdaptiveAt` [0,3).
* `cex_first_byte` (`FirstByteOK`).
* `cex_slice` (`SliceInv`): `\bb` on "ab" from 1: the backtracker sees the slice "b", where `\b` holds at 0.
* `cex_ascii_tail_fixed` (was: `AsciiTailOK`; FIXED by fffbd3b): start-anchored pattern, `^a.*b` on "aéb": with the ASCII check
  limited to the first byte(s) the haystack went to the ASCII-only automaton: no match instead of [0,4); the check now reads
  the whole remaining input.
  REAL (before the fix): `^a.*b` on "a/" + 4097×"x" + "éyb.php": `FindIndicesAt(h, 0)` = not found, `FindIndices(h)` = regexp = [0 4103].
* `cex_ascii_longest_fixed` (FIXED by b09f397): the ASCII backtracker in leftmost-longest mode, see its docstring.
* `cex_window` (`WindowOK`): `^[a-z]+` on "aaa", `MaxInputSize() = 2`: the windowed backtracker reports [0,2) instead of [0,3).
  REAL (internal function only): `^[a-z]{1000}[a-z]*` on 40000×"a": `findIndicesAtWithState(h, 0)` = [0 33386], regexp [0 40000].
* `cex_restart` (`RefOK.restart`): a "reference" that is not a scan over start positions breaks prefilter skip-ahead. -/

theorem cex_pf_skips :
    let T : Tables := { mt := fun s e => e == s + 1 && decide (s < 2), pike := fun a => if a < 2 then some (a, a + 1) else none,
                        fwd := fun a => if a < 2 then some (a + 1) else none, pf := fun a => if a ≤ 1 then some 1 else none }
    let P : Params := { hasPrefilter := true, prefilterPartialCoverage := true, hasDFA := true }
    findIndicesDFAAt (bruteOracles T) P #[97, 97] 0 = some (1, 2) ∧
    findIndicesAdaptiveAt (bruteOracles T) P #[97, 97] 0 = some (1, 2) ∧
    findIndicesNFAAt (bruteOracles T) P #[97, 97] 0 = some (0, 1) := by decide

theorem cex_literalLen :
    let T : Tables := { mt := fun s e => s == 0 && e == 2, pike := fun a => if a = 0 then some (0, 2) else none,
                        fwd := fun a => if a = 0 then some 2 else none, pf := fun a => if a = 0 then some 0 else none }
    findIndicesDFA (bruteOracles T) { hasPrefilter := true, pfComplete := true, literalLen := 1, hasDFA := true } #[98, 99] = some (0, 1) ∧
    findIndicesAdaptive (bruteOracles T) { hasPrefilter := true, pfComplete := true, literalLen := 1, hasDFA := true } #[98, 99] = some (0, 1) ∧
    findIndicesDFA (bruteOracles T) { hasPrefilter := true, pfComplete := true, literalLen := 0, hasDFA := true } #[98, 99] = some (0, 2) := by
  decide

theorem cex_rev_gives_up :
    let T : Tables := { mt := fun s e => s == 1 && e == 2, pike := fun a => if a ≤ 1 then some (1, 2) else none,
                        fwd := fun a => if a ≤ 1 then some 2 else none }
    let P : Params := { hasDFA := true, hasReverseDFA := true }
    bidirectionalCore (bruteOracles { T with revGiveUp := true }) P #[120, 97] 0 = none ∧
    findIndicesDFAAt (bruteOracles { T with revGiveUp := true }) P #[120, 97] 0 = none ∧
    findIndicesDFAAt (bruteOracles T) P #[120, 97] 0 = some (1, 2) := by decide

/-- FIXED by ecab302 (`!e.longest &&` in front of every call of `findIndicesBidirectionalDFALongest`).  The tables and inputs
    of the former counter-model `cex_longest_fallback` (`[a-z]+?` on "ab", leftmost-longest mode, input too large for the
    backtracker, both DFAs present; the DFA tables are leftmost-first, the Pike VM / backtracker tables leftmost-longest): all
    three entry points (all five guarded call sites) now report the reference's (= the Pike VM's) span [0,2) — it used to be
    the two-pass search's [0,1).
    Last conjunct: in leftmost-first mode the two-pass search still is the fallback (it answers from the DFA tables). -/
theorem cex_longest_fallback_fixed :
    let T : Tables := { mt := fun s e => decide (s < e) && decide (e ≤ 2), pike := fun a => if a < 2 then some (a, 2) else none,
                        fwd := fun a => if a < 2 then some (a + 1) else none, bt := fun a => if a < 2 then some (a, 2) else none,
                        btLimit := 1 }
    let P : Params := { longest := true, hasBT := true, hasDFA := true, hasReverseDFA := true }
    findIndicesBT (bruteOracles T) P #[97, 98] = some (0, 2) ∧
    findIndicesBTAt (bruteOracles T) P #[97, 98] 0 = some (0, 2) ∧
    findIndicesBTAtWithState (bruteOracles T) P #[97, 98] 0 = some (0, 2) ∧
    findIndicesBTAt (bruteOracles T) { P with hasAsciiBT := true } #[97, 98] 0 = some (0, 2) ∧            -- the ASCII branch's
    findIndicesBTAtWithState (bruteOracles T) { P with hasAsciiBT := true } #[97, 98] 0 = some (0, 2) ∧   -- two call sites
    (bruteOracles T).pike #[97, 98] 0 = some (0, 2) ∧
    findIndicesBT (bruteOracles T) { longest := true, hasBT := true } #[97, 98] = some (0, 2) ∧
    findIndicesBT (bruteOracles { T with btLimit := 2 }) P #[97, 98] = some (0, 2) ∧
    findIndicesBT (bruteOracles T) { P with longest := false } #[97, 98] = some (0, 1) := by decide

theorem cex_bt_nullable :
    let T : Tables := { mt := fun s e => decide (s ≤ e) && decide (e ≤ 1), pike := fun a => if a ≤ 1 then some (a, a) else none,
                        fwd := fun a => if a ≤ 1 then some a else none, bt := fun a => if a ≤ 1 then some (a, 1) else none,
                        btLimit := 9 }
    findIndicesNFA (bruteOracles T) { hasBT := true, canMatchEmpty := false } #[97] = some (0, 1) ∧
    findIndicesNFA (bruteOracles T) { hasBT := true, canMatchEmpty := true } #[97] = some (0, 0) := by decide

theorem cex_anchored_shortcut :
    let T : Tables := { mt := fun s e => s == 1 && e == 2, pike := fun a => if a ≤ 1 then some (1, 2) else none,
                        fwd := fun a => if a ≤ 1 then some 2 else none }
    bidirectionalCore (bruteOracles T) { hasDFA := true, hasReverseDFA := true, alwaysAnchored := true } #[120, 97] 0 = some (0, 2) ∧
    bidirectionalCore (bruteOracles T) { hasDFA := true, hasReverseDFA := true, alwaysAnchored := false } #[120, 97] 0 = some (1, 2) := by
  decide

theorem cex_isMatch_false_negative :
    let T : Tables := { mt := fun s e => s == 0 && e == 1, pike := fun a => if a = 0 then some (0, 1) else none,
                        fwd := fun a => if a = 0 then some 1 else none }
    findIndicesDFAAt (bruteOracles { T with im := fun _ => false }) { hasDFA := true } #[97] 0 = none ∧
    findIndicesDFAAt (bruteOracles T) { hasDFA := true } #[97] 0 = some (0, 1) := by decide

theorem cex_findMatch_incomplete :
    let T : Tables := { mt := fun s e => s == 0 && e == 3, pike := fun a => if a = 0 then some (0, 3) else none,
                        fwd := fun a => if a = 0 then some 3 else none, pf := fun a => if a = 0 then some 0 else none,
                        pfm := fun a => if a = 0 then some (0, 2) else none }
    let P : Params := { hasPrefilter := true, pfHasFindMatch := true, hasDFA := true }
    findIndicesAdaptive (bruteOracles T) P #[97, 98, 49] = some (0, 2) ∧
    findIndicesAdaptiveAt (bruteOracles T) P #[97, 98, 49] 0 = some (0, 3) := by decide

theorem cex_first_byte :
    let T : Tables := { mt := fun s e => s == 0 && e == 1, pike := fun a => if a = 0 then some (0, 1) else none,
                        fwd := fun a => if a = 0 then some 1 else none, bt := fun a => if a = 0 then some (0, 1) else none,
                        btLimit := 9 }
    findIndicesBT (bruteOracles { T with fb := fun _ => false }) { hasBT := true, hasFirstBytes := true, alwaysAnchored := true } #[97] = none ∧
    findIndicesBT (bruteOracles T) { hasBT := true, hasFirstBytes := true, alwaysAnchored := true } #[97] = some (0, 1) := by decide

theorem cex_slice :
    let T : Tables := { mt := fun _ _ => false, pike := fun _ => none, fwd := fun _ => none, bt := fun _ => none,
                        sl := fun lo hi => if lo = 1 ∧ hi = 2 then some (0, 1) else none, btLimit := 9 }
    findIndicesBTAt (bruteOracles T) { hasBT := true } #[97, 98] 1 = some (1, 2) ∧
    findIndicesNFAAt (bruteOracles T) { hasBT := true } #[97, 98] 1 = none := by decide

/-- FIXED by fffbd3b (`simd.IsASCII(remaining)`: the whole remaining input, no 4096-byte prefix).  The tables and inputs of the
    former counter-model `cex_ascii_tail` (`^a.*b` on "aéb", start-anchored, an ASCII-only automaton that finds nothing on
    it): the haystack is not ASCII, so the ASCII automaton is not asked, and both entry points report the reference's span
    [0,4) — with the check cut after the first byte it used to be "no match". -/
theorem cex_ascii_tail_fixed :
    let T : Tables := { mt := fun s e => s == 0 && e == 4, pike := fun a => if a = 0 then some (0, 4) else none,
                        fwd := fun a => if a = 0 then some 4 else none, bt := fun a => if a = 0 then some (0, 4) else none,
                        sl := fun lo hi => if lo = 0 ∧ hi = 4 then some (0, 4) else none, asl := fun _ _ => none,
                        btLimit := 9, asciiLimit := 9 }
    let P : Params := { hasBT := true, hasAsciiBT := true, alwaysAnchored := true, isStartAnchored := true }
    isASCIIIn #[97, 195, 169, 98] 0 1 = true ∧ isASCIIIn #[97, 195, 169, 98] 0 4 = false ∧
    findIndicesBTAt (bruteOracles T) P #[97, 195, 169, 98] 0 = some (0, 4) ∧
    findIndicesBTAtWithState (bruteOracles T) P #[97, 195, 169, 98] 0 = some (0, 4) ∧
    (bruteOracles T).pike #[97, 195, 169, 98] 0 = some (0, 4) := by decide

theorem cex_window :
    let T : Tables := { mt := fun s e => s == 0 && decide (0 < e) && decide (e ≤ 3), pike := fun a => if a = 0 then some (0, 3) else none,
                        fwd := fun a => if a = 0 then some 3 else none, bt := fun a => if a = 0 then some (0, 3) else none,
                        sl := fun lo hi => if lo = 0 then some (0, hi) else none, btLimit := 1, btMax := 2 }
    let P : Params := { hasBT := true, alwaysAnchored := true, isStartAnchored := true }
    findIndicesBTAtWithState (bruteOracles T) P #[97, 97, 97] 0 = some (0, 2) ∧
    findIndicesBTAt (bruteOracles T) P #[97, 97, 97] 0 = some (0, 3) := by decide

/-- `isMatchDFA` trusts the DFA: a false positive of `IsMatch` is a wrong answer there (in `findIndicesDFAAt` it only costs a
    Pike VM run) -/
theorem cex_isMatch_false_positive :
    let T : Tables := { mt := fun _ _ => false, pike := fun _ => none, fwd := fun _ => none, im := fun _ => true }
    isMatchDFA (bruteOracles T) #[97] = true ∧ isMatchNFA (bruteOracles T) {} #[97] = false ∧
    findIndicesDFAAt (bruteOracles T) { hasDFA := true } #[97] 0 = none := by decide

/-- FIXED by b09f397 (`Engine.SetLongest` configures the ASCII backtracker as well) — a fix of the COMPONENT behind
    `Oracles.asciiSlice`, the dispatch is the same.  The inputs of the former counter-model `cex_ascii_longest` (`^.*?b` on "bb",
    leftmost-longest mode), with the ASCII-backtracker table the fixed component produces (leftmost-longest, like `sl`):
    `findIndicesBoundedBacktrackerAt(WithState)` report the reference's span [0,2), as `findIndicesBoundedBacktracker` does.
    Last conjunct: the table of the OLD component (leftmost-first whatever the mode) still yields [0,1) — it violates
    `SliceOK.asSl`, which is a contract the real ASCII backtracker now meets in both modes (no separate caveat is left).
    REAL (before the fix): `^.*?b` with `Longest()`: `ReplaceAllLiteral("bb", "X")` = "Xb", regexp "X". -/
theorem cex_ascii_longest_fixed :
    let T : Tables := { mt := fun s e => s == 0 && decide (0 < e) && decide (e ≤ 2), pike := fun a => if a = 0 then some (0, 2) else none,
                        fwd := fun a => if a = 0 then some 1 else none, bt := fun a => if a = 0 then some (0, 2) else none,
                        sl := fun lo hi => if lo = 0 then some (0, hi) else none, asl := fun lo hi => if lo = 0 then some (0, hi) else none,
                        btLimit := 9, asciiLimit := 9 }
    let P : Params := { longest := true, hasBT := true, hasAsciiBT := true, alwaysAnchored := true, isStartAnchored := true }
    findIndicesBTAt (bruteOracles T) P #[98, 98] 0 = some (0, 2) ∧
    findIndicesBTAtWithState (bruteOracles T) P #[98, 98] 0 = some (0, 2) ∧
    findIndicesBT (bruteOracles T) P #[98, 98] = some (0, 2) ∧
    (bruteOracles T).pike #[98, 98] 0 = some (0, 2) ∧
    findIndicesBTAt (bruteOracles { T with asl := fun lo _ => if lo = 0 then some (0, 1) else none }) P #[98, 98] 0 = some (0, 1) := by
  decide

/-- `pike` (taken as the "reference") answers [1,3) from 0 but [1,2) from 1: not a scan over start positions -/
theorem cex_restart :
    let T : Tables := { mt := fun s e => s == 1 && (e == 2 || e == 3), pike := fun a => if a = 0 then some (1, 3) else if a = 1 then some (1, 2) else none,
                        fwd := fun a => if a = 0 then some 3 else if a = 1 then some 2 else none, pf := fun a => if a ≤ 1 then some 1 else none }
    findIndicesNFAAt (bruteOracles T) { hasPrefilter := true } #[120, 97, 97] 0 = some (1, 2) ∧
    (bruteOracles T).pike #[120, 97, 97] 0 = some (1, 3) := by decide

section
variable {O : Oracles} {P : Params} {Mt : Bytes → Nat → Nat → Prop} {ref : Bytes → Nat → Option Span} {h : Bytes}

end

/-! ### non-vacuity: the contracts are satisfiable — a literal pattern, every component computed by naive search

(the instance over the real component MODELS — lazy DFAs, Pike VM, backtracker on a compiled automaton — is
`Cx.MetaFind.realOracles_ok` / `C02_metaFind_closed_instance` in `Cx.Proofs.MetaFindInst`) -/

open Cx.RevSuffix (Occ occursAt occursAt_iff refPfFind refPfFind_some refPfFind_none)

/-- the pattern is the literal `lit` -/
def LitMt (lit : Bytes) (h : Bytes) (s e : Nat) : Prop := Occ h lit s ∧ e = s + lit.size

/-- the leftmost occurrence at or after `a` -/
def litRef (lit : Bytes) (h : Bytes) (a : Nat) : Option Span := (refPfFind lit h a).map fun p => (p, p + lit.size)

/-- prefilter = memmem (complete), DFAs / Pike VM / backtrackers = naive literal search -/
def litOracles (lit : Bytes) : Oracles where
  pfFind := refPfFind lit
  pfFindMatch := litRef lit
  fwdSearchAt := fun h a => (litRef lit h a).map (·.2)
  fwdSearchAtAnchored := fun h a => if occursAt h lit a then some (a + lit.size) else none
  fwdIsMatchAt := fun h a => (litRef lit h a).isSome
  fwdFindAt := fun h a => (litRef lit h a).map (·.2)
  revSearch := fun h lo e => if lo + lit.size ≤ e ∧ occursAt h lit (e - lit.size) = true then some (e - lit.size) else none
  pike := litRef lit
  btCanHandle := fun _ => true
  bt := litRef lit
  btSlice := fun h lo hi => litRef lit (h.extract lo hi) 0
  btMaxInput := 0
  asciiCanHandle := fun _ => true
  asciiSlice := fun h lo hi => litRef lit (h.extract lo hi) 0
  asciiMaxInput := 0
  firstByteOK := fun _ => true
  pikeIsMatch := fun h => (litRef lit h 0).isSome
  btIsMatch := fun h => (litRef lit h 0).isSome
  dfaCacheNearlyFull := fun _ => false

theorem litRef_some {lit h : Bytes} {a s e : Nat} (hr : litRef lit h a = some (s, e)) :
    refPfFind lit h a = some s ∧ e = s + lit.size := by
  unfold litRef at hr
  cases hf : refPfFind lit h a with
  | none => rw [hf] at hr; cases hr
  | some p =>
    rw [hf] at hr
    simp only [Option.map_some, Option.some.injEq, Prod.mk.injEq] at hr
    rw [← hr.1, ← hr.2]
    exact ⟨rfl, rfl⟩

theorem litRef_refOK (lit : Bytes) (h : Bytes) : RefOK (LitMt lit) (litRef lit) h := by
  refine { ref_sound := ?_, ref_leftmost := ?_, ref_none := ?_, mt_le := ?_, restart := ?_ }
  · intro a s e _ hr
    obtain ⟨hf, he⟩ := litRef_some hr
    obtain ⟨h1, h2, _⟩ := refPfFind_some hf
    exact ⟨h1, by have := h2.1; omega, h2, he⟩
  · intro a s e _ hr s' e' g1 g2
    obtain ⟨hf, _⟩ := litRef_some hr
    obtain ⟨_, _, h3⟩ := refPfFind_some hf
    apply Classical.byContradiction
    intro hlt
    exact h3 s' g1 (by omega) g2.1
  · intro a _ hr s e g1 _ g3
    unfold litRef at hr
    cases hf : refPfFind lit h a with
    | none => exact refPfFind_none hf s g1 g3.1
    | some p => rw [hf] at hr; cases hr
  · intro s e _ hm
    have := hm.1.1
    have := hm.2
    omega
  · intro a a' s e _ hr g1 g2
    obtain ⟨hf, he⟩ := litRef_some hr
    obtain ⟨h1, h2, h3⟩ := refPfFind_some hf
    unfold litRef
    cases hf' : refPfFind lit h a' with
    | none => exact absurd h2 (refPfFind_none hf' s g2)
    | some p' =>
      obtain ⟨k1, k2, k3⟩ := refPfFind_some hf'
      have a1 : ¬ s < p' := fun hlt => k3 s g2 hlt h2
      have a2 : ¬ p' < s := fun hlt => h3 p' (by omega) hlt k2
      have : p' = s := by omega
      subst this
      simp only [Option.map_some, he]

/-- **all contracts hold for the literal instance**, whatever the flags (with `LiteralLen() = |lit|`, not always-anchored) -/
theorem litOracles_ok (lit : Bytes) (hL : 0 < lit.size) (P : Params) (hP : P.literalLen = lit.size)
    (hna : P.alwaysAnchored = false) (h : Bytes) : OraclesOK (litOracles lit) P (LitMt lit) (litRef lit) h := by
  have R := litRef_refOK lit h
  have F : PfOK (litOracles lit) (LitMt lit) h := by
    refine ⟨?_, ?_⟩
    · intro a p _ hf
      obtain ⟨h1, h2, h3⟩ := refPfFind_some (show refPfFind lit h a = some p from hf)
      exact ⟨h1, by have := h2.1; omega, fun s e g1 g2 hm => h3 s g1 g2 hm.1⟩
    · intro a _ hf s e g1 _ hm
      exact refPfFind_none (show refPfFind lit h a = none from hf) s g1 hm.1
  exact {
    toRefOK := R
    pike := fun _ _ => rfl
    pf := fun _ _ => F
    pfc := by
      intro _ _ _ a p _ hf
      show litRef lit h a = _
      unfold litRef
      rw [show refPfFind lit h a = some p from hf, hP]
      rfl
    pfm := fun _ _ _ _ => rfl
    bi := by
      intro _ _
      refine ⟨fun _ _ => rfl, ?_, ?_⟩
      · intro lo e s _ _ hr
        have hr' : (if lo + lit.size ≤ e ∧ occursAt h lit (e - lit.size) = true then some (e - lit.size) else none) = some s := hr
        split at hr'
        · rename_i hc
          cases hr'
          refine ⟨by omega, ⟨(occursAt_iff h lit _).mp hc.2, by omega⟩, ?_⟩
          intro s' _ _ hm
          have := hm.2
          omega
        · cases hr'
      · intro lo e s _ _ hlo _ hm
        show (if lo + lit.size ≤ e ∧ occursAt h lit (e - lit.size) = true then some (e - lit.size) else none).isSome = true
        have he := hm.2
        rw [if_pos ⟨by omega, by rw [show e - lit.size = s by omega]; exact (occursAt_iff h lit s).mpr hm.1⟩]
        rfl
    im := fun _ _ _ hs => hs
    bt := fun _ _ _ _ => rfl
    sl := fun _ => ⟨fun _ _ _ _ _ => rfl, fun _ _ _ _ _ _ => rfl⟩
    fb := by
      intro hr
      unfold firstByteRejects at hr
      simp [litOracles] at hr
    anchored := fun ha => by rw [hna] at ha; cases ha }

/-- a closed consequence: for the pattern `ab` with a complete memmem prefilter and the DFA pair, `FindIndicesAt` of the UseDFA
    strategy is the leftmost occurrence, on every haystack from every offset -/
theorem litOracles_instance (h : Bytes) {at_ : Nat} (hat : at_ ≤ h.size) :
    findIndicesAt (litOracles #[97, 98])
      { hasPrefilter := true, pfComplete := true, literalLen := 2, hasDFA := true, hasReverseDFA := true } Strategy.dfa h at_ =
      litRef #[97, 98] h at_ :=
  findIndicesAt_eq_ref (litOracles_ok #[97, 98] (by decide) _ rfl rfl h) Strategy.dfa hat ⟨rfl, ⟨fun _ => rfl, rfl⟩⟩

section
variable {O : Oracles} {P : Params} {Mt : Bytes → Nat → Nat → Prop} {ref : Bytes → Nat → Option Span} {h : Bytes}

end
end Cx.MetaFind
