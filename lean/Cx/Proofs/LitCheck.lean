import Cx.Model.LitCheck
import Cx.Proofs.Nfa
import Cx.DriverLit
/-
  Cx.Proofs.LitCheck — soundness of the literal-necessity checker.

  1. each property automaton characterises its property (`prefix_char`, `inner_char`, `suffix_char`: iff);
  2. the property transfers from the abstracted word (`map cls`) to the concrete word;
  3. the worklist loop returns a visited set that contains the start state, has no bad state and is closed
     under product successors;
  4. every concrete run of the NFA projects into such a set;
  5. `checkPrefix_sound`, `checkSuffix_sound`, `checkInner_sound`.
-/
namespace Cx.Lit
open Cx Cx.Nfa

/-! ### 1. residuals -/

theorem adv_eq_some {b : Nat} {r t : Lit} : adv b r = some t ↔ r = b :: t := by
  cases r with
  | nil => simp [adv]
  | cons c r' =>
    simp only [adv]
    constructor
    · intro h
      split at h
      · next hc => cases h; rw [hc]
      · exact nomatch h
    · intro h
      cases h
      simp

theorem mem_advAll {b : Nat} {R : List Lit} {t : Lit} : t ∈ advAll b R ↔ b :: t ∈ R := by
  simp only [advAll, List.mem_filterMap, adv_eq_some]
  constructor
  · rintro ⟨r, hr, rfl⟩; exact hr
  · intro h; exact ⟨_, h, rfl⟩

theorem hasNil_iff {R : List Lit} : hasNil R = true ↔ [] ∈ R := by
  simp only [hasNil, List.any_eq_true, List.isEmpty_iff]
  constructor
  · rintro ⟨x, hx, rfl⟩; exact hx
  · intro h; exact ⟨_, h, rfl⟩

theorem hasNil_false_iff {R : List Lit} : hasNil R = false ↔ [] ∉ R := by
  rw [← hasNil_iff]; cases hasNil R <;> simp

/-! #### prefix -/

theorem runP_flagged (w : List Nat) (d : DState) (hd : d.flag = true) : w.foldl stepP d = d := by
  induction w with
  | nil => rfl
  | cons b w ih => simp only [List.foldl_cons, stepP, hd, if_true]; exact ih

theorem prefix_step_iff {R : List Lit} (hR : [] ∉ R) (b : Nat) (w : List Nat) :
    (∃ l ∈ advAll b R, l <+: w) ↔ (∃ l ∈ R, l <+: b :: w) := by
  constructor
  · rintro ⟨t, ht, hp⟩
    exact ⟨b :: t, mem_advAll.mp ht, (List.prefix_cons_inj b).mpr hp⟩
  · rintro ⟨l, hl, hp⟩
    rcases List.prefix_cons_iff.mp hp with rfl | ⟨t, rfl, ht⟩
    · exact absurd hl hR
    · exact ⟨t, mem_advAll.mpr hl, ht⟩

theorem prefix_char_gen (w : List Nat) : ∀ R : List Lit,
    (w.foldl stepP (mkP R)).flag = true ↔ ∃ l ∈ R, l <+: w := by
  induction w with
  | nil =>
    intro R
    simp only [List.foldl_nil, List.prefix_nil]
    unfold mkP
    cases hn : hasNil R
    · have := hasNil_false_iff.mp hn
      simp only [Bool.false_eq_true, if_false, false_iff]
      rintro ⟨l, hl, rfl⟩; exact this hl
    · simp only [if_true, true_iff]
      exact ⟨[], hasNil_iff.mp hn, rfl⟩
  | cons b w ih =>
    intro R
    simp only [List.foldl_cons]
    cases hn : hasNil R
    · have hR := hasNil_false_iff.mp hn
      have h1 : stepP (mkP R) b = mkP (advAll b R) := by simp [mkP, stepP, hn]
      rw [h1, ih, prefix_step_iff hR]
    · have h1 : mkP R = ⟨true, []⟩ := by simp [mkP, hn]
      rw [h1, runP_flagged w _ rfl]
      exact ⟨fun _ => ⟨[], hasNil_iff.mp hn, List.nil_prefix⟩, fun _ => rfl⟩

/-- the prefix automaton characterises "some literal is a prefix of the word" -/
theorem prefix_char (lits : List Lit) (w : List Nat) :
    (prefixAuto lits).good ((prefixAuto lits).run (prefixAuto lits).init w) = true ↔ ∃ l ∈ lits, l <+: w :=
  prefix_char_gen w lits

/-! #### inner -/

theorem runI_flagged (lits : List Lit) (w : List Nat) (d : DState) (hd : d.flag = true) :
    w.foldl (stepI lits) d = d := by
  induction w with
  | nil => rfl
  | cons b w ih => simp only [List.foldl_cons, stepI, hd, if_true]; exact ih

theorem inner_step_iff {lits R : List Lit} (hR : [] ∉ R) (b : Nat) (w : List Nat) :
    ((∃ r ∈ advAll b R ++ advAll b lits, r <+: w) ∨ (∃ l ∈ lits, l <:+: w)) ↔
    ((∃ r ∈ R, r <+: b :: w) ∨ (∃ l ∈ lits, l <:+: b :: w)) := by
  constructor
  · rintro (⟨t, ht, hp⟩ | ⟨l, hl, hi⟩)
    · rcases List.mem_append.mp ht with ht | ht
      · exact Or.inl ⟨b :: t, mem_advAll.mp ht, (List.prefix_cons_inj b).mpr hp⟩
      · exact Or.inr ⟨b :: t, mem_advAll.mp ht, ((List.prefix_cons_inj b).mpr hp).isInfix⟩
    · exact Or.inr ⟨l, hl, List.infix_cons_iff.mpr (Or.inr hi)⟩
  · rintro (⟨r, hr, hp⟩ | ⟨l, hl, hi⟩)
    · rcases List.prefix_cons_iff.mp hp with rfl | ⟨t, rfl, ht⟩
      · exact absurd hr hR
      · exact Or.inl ⟨t, List.mem_append.mpr (Or.inl (mem_advAll.mpr hr)), ht⟩
    · rcases List.infix_cons_iff.mp hi with hp | hi
      · rcases List.prefix_cons_iff.mp hp with rfl | ⟨t, rfl, ht⟩
        · exact Or.inr ⟨[], hl, List.nil_infix⟩
        · exact Or.inl ⟨t, List.mem_append.mpr (Or.inr (mem_advAll.mpr hl)), ht⟩
      · exact Or.inr ⟨l, hl, hi⟩

theorem inner_char_gen (lits : List Lit) (w : List Nat) : ∀ R : List Lit,
    (w.foldl (stepI lits) (mkI lits R)).flag = true ↔ ((∃ r ∈ R, r <+: w) ∨ (∃ l ∈ lits, l <:+: w)) := by
  induction w with
  | nil =>
    intro R
    simp only [List.foldl_nil, List.prefix_nil, List.infix_nil]
    unfold mkI
    cases hn : (hasNil R || hasNil lits)
    · simp only [Bool.or_eq_false_iff] at hn
      have h1 := hasNil_false_iff.mp hn.1
      have h2 := hasNil_false_iff.mp hn.2
      simp only [Bool.false_eq_true, if_false, false_iff]
      rintro (⟨l, hl, rfl⟩ | ⟨l, hl, rfl⟩)
      · exact h1 hl
      · exact h2 hl
    · simp only [if_true, true_iff]
      simp only [Bool.or_eq_true] at hn
      rcases hn with hn | hn
      · exact Or.inl ⟨[], hasNil_iff.mp hn, rfl⟩
      · exact Or.inr ⟨[], hasNil_iff.mp hn, rfl⟩
  | cons b w ih =>
    intro R
    simp only [List.foldl_cons]
    cases hn : (hasNil R || hasNil lits)
    · simp only [Bool.or_eq_false_iff] at hn
      have hR := hasNil_false_iff.mp hn.1
      have h1 : stepI lits (mkI lits R) b = mkI lits (advAll b R ++ advAll b lits) := by
        simp [mkI, stepI, hn.1, hn.2]
      rw [h1, ih, inner_step_iff hR]
    · have h1 : mkI lits R = ⟨true, []⟩ := by simp [mkI, hn]
      rw [h1, runI_flagged lits w _ rfl]
      refine ⟨fun _ => ?_, fun _ => rfl⟩
      simp only [Bool.or_eq_true] at hn
      rcases hn with hn | hn
      · exact Or.inl ⟨[], hasNil_iff.mp hn, List.nil_prefix⟩
      · exact Or.inr ⟨[], hasNil_iff.mp hn, List.nil_infix⟩

/-- the inner automaton characterises "some literal occurs in the word" -/
theorem inner_char (lits : List Lit) (w : List Nat) :
    (innerAuto lits).good ((innerAuto lits).run (innerAuto lits).init w) = true ↔ ∃ l ∈ lits, l <:+: w := by
  have := inner_char_gen lits w []
  simp only [List.not_mem_nil, false_and, exists_false, false_or] at this
  exact this

/-! #### suffix -/

theorem runS_flagged (lits : List Lit) (w : List Nat) (d : DState) (hd : d.flag = true) :
    w.foldl (stepS lits) d = d := by
  induction w with
  | nil => rfl
  | cons b w ih => simp only [List.foldl_cons, stepS, hd, if_true]; exact ih

theorem suffix_step_iff {lits R : List Lit} (b : Nat) (w : List Nat) :
    ((∃ r ∈ advAll b R ++ advAll b lits, r = w) ∨ (∃ l ∈ lits, l <:+ w)) ↔
    ((∃ r ∈ R, r = b :: w) ∨ (∃ l ∈ lits, l <:+ b :: w)) := by
  constructor
  · rintro (⟨t, ht, rfl⟩ | ⟨l, hl, hs⟩)
    · rcases List.mem_append.mp ht with ht | ht
      · exact Or.inl ⟨b :: t, mem_advAll.mp ht, rfl⟩
      · exact Or.inr ⟨b :: t, mem_advAll.mp ht, List.suffix_rfl⟩
    · exact Or.inr ⟨l, hl, List.suffix_cons_iff.mpr (Or.inr hs)⟩
  · rintro (⟨r, hr, rfl⟩ | ⟨l, hl, hs⟩)
    · exact Or.inl ⟨w, List.mem_append.mpr (Or.inl (mem_advAll.mpr hr)), rfl⟩
    · rcases List.suffix_cons_iff.mp hs with rfl | hs
      · exact Or.inl ⟨w, List.mem_append.mpr (Or.inr (mem_advAll.mpr hl)), rfl⟩
      · exact Or.inr ⟨l, hl, hs⟩

theorem suffix_char_gen (lits : List Lit) (hl : [] ∉ lits) (w : List Nat) : ∀ R : List Lit,
    (suffixAuto lits).good (w.foldl (stepS lits) ⟨false, R⟩) = true ↔
      ((∃ r ∈ R, r = w) ∨ (∃ l ∈ lits, l <:+ w)) := by
  induction w with
  | nil =>
    intro R
    simp only [List.foldl_nil, suffixAuto, Bool.false_or, hasNil_iff, List.suffix_nil]
    constructor
    · intro h; exact Or.inl ⟨[], h, rfl⟩
    · rintro (⟨r, hr, rfl⟩ | ⟨l, hl', rfl⟩)
      · exact hr
      · exact absurd hl' hl
  | cons b w ih =>
    intro R
    simp only [List.foldl_cons]
    have h1 : stepS lits ⟨false, R⟩ b = ⟨false, advAll b R ++ advAll b lits⟩ := by simp [stepS]
    rw [h1, ih, suffix_step_iff]

/-- the suffix automaton characterises "some literal is a suffix of the word" -/
theorem suffix_char (lits : List Lit) (w : List Nat) :
    (suffixAuto lits).good ((suffixAuto lits).run (suffixAuto lits).init w) = true ↔ ∃ l ∈ lits, l <:+ w := by
  cases hn : hasNil lits
  · have hl := hasNil_false_iff.mp hn
    have := suffix_char_gen lits hl w []
    simp only [List.not_mem_nil, false_and, exists_false, false_or] at this
    have hi : (suffixAuto lits).init = ⟨false, []⟩ := by simp [suffixAuto, hn]
    rw [hi]
    exact this
  · have hi : (suffixAuto lits).init = ⟨true, []⟩ := by simp [suffixAuto, hn]
    have hr : (suffixAuto lits).run ⟨true, []⟩ w = ⟨true, []⟩ := runS_flagged lits w _ rfl
    rw [hi, hr]
    simp only [suffixAuto, Bool.true_or, true_iff]
    exact ⟨[], hasNil_iff.mp hn, List.nil_suffix⟩

/-! ### 2. the alphabet abstraction -/

theorem le_maxOf {x : Nat} {l : List Nat} (h : x ∈ l) : x ≤ maxOf l := by
  induction l with
  | nil => cases h
  | cons y t ih =>
    simp only [maxOf]
    rcases List.mem_cons.mp h with rfl | h
    · exact Nat.le_max_left _ _
    · exact Nat.le_trans (ih h) (Nat.le_max_right _ _)

/-- `alpha` contains every literal byte and not `fresh` -/
structure AlphaOK (alpha : List Nat) (fresh : Nat) (lits : List Lit) : Prop where
  lit_mem : ∀ l ∈ lits, ∀ x ∈ l, x ∈ alpha
  fresh_not : fresh ∉ alpha

theorem mkCtx_alphaOK {σ : Type} (N : NFA) (A : Auto σ) (lits : List Lit) :
    AlphaOK (mkCtx N A lits).alpha (mkCtx N A lits).fresh lits := by
  constructor
  · intro l hl x hx
    simp only [mkCtx, List.mem_eraseDups, List.mem_flatten]
    exact ⟨l, hl, hx⟩
  · intro h
    have := le_maxOf h
    simp only [mkCtx] at this
    omega

def clsOf (alpha : List Nat) (fresh b : Nat) : Nat := if alpha.contains b then b else fresh

theorem Ctx.cls_eq {σ : Type} (c : Ctx σ) : c.cls = clsOf c.alpha c.fresh := rfl

theorem map_cls_eq {alpha : List Nat} {fresh : Nat} (hf : fresh ∉ alpha) :
    ∀ (u l : List Nat), (∀ x ∈ l, x ∈ alpha) → u.map (clsOf alpha fresh) = l → u = l := by
  intro u
  induction u with
  | nil => intro l _ h; simpa using h
  | cons a u ih =>
    intro l hl h
    cases l with
    | nil => simp at h
    | cons x l =>
      simp only [List.map_cons, List.cons.injEq] at h
      have hx : x ∈ alpha := hl x (List.mem_cons_self)
      have ha : a = x := by
        have h1 := h.1
        unfold clsOf at h1
        split at h1
        · exact h1
        · rw [h1] at hf; exact absurd hx hf
      rw [ha, ih l (fun y hy => hl y (List.mem_cons_of_mem _ hy)) h.2]

theorem prefix_of_map_cls {alpha : List Nat} {fresh : Nat} (hf : fresh ∉ alpha) {l w : List Nat}
    (hl : ∀ x ∈ l, x ∈ alpha) (h : l <+: w.map (clsOf alpha fresh)) : l <+: w := by
  obtain ⟨t, ht⟩ := h
  obtain ⟨u, v, rfl, hu, _⟩ := List.map_eq_append_iff.mp ht.symm
  rw [map_cls_eq hf u l hl hu]
  exact List.prefix_append _ _

theorem suffix_of_map_cls {alpha : List Nat} {fresh : Nat} (hf : fresh ∉ alpha) {l w : List Nat}
    (hl : ∀ x ∈ l, x ∈ alpha) (h : l <:+ w.map (clsOf alpha fresh)) : l <:+ w := by
  obtain ⟨t, ht⟩ := h
  obtain ⟨u, v, rfl, _, hv⟩ := List.map_eq_append_iff.mp ht.symm
  rw [map_cls_eq hf v l hl hv]
  exact List.suffix_append _ _

theorem infix_of_map_cls {alpha : List Nat} {fresh : Nat} (hf : fresh ∉ alpha) {l w : List Nat}
    (hl : ∀ x ∈ l, x ∈ alpha) (h : l <:+: w.map (clsOf alpha fresh)) : l <:+: w := by
  obtain ⟨s, t, ht⟩ := h
  obtain ⟨u, v, rfl, hu, _⟩ := List.map_eq_append_iff.mp ht.symm
  obtain ⟨u1, u2, rfl, _, hu2⟩ := List.map_eq_append_iff.mp hu
  rw [map_cls_eq hf u2 l hl hu2]
  exact ⟨u1, v, rfl⟩

/-! ### 3. the visited set and the worklist loop -/

section Explore
variable {σ : Type}

/-- membership (in any bucket) -/
def VSet.Mem (v : VSet σ) (s : PState σ) : Prop := ∃ i, s ∈ v.buckets.getD i []

theorem VSet.mem_of_contains [DecidableEq σ] {v : VSet σ} {k : Nat} {s : PState σ}
    (h : v.contains k s = true) : v.Mem s :=
  ⟨k % v.buckets.size, List.contains_iff_mem.mp h⟩

theorem VSet.not_mem_empty (n : Nat) (s : PState σ) : ¬ (VSet.empty n : VSet σ).Mem s := by
  rintro ⟨i, hi⟩
  simp only [VSet.empty, Array.getD_eq_getD_getElem?, Array.getElem?_replicate] at hi
  split at hi <;> simp at hi

theorem VSet.mem_insert_self (v : VSet σ) (k : Nat) (s : PState σ) : (v.insert k s).Mem s := by
  refine ⟨k % v.buckets.size, ?_⟩
  have hlt : k % v.buckets.size < v.buckets.size := Nat.mod_lt _ v.pos
  simp [VSet.insert, hlt]

theorem VSet.mem_insert_of_mem {v : VSet σ} (k : Nat) (s : PState σ) {x : PState σ} (h : v.Mem x) :
    (v.insert k s).Mem x := by
  obtain ⟨i, hi⟩ := h
  refine ⟨i, ?_⟩
  have hlt : k % v.buckets.size < v.buckets.size := Nat.mod_lt _ v.pos
  simp only [VSet.insert, Array.getD_eq_getD_getElem?, Array.getElem?_setIfInBounds] at hi ⊢
  by_cases hji : k % v.buckets.size = i
  · subst hji
    simp only [if_true, hlt, Option.getD_some]
    exact List.mem_cons_of_mem _ hi
  · simp only [hji, if_false]
    exact hi

theorem VSet.mem_insert_inv {v : VSet σ} {k : Nat} {s x : PState σ} (h : (v.insert k s).Mem x) :
    x = s ∨ v.Mem x := by
  obtain ⟨i, hi⟩ := h
  have hlt : k % v.buckets.size < v.buckets.size := Nat.mod_lt _ v.pos
  simp only [VSet.insert, Array.getD_eq_getD_getElem?, Array.getElem?_setIfInBounds] at hi
  by_cases hji : k % v.buckets.size = i
  · subst hji
    simp only [if_true, hlt, Option.getD_some] at hi
    rcases List.mem_cons.mp hi with rfl | hi
    · exact Or.inl rfl
    · exact Or.inr ⟨_, by simpa only [Array.getD_eq_getD_getElem?] using hi⟩
  · simp only [hji, if_false] at hi
    exact Or.inr ⟨i, by simpa only [Array.getD_eq_getD_getElem?] using hi⟩

/-- the state is queued -/
def InWork (x : PState σ) (W : Work σ) : Prop := ∃ p, (x, p) ∈ W

theorem pushAll_spec [DecidableEq σ] (c : Ctx σ) (path : List Nat) :
    ∀ (es : List (Option Nat × PState σ)) (back : Work σ) (vis : VSet σ) (back' : Work σ) (vis' : VSet σ),
      pushAll c path es back vis = (back', vis') →
      (∀ x, vis.Mem x → vis'.Mem x) ∧
      (∀ e ∈ es, vis'.Mem e.2) ∧
      (∀ x, vis'.Mem x → vis.Mem x ∨ InWork x back') ∧
      (∀ x, InWork x back → InWork x back') := by
  intro es
  induction es with
  | nil =>
    intro back vis back' vis' h
    simp only [pushAll, Prod.mk.injEq] at h
    obtain ⟨rfl, rfl⟩ := h
    exact ⟨fun _ h => h, fun _ h => absurd h List.not_mem_nil, fun _ h => Or.inl h, fun _ h => h⟩
  | cons e es ih =>
    intro back vis back' vis' h
    simp only [pushAll] at h
    split at h
    · next hc =>
      obtain ⟨h1, h2, h3, h4⟩ := ih _ _ _ _ h
      refine ⟨h1, ?_, h3, h4⟩
      intro e' he'
      rcases List.mem_cons.mp he' with rfl | he'
      · exact h1 _ (VSet.mem_of_contains hc)
      · exact h2 _ he'
    · obtain ⟨h1, h2, h3, h4⟩ := ih _ _ _ _ h
      refine ⟨fun x hx => h1 x (VSet.mem_insert_of_mem _ _ hx), ?_, ?_, ?_⟩
      · intro e' he'
        rcases List.mem_cons.mp he' with rfl | he'
        · exact h1 _ (VSet.mem_insert_self _ _ _)
        · exact h2 _ he'
      · intro x hx
        rcases h3 x hx with hx | hx
        · rcases VSet.mem_insert_inv hx with rfl | hx
          · exact Or.inr (h4 _ ⟨_, List.mem_cons_self⟩)
          · exact Or.inl hx
        · exact Or.inr hx
      · intro x ⟨p, hp⟩
        exact h4 x ⟨p, List.mem_cons_of_mem _ hp⟩

/-- every visited state is queued, or is not bad and has all its successors visited -/
def Inv (c : Ctx σ) (front back : Work σ) (vis : VSet σ) : Prop :=
  ∀ x, vis.Mem x → (InWork x front ∨ InWork x back) ∨
    (isBad c x = false ∧ ∀ e ∈ succs c x, vis.Mem e.2)

theorem explore_ok [DecidableEq σ] (c : Ctx σ) : ∀ (fuel : Nat) (front back : Work σ) (vis V : VSet σ),
    explore c fuel front back vis = .ok V → Inv c front back vis →
    (∀ x, vis.Mem x → V.Mem x) ∧ Inv c [] [] V := by
  intro fuel
  induction fuel with
  | zero => intro front back vis V h; simp [explore] at h
  | succ f ih =>
    intro front back vis V h hinv
    cases front with
    | nil =>
      cases back with
      | nil =>
        simp only [explore, Res.ok.injEq] at h
        subst h
        exact ⟨fun _ h => h, hinv⟩
      | cons b back =>
        simp only [explore] at h
        apply ih _ _ _ _ h
        intro x hx
        rcases hinv x hx with (⟨p, hp⟩ | ⟨p, hp⟩) | hcl
        · exact nomatch hp
        · exact Or.inl (Or.inl ⟨p, List.mem_reverse.mpr hp⟩)
        · exact Or.inr hcl
    | cons sp front =>
      obtain ⟨s, path⟩ := sp
      simp only [explore] at h
      split at h
      · exact nomatch h
      · next hbad =>
        have hbad : isBad c s = false := by simpa using hbad
        obtain ⟨h1, h2, h3, h4⟩ := pushAll_spec c path (succs c s) back vis _ _ rfl
        obtain ⟨hm, hfin⟩ := ih _ _ _ _ h (by
          intro x hx
          rcases h3 x hx with hx | hx
          · rcases hinv x hx with (⟨p, hp⟩ | hb) | ⟨hnb, hcl⟩
            · rcases List.mem_cons.mp hp with heq | hp
              · have : x = s := by cases heq; rfl
                subst this
                exact Or.inr ⟨hbad, h2⟩
              · exact Or.inl (Or.inl ⟨p, hp⟩)
            · exact Or.inl (Or.inr (h4 x hb))
            · exact Or.inr ⟨hnb, fun e he => h1 _ (hcl e he)⟩
          · exact Or.inl (Or.inr hx))
        exact ⟨fun x hx => hm x (h1 x hx), hfin⟩

/-- no bad state, closed under product successors -/
def Closed (c : Ctx σ) (V : VSet σ) : Prop :=
  ∀ x, V.Mem x → isBad c x = false ∧ ∀ e ∈ succs c x, V.Mem e.2

theorem runCtx_ok [DecidableEq σ] {c : Ctx σ} {fuel : Nat} {V : VSet σ} (h : runCtx c fuel = .ok V) :
    V.Mem (startState c) ∧ Closed c V := by
  unfold runCtx at h
  obtain ⟨hm, hfin⟩ := explore_ok c _ _ _ _ _ h (by
    intro x hx
    rcases VSet.mem_insert_inv hx with rfl | hx
    · exact Or.inl (Or.inl ⟨[], List.mem_cons_self⟩)
    · exact absurd hx (VSet.not_mem_empty _ _))
  refine ⟨hm _ (VSet.mem_insert_self _ _ _), ?_⟩
  intro x hx
  rcases hfin x hx with (⟨p, hp⟩ | ⟨p, hp⟩) | hcl
  · exact nomatch hp
  · exact nomatch hp
  · exact hcl

end Explore

/-! ### 4. concrete runs project into a closed set -/

theorem slice_self (h : Bytes) (i : Nat) : slice h i i = [] := by simp [slice]

theorem slice_cons (h : Bytes) {i j : Nat} (hij : i < j) : slice h i j = h.at i :: slice h (i+1) j := by
  unfold slice
  have : j - i = (j - (i + 1)) + 1 := by omega
  rw [this, List.range'_succ, List.map_cons]

theorem slice_one (h : Bytes) (i : Nat) : slice h i (i+1) = [h.at i] := by
  rw [slice_cons h (Nat.lt_succ_self i), slice_self]

theorem slice_length (h : Bytes) (i j : Nat) : (slice h i j).length = j - i := by simp [slice]

theorem slice_append (h : Bytes) {i k j : Nat} (hik : i ≤ k) (hkj : k ≤ j) :
    slice h i j = slice h i k ++ slice h k j := by
  unfold slice
  have h1 : j - i = (k - i) + (j - k) := by omega
  have h2 : k = i + (k - i) := by omega
  rw [h1, ← List.range'_append_1, List.map_append, ← h2]

/-- `slice` is the corresponding piece of the array when the span lies inside it -/
theorem slice_getElem? (h : Bytes) (i j k : Nat) (hk : k < j - i) : (slice h i j)[k]? = some (h.at (i + k)) := by
  simp [slice, hk]

section Sim
variable {σ : Type}

theorem run_nil (A : Auto σ) (d : σ) : A.run d [] = d := rfl
theorem run_cons (A : Auto σ) (d : σ) (b : Nat) (w : List Nat) : A.run d (b :: w) = A.run (A.step d b) w := rfl
theorem run_append (A : Auto σ) (d : σ) (u v : List Nat) : A.run d (u ++ v) = A.run (A.run d u) v := by
  simp [Auto.run, List.foldl_append]

theorem cls_of_mem (c : Ctx σ) {b : Nat} (h : c.alpha.contains b = true) : c.cls b = b := by
  unfold Ctx.cls; rw [if_pos h]

theorem cls_of_not_mem (c : Ctx σ) {b : Nat} (h : c.alpha.contains b = false) : c.cls b = c.fresh := by
  unfold Ctx.cls; rw [h]; rfl

theorem cls_mem_anySyms (c : Ctx σ) (b : Nat) : ∃ rp, (c.cls b, rp) ∈ anySyms c := by
  cases hb : c.alpha.contains b
  · rw [cls_of_not_mem c hb]
    exact ⟨c.repC, List.mem_append.mpr (Or.inr List.mem_cons_self)⟩
  · rw [cls_of_mem c hb]
    refine ⟨b, List.mem_append.mpr (Or.inl ?_)⟩
    exact List.mem_map.mpr ⟨b, List.contains_iff_mem.mp hb, rfl⟩

theorem otherRep_some (alpha : List Nat) (fresh : Nat) {lo hi b : Nat} (hb : alpha.contains b = false)
    (h1 : lo ≤ b) (h2 : b ≤ hi) : ∃ rp, otherRep alpha fresh lo hi = some rp := by
  unfold otherRep
  split
  · exact ⟨_, rfl⟩
  · next hnone =>
    split
    · exact ⟨_, rfl⟩
    · next hw =>
      exfalso
      have hmin : min (hi + 1 - lo) 256 = hi + 1 - lo := by omega
      rw [hmin] at hnone
      have := List.find?_eq_none.mp hnone b (List.mem_range'_1.mpr ⟨h1, by omega⟩)
      rw [hb] at this
      exact this rfl

theorem cls_mem_rangeSyms (c : Ctx σ) {lo hi b : Nat} (h1 : lo ≤ b) (h2 : b ≤ hi) :
    ∃ rp, (c.cls b, rp) ∈ rangeSyms c lo hi := by
  unfold rangeSyms
  cases hb : c.alpha.contains b
  · rw [cls_of_not_mem c hb]
    obtain ⟨rp, hrp⟩ := otherRep_some c.alpha c.fresh hb h1 h2
    rw [hrp]
    exact ⟨rp, List.mem_append.mpr (Or.inr List.mem_cons_self)⟩
  · rw [cls_of_mem c hb]
    refine ⟨b, List.mem_append.mpr (Or.inl ?_)⟩
    refine List.mem_map.mpr ⟨b, List.mem_filter.mpr ⟨List.contains_iff_mem.mp hb, ?_⟩, rfl⟩
    simp [h1, h2]

theorem firstTrans_mem {b nx : Nat} : ∀ {ts : List (Nat × Nat × Nat)}, firstTrans b ts = some nx →
    ∃ t ∈ ts, t.1 ≤ b ∧ b ≤ t.2.1 ∧ t.2.2 = nx := by
  intro ts
  induction ts with
  | nil => intro h; exact nomatch h
  | cons t ts ih =>
    obtain ⟨lo, hi, n⟩ := t
    intro h
    simp only [firstTrans] at h
    split at h
    · next hc =>
      cases h
      exact ⟨_, List.mem_cons_self, hc.1, hc.2, rfl⟩
    · obtain ⟨t, ht, hh⟩ := ih h
      exact ⟨t, List.mem_cons_of_mem _ ht, hh⟩

theorem cls_mem_sparseEdges (c : Ctx σ) {ts : List (Nat × Nat × Nat)} {b nx : Nat}
    (h : firstTrans b ts = some nx) : ∃ rp, (c.cls b, rp, nx) ∈ sparseEdges c ts := by
  unfold sparseEdges
  cases hb : c.alpha.contains b
  · rw [cls_of_not_mem c hb]
    obtain ⟨t, ht, h1, h2, rfl⟩ := firstTrans_mem h
    obtain ⟨rp, hrp⟩ := otherRep_some c.alpha c.fresh hb h1 h2
    refine ⟨rp, List.mem_append.mpr (Or.inr ?_)⟩
    refine List.mem_flatMap.mpr ⟨t, ht, ?_⟩
    rw [hrp]
    exact List.mem_cons_self
  · rw [cls_of_mem c hb]
    refine ⟨b, List.mem_append.mpr (Or.inl ?_)⟩
    refine List.mem_filterMap.mpr ⟨b, List.contains_iff_mem.mp hb, ?_⟩
    rw [h]
    rfl

theorem runeWidth_mem_widthsOf (h : Bytes) (i : Nat) (hi : i < h.size) : runeWidth h i ∈ widthsOf (h.at i) := by
  unfold runeWidth widthsOf
  have hn : ¬ (i ≥ h.size) := by omega
  simp only [hn, if_false]
  by_cases h1 : h.at i < 128
  · simp [h1]
  · simp only [h1, if_false]
    by_cases h2 : h.at i / 32 = 6
    · simp only [h2, true_and, if_true]
      split <;> simp
      · have : ¬ (h.at i / 16 = 14) := by omega
        have : ¬ (h.at i / 8 = 30) := by omega
        simp [*]
    · simp only [h2, false_and, if_false]
      by_cases h3 : h.at i / 16 = 14
      · simp only [h3, true_and, if_true]
        split <;> simp
        · have : ¬ (h.at i / 8 = 30) := by omega
          simp [*]
      · simp only [h3, false_and, if_false]
        by_cases h4 : h.at i / 8 = 30
        · simp only [h4, true_and, if_true]
          split <;> simp
        · simp [h4]

theorem runeWidth_le_four (h : Bytes) (i : Nat) : runeWidth h i ≤ 4 := by
  unfold runeWidth
  split
  · omega
  · simp only []
    split
    · omega
    · split
      · omega
      · split
        · omega
        · split <;> omega

theorem cls_mem_runeFirst (c : Ctx σ) (notNL : Bool) (h : Bytes) (i : Nat) (hi : i < h.size)
    (hnl : notNL = true → h.at i ≠ 10) (hw : 0 < runeWidth h i) :
    ∃ rp, (c.cls (h.at i), rp, runeWidth h i) ∈ runeFirst c notNL := by
  unfold runeFirst
  cases hb : c.alpha.contains (h.at i)
  · rw [cls_of_not_mem c hb]
    refine ⟨leadRep c (runeWidth h i), List.mem_append.mpr (Or.inr ?_)⟩
    refine List.mem_map.mpr ⟨runeWidth h i, ?_, rfl⟩
    have := runeWidth_le_four h i
    simp only [List.mem_cons, List.not_mem_nil, or_false]
    omega
  · rw [cls_of_mem c hb]
    refine ⟨h.at i, List.mem_append.mpr (Or.inl ?_)⟩
    refine List.mem_flatMap.mpr ⟨h.at i, List.mem_filter.mpr ⟨List.contains_iff_mem.mp hb, ?_⟩, ?_⟩
    · cases notNL
      · simp
      · simpa using hnl rfl
    · exact List.mem_map.mpr ⟨_, runeWidth_mem_widthsOf h i hi, rfl⟩

/-- inside a rune state: consuming the remaining `u.length` arbitrary bytes stays in the set -/
theorem rune_tail {c : Ctx σ} {V : VSet σ} (hc : Closed c V) {q nx : Nat}
    (hq : c.N.get q = .runeAny nx ∨ c.N.get q = .runeAnyNotNL nx) :
    ∀ (u : List Nat) (d : σ), V.Mem (after q nx u.length d) → V.Mem ⟨nx, 0, c.A.run d (u.map c.cls)⟩ := by
  intro u
  induction u with
  | nil => intro d hm; simpa [after, run_nil] using hm
  | cons b u ih =>
    intro d hm
    have hm' : V.Mem ⟨q, u.length + 1, d⟩ := by simpa [after] using hm
    obtain ⟨rp, hrp⟩ := cls_mem_anySyms c b
    rw [List.map_cons, run_cons]
    apply ih
    apply (hc _ hm').2 (some rp, after q nx u.length (c.A.step d (c.cls b)))
    rcases hq with hq | hq
    · simp only [succs, hq]
      exact List.mem_map.mpr ⟨_, hrp, rfl⟩
    · simp only [succs, hq]
      exact List.mem_map.mpr ⟨_, hrp, rfl⟩

theorem rune_sim {c : Ctx σ} {V : VSet σ} (hc : Closed c V) {q nx : Nat} (notNL : Bool)
    (hq : c.N.get q = (if notNL then NState.runeAnyNotNL nx else NState.runeAny nx))
    (h : Bytes) (i : Nat) (hi : i < h.size) (hnl : notNL = true → h.at i ≠ 10) (hw : 0 < runeWidth h i)
    (d : σ) (hm : V.Mem ⟨q, 0, d⟩) :
    V.Mem ⟨nx, 0, c.A.run d ((slice h i (i + runeWidth h i)).map c.cls)⟩ := by
  rw [slice_cons h (by omega), List.map_cons, run_cons]
  obtain ⟨rp, hrp⟩ := cls_mem_runeFirst c notNL h i hi hnl hw
  have hlen : (slice h (i+1) (i + runeWidth h i)).length = runeWidth h i - 1 := by
    rw [slice_length]; omega
  have hq' : c.N.get q = .runeAny nx ∨ c.N.get q = .runeAnyNotNL nx := by
    cases notNL
    · exact Or.inl hq
    · exact Or.inr hq
  apply rune_tail hc hq'
  rw [hlen]
  apply (hc _ hm).2 (some rp, after q nx (runeWidth h i - 1) (c.A.step d (c.cls (h.at i))))
  cases notNL
  · simp only [Bool.false_eq_true, if_false] at hq
    simp only [succs, hq]
    exact List.mem_map.mpr ⟨_, hrp, rfl⟩
  · simp only [if_true] at hq
    simp only [succs, hq]
    exact List.mem_map.mpr ⟨_, hrp, rfl⟩

theorem step_sim {c : Ctx σ} {V : VSet σ} (hc : Closed c V) {h : Bytes} {q i q' i' : Nat}
    (st : Step c.N h (q, i) (q', i')) (d : σ) (hm : V.Mem ⟨q, 0, d⟩) :
    V.Mem ⟨q', 0, c.A.run d ((slice h i i').map c.cls)⟩ := by
  have hcl := (hc _ hm).2
  cases st with
  | byteRange hq hi h1 h2 =>
    rw [slice_one, List.map_cons, List.map_nil, run_cons, run_nil]
    obtain ⟨rp, hrp⟩ := cls_mem_rangeSyms c h1 h2
    apply hcl (some rp, _)
    simp only [succs, hq]
    exact List.mem_map.mpr ⟨_, hrp, rfl⟩
  | sparse hq hi hf =>
    rw [slice_one, List.map_cons, List.map_nil, run_cons, run_nil]
    obtain ⟨rp, hrp⟩ := cls_mem_sparseEdges c hf
    apply hcl (some rp, _)
    simp only [succs, hq]
    exact List.mem_map.mpr ⟨_, hrp, rfl⟩
  | splitL hq =>
    rw [slice_self, List.map_nil, run_nil]
    apply hcl (none, _)
    simp [succs, hq]
  | splitR hq =>
    rw [slice_self, List.map_nil, run_nil]
    apply hcl (none, _)
    simp [succs, hq]
  | eps hq =>
    rw [slice_self, List.map_nil, run_nil]
    apply hcl (none, _)
    simp [succs, hq]
  | cap hq =>
    rw [slice_self, List.map_nil, run_nil]
    apply hcl (none, _)
    simp [succs, hq]
  | look hq _ =>
    rw [slice_self, List.map_nil, run_nil]
    apply hcl (none, _)
    simp [succs, hq]
  | runeAny hq hi hw =>
    exact rune_sim hc false (by simpa using hq) h i hi (fun h => nomatch h) hw d hm
  | runeAnyNotNL hq hi hnl hw =>
    exact rune_sim hc true (by simpa using hq) h i hi (fun _ => hnl) hw d hm

theorem steps_sim {c : Ctx σ} {V : VSet σ} (hc : Closed c V) {h : Bytes} {a b : Nat × Nat}
    (ss : Steps c.N h a b) : a.2 ≤ h.size → ∀ d : σ, V.Mem ⟨a.1, 0, d⟩ →
      V.Mem ⟨b.1, 0, c.A.run d ((slice h a.2 b.2).map c.cls)⟩ := by
  induction ss with
  | refl a =>
    intro _ d hm
    rw [slice_self, List.map_nil, run_nil]
    exact hm
  | cons st ss ih =>
    rename_i a b e
    obtain ⟨q, i⟩ := a
    obtain ⟨q1, i1⟩ := b
    obtain ⟨q2, j⟩ := e
    intro hi d hm
    have h1 := step_pos_le st hi
    have h2 := steps_pos_le ss h1.2
    simp only at h1 h2 ih ⊢
    rw [slice_append h h1.1 h2.1, List.map_append, run_append]
    exact ih h1.2 _ (step_sim hc st d hm)

/-- the generic soundness statement: a passed check puts every accepted span's abstracted word in `good` -/
theorem runCtx_sound [DecidableEq σ] {c : Ctx σ} {fuel : Nat} (hp : (runCtx c fuel).passed = true)
    {h : Bytes} {i j : Nat} (hi : i ≤ h.size) (ha : Accepts c.N h i j) :
    c.A.good (c.A.run c.A.init ((slice h i j).map c.cls)) = true := by
  cases hr : runCtx c fuel with
  | bad w => rw [hr] at hp; exact nomatch hp
  | fuel => rw [hr] at hp; exact nomatch hp
  | ok V =>
    obtain ⟨hstart, hc⟩ := runCtx_ok hr
    obtain ⟨m, hs, hmt, hlt⟩ := ha
    have hm := steps_sim hc hs hi c.A.init hstart
    have hb := (hc _ hm).1
    simp only [isBad, hmt, hlt, decide_true, Bool.and_true, beq_self_eq_true, Bool.true_and,
      Bool.not_eq_false'] at hb
    exact hb

end Sim

/-! ### 4b. the indexed automata are images of the residual automata -/

/-- the residual an item stands for -/
def resI (T : LitTab) (it : Item) : Lit := (T.getD it.1 #[]).toList.drop it.2

/-- the literal set a table stands for -/
def litsOf (T : LitTab) : List Lit := T.toList.map Array.toList

def absI (T : LitTab) (d : IState) : DState := ⟨d.flag, d.items.map (resI T)⟩

theorem litsOf_mkTab (lits : List Lit) : litsOf (mkTab lits) = lits := by
  simp [litsOf, mkTab, Function.comp_def]

theorem advI_res (T : LitTab) (b : Nat) (it : Item) : (advI T b it).map (resI T) = adv b (resI T it) := by
  obtain ⟨l, k⟩ := it
  unfold advI resI
  simp only
  cases hk : (T.getD l #[])[k]? with
  | none =>
    have hle : (T.getD l #[]).size ≤ k := Array.getElem?_eq_none_iff.mp hk
    have : (T.getD l #[]).toList.drop k = [] := List.drop_eq_nil_of_le (by simpa using hle)
    rw [this]; rfl
  | some c =>
    obtain ⟨hlt, hc⟩ := Array.getElem?_eq_some_iff.mp hk
    have hlt' : k < (T.getD l #[]).toList.length := by simpa using hlt
    rw [List.drop_eq_getElem_cons hlt']
    have hc' : (T.getD l #[]).toList[k] = c := by simpa using hc
    rw [hc']
    simp only [adv]
    split <;> rfl

theorem advAllI_res (T : LitTab) (b : Nat) (R : List Item) :
    (advAllI T b R).map (resI T) = advAll b (R.map (resI T)) := by
  unfold advAllI advAll
  rw [List.map_filterMap, List.filterMap_map]
  congr 1
  funext it
  exact advI_res T b it

theorem doneI_res (T : LitTab) (it : Item) : doneI T it = (resI T it).isEmpty := by
  unfold doneI resI
  rw [Bool.eq_iff_iff]
  simp only [decide_eq_true_eq, List.isEmpty_iff, List.drop_eq_nil_iff, Array.length_toList]

theorem hasDone_res (T : LitTab) (R : List Item) : hasDone T R = hasNil (R.map (resI T)) := by
  unfold hasDone hasNil
  rw [List.any_map]
  congr 1
  funext it
  exact doneI_res T it

theorem seeds_res (T : LitTab) : (seeds T).map (resI T) = litsOf T := by
  unfold seeds litsOf
  apply List.ext_getElem?
  intro i
  simp only [List.map_map, List.getElem?_map]
  by_cases hi : i < T.size
  · simp [resI, hi, Function.comp_def]
  · simp [hi]

theorem absI_mkPI (T : LitTab) (R : List Item) : absI T (mkPI T R) = mkP (R.map (resI T)) := by
  unfold mkPI mkP
  rw [hasDone_res]
  split <;> rfl

theorem absI_stepPI (T : LitTab) (d : IState) (b : Nat) : absI T (stepPI T d b) = stepP (absI T d) b := by
  unfold stepPI stepP
  cases hf : d.flag
  · simp only [absI, hf, Bool.false_eq_true, if_false]
    rw [← advAllI_res]
    exact absI_mkPI T _
  · simp [absI, hf]

theorem absI_mkII (T : LitTab) (R : List Item) :
    absI T (mkII T (seeds T) R) = mkI (litsOf T) (R.map (resI T)) := by
  unfold mkII mkI
  rw [hasDone_res, hasDone_res, seeds_res]
  split <;> rfl

theorem absI_stepII (T : LitTab) (d : IState) (b : Nat) :
    absI T (stepII T (seeds T) d b) = stepI (litsOf T) (absI T d) b := by
  unfold stepII stepI
  cases hf : d.flag
  · simp only [absI, hf, Bool.false_eq_true, if_false]
    rw [← seeds_res, ← advAllI_res, ← advAllI_res, ← List.map_append, seeds_res]
    exact absI_mkII T _
  · simp [absI, hf]

theorem absI_stepSI (T : LitTab) (d : IState) (b : Nat) :
    absI T (stepSI T (seeds T) d b) = stepS (litsOf T) (absI T d) b := by
  unfold stepSI stepS
  cases hf : d.flag
  · simp only [absI, hf, Bool.false_eq_true, if_false]
    rw [← seeds_res, ← advAllI_res, ← advAllI_res, ← List.map_append]
  · simp [absI, hf]

theorem run_abs {σ τ : Type} (A : Auto σ) (B : Auto τ) (f : σ → τ) (hs : ∀ d b, f (A.step d b) = B.step (f d) b)
    (w : List Nat) : ∀ d, f (A.run d w) = B.run (f d) w := by
  induction w with
  | nil => intro d; rfl
  | cons b w ih => intro d; rw [run_cons, run_cons, ih, hs]

theorem prefixAutoI_good (T : LitTab) (w : List Nat) :
    (prefixAutoI T).good ((prefixAutoI T).run (prefixAutoI T).init w) =
    (prefixAuto (litsOf T)).good ((prefixAuto (litsOf T)).run (prefixAuto (litsOf T)).init w) := by
  have h := run_abs (prefixAutoI T) (prefixAuto (litsOf T)) (absI T) (absI_stepPI T) w (prefixAutoI T).init
  have hi : absI T (prefixAutoI T).init = (prefixAuto (litsOf T)).init := by
    show absI T (mkPI T (seeds T)) = mkP (litsOf T)
    rw [absI_mkPI, seeds_res]
  rw [hi] at h
  rw [← h]
  rfl

theorem innerAutoI_good (T : LitTab) (w : List Nat) :
    (innerAutoI T).good ((innerAutoI T).run (innerAutoI T).init w) =
    (innerAuto (litsOf T)).good ((innerAuto (litsOf T)).run (innerAuto (litsOf T)).init w) := by
  have h := run_abs (innerAutoI T) (innerAuto (litsOf T)) (absI T) (absI_stepII T) w (innerAutoI T).init
  have hi : absI T (innerAutoI T).init = (innerAuto (litsOf T)).init := by
    show absI T (mkII T (seeds T) []) = mkI (litsOf T) []
    rw [absI_mkII]; rfl
  rw [hi] at h
  rw [← h]
  rfl

theorem suffixAutoI_good (T : LitTab) (w : List Nat) :
    (suffixAutoI T).good ((suffixAutoI T).run (suffixAutoI T).init w) =
    (suffixAuto (litsOf T)).good ((suffixAuto (litsOf T)).run (suffixAuto (litsOf T)).init w) := by
  have h := run_abs (suffixAutoI T) (suffixAuto (litsOf T)) (absI T) (absI_stepSI T) w (suffixAutoI T).init
  have hi : absI T (suffixAutoI T).init = (suffixAuto (litsOf T)).init := by
    show absI T ⟨hasDone T (seeds T), []⟩ = ⟨hasNil (litsOf T), []⟩
    rw [hasDone_res, seeds_res]; rfl
  rw [hi] at h
  rw [← h]
  show (((suffixAutoI T).run (suffixAutoI T).init w).flag ||
    hasDone T ((suffixAutoI T).run (suffixAutoI T).init w).items) = _
  rw [hasDone_res]
  rfl

/-- the indexed prefix automaton characterises "some literal is a prefix of the word" -/
theorem prefixI_char (lits : List Lit) (w : List Nat) :
    (prefixAutoI (mkTab lits)).good ((prefixAutoI (mkTab lits)).run (prefixAutoI (mkTab lits)).init w) = true ↔
      ∃ l ∈ lits, l <+: w := by
  rw [prefixAutoI_good, litsOf_mkTab]; exact prefix_char lits w

/-- the indexed suffix automaton characterises "some literal is a suffix of the word" -/
theorem suffixI_char (lits : List Lit) (w : List Nat) :
    (suffixAutoI (mkTab lits)).good ((suffixAutoI (mkTab lits)).run (suffixAutoI (mkTab lits)).init w) = true ↔
      ∃ l ∈ lits, l <:+ w := by
  rw [suffixAutoI_good, litsOf_mkTab]; exact suffix_char lits w

/-- the indexed inner automaton characterises "some literal occurs in the word" -/
theorem innerI_char (lits : List Lit) (w : List Nat) :
    (innerAutoI (mkTab lits)).good ((innerAutoI (mkTab lits)).run (innerAutoI (mkTab lits)).init w) = true ↔
      ∃ l ∈ lits, l <:+: w := by
  rw [innerAutoI_good, litsOf_mkTab]; exact inner_char lits w

/-! ### 5. the three soundness theorems -/

theorem mkCtx_N {σ : Type} (N : NFA) (A : Auto σ) (lits : List Lit) : (mkCtx N A lits).N = N := rfl
theorem mkCtx_A {σ : Type} (N : NFA) (A : Auto σ) (lits : List Lit) : (mkCtx N A lits).A = A := rfl

/-- prefix check, any fuel -/
theorem checkPrefixF_sound (fuel : Nat) (N : NFA) (lits : List Lit) (hc : (checkPrefixF fuel N lits).passed = true) :
    ∀ (h : Bytes) (i j : Nat), i ≤ h.size → Accepts N h i j → ∃ l ∈ lits, l <+: slice h i j := by
  intro h i j hi ha
  have ok := mkCtx_alphaOK N (prefixAutoI (mkTab lits)) lits
  have hg := runCtx_sound (c := mkCtx N (prefixAutoI (mkTab lits)) lits) hc hi ha
  rw [mkCtx_A, Ctx.cls_eq] at hg
  obtain ⟨l, hl, hp⟩ := (prefixI_char lits _).mp hg
  exact ⟨l, hl, prefix_of_map_cls ok.fresh_not (ok.lit_mem l hl) hp⟩

/-- suffix check, any fuel -/
theorem checkSuffixF_sound (fuel : Nat) (N : NFA) (lits : List Lit) (hc : (checkSuffixF fuel N lits).passed = true) :
    ∀ (h : Bytes) (i j : Nat), i ≤ h.size → Accepts N h i j → ∃ l ∈ lits, l <:+ slice h i j := by
  intro h i j hi ha
  have ok := mkCtx_alphaOK N (suffixAutoI (mkTab lits)) lits
  have hg := runCtx_sound (c := mkCtx N (suffixAutoI (mkTab lits)) lits) hc hi ha
  rw [mkCtx_A, Ctx.cls_eq] at hg
  obtain ⟨l, hl, hp⟩ := (suffixI_char lits _).mp hg
  exact ⟨l, hl, suffix_of_map_cls ok.fresh_not (ok.lit_mem l hl) hp⟩

/-- inner check, any fuel -/
theorem checkInnerF_sound (fuel : Nat) (N : NFA) (lits : List Lit) (hc : (checkInnerF fuel N lits).passed = true) :
    ∀ (h : Bytes) (i j : Nat), i ≤ h.size → Accepts N h i j → ∃ l ∈ lits, l <:+: slice h i j := by
  intro h i j hi ha
  have ok := mkCtx_alphaOK N (innerAutoI (mkTab lits)) lits
  have hg := runCtx_sound (c := mkCtx N (innerAutoI (mkTab lits)) lits) hc hi ha
  rw [mkCtx_A, Ctx.cls_eq] at hg
  obtain ⟨l, hl, hp⟩ := (innerI_char lits _).mp hg
  exact ⟨l, hl, infix_of_map_cls ok.fresh_not (ok.lit_mem l hl) hp⟩

/-- If the prefix check passes, every accepted span of every haystack starts with one of the literals. -/
theorem checkPrefix_sound (N : NFA) (lits : List Lit) (hc : checkPrefix N lits = true) :
    ∀ (h : Bytes) (i j : Nat), i ≤ h.size → Accepts N h i j → ∃ l ∈ lits, l <+: slice h i j :=
  checkPrefixF_sound defaultFuel N lits hc

/-- If the suffix check passes, every accepted span of every haystack ends with one of the literals. -/
theorem checkSuffix_sound (N : NFA) (lits : List Lit) (hc : checkSuffix N lits = true) :
    ∀ (h : Bytes) (i j : Nat), i ≤ h.size → Accepts N h i j → ∃ l ∈ lits, l <:+ slice h i j :=
  checkSuffixF_sound defaultFuel N lits hc

/-- If the inner check passes, every accepted span of every haystack contains one of the literals. -/
theorem checkInner_sound (N : NFA) (lits : List Lit) (hc : checkInner N lits = true) :
    ∀ (h : Bytes) (i j : Nat), i ≤ h.size → Accepts N h i j → ∃ l ∈ lits, l <:+: slice h i j :=
  checkInnerF_sound defaultFuel N lits hc

/-- the same three theorems for the reference checks over the residual automata -/
theorem checkPrefixR_sound (N : NFA) (lits : List Lit) (fuel : Nat) (hc : (checkPrefixR fuel N lits).passed = true) :
    ∀ (h : Bytes) (i j : Nat), i ≤ h.size → Accepts N h i j → ∃ l ∈ lits, l <+: slice h i j := by
  intro h i j hi ha
  have ok := mkCtx_alphaOK N (prefixAuto lits) lits
  have hg := runCtx_sound (c := mkCtx N (prefixAuto lits) lits) hc hi ha
  rw [mkCtx_A, Ctx.cls_eq] at hg
  obtain ⟨l, hl, hp⟩ := (prefix_char lits _).mp hg
  exact ⟨l, hl, prefix_of_map_cls ok.fresh_not (ok.lit_mem l hl) hp⟩

theorem checkSuffixR_sound (N : NFA) (lits : List Lit) (fuel : Nat) (hc : (checkSuffixR fuel N lits).passed = true) :
    ∀ (h : Bytes) (i j : Nat), i ≤ h.size → Accepts N h i j → ∃ l ∈ lits, l <:+ slice h i j := by
  intro h i j hi ha
  have ok := mkCtx_alphaOK N (suffixAuto lits) lits
  have hg := runCtx_sound (c := mkCtx N (suffixAuto lits) lits) hc hi ha
  rw [mkCtx_A, Ctx.cls_eq] at hg
  obtain ⟨l, hl, hp⟩ := (suffix_char lits _).mp hg
  exact ⟨l, hl, suffix_of_map_cls ok.fresh_not (ok.lit_mem l hl) hp⟩

theorem checkInnerR_sound (N : NFA) (lits : List Lit) (fuel : Nat) (hc : (checkInnerR fuel N lits).passed = true) :
    ∀ (h : Bytes) (i j : Nat), i ≤ h.size → Accepts N h i j → ∃ l ∈ lits, l <:+: slice h i j := by
  intro h i j hi ha
  have ok := mkCtx_alphaOK N (innerAuto lits) lits
  have hg := runCtx_sound (c := mkCtx N (innerAuto lits) lits) hc hi ha
  rw [mkCtx_A, Ctx.cls_eq] at hg
  obtain ⟨l, hl, hp⟩ := (inner_char lits _).mp hg
  exact ⟨l, hl, infix_of_map_cls ok.fresh_not (ok.lit_mem l hl) hp⟩

/-- `slice` agrees with the array's own `extract` when the span lies inside the haystack
    (which `Accepts` guarantees, `reaches_pos_le`). -/
theorem slice_eq_extract (h : Bytes) (i j : Nat) (hj : j ≤ h.size) : slice h i j = (h.extract i j).toList := by
  apply List.ext_getElem?
  intro k
  by_cases hk : k < j - i
  · rw [slice_getElem? h i j k hk]
    have h1 : i + k < h.size := by omega
    simp [Bytes.at, hk, h1]
  · have h1 : (slice h i j).length ≤ k := by rw [slice_length]; omega
    have h2 : (h.extract i j).toList.length ≤ k := by simp; omega
    rw [List.getElem?_eq_none h1, List.getElem?_eq_none h2]

/-! ### 6. non-vacuity: the checks on small automata (kernel-evaluated) -/

section Examples

/-- `ab|ac` -/
def exAbAc : NFA :=
  { states := #[.split 1 4, .byteRange 97 97 2, .byteRange 98 98 3, .mtch, .byteRange 97 97 5, .byteRange 99 99 3],
    startAnchored := 0, startUnanchored := 0 }

/-- `x*foo` -/
def exXFoo : NFA :=
  { states := #[.split 1 2, .byteRange 120 120 0, .byteRange 102 102 3, .byteRange 111 111 4,
                .byteRange 111 111 5, .mtch],
    startAnchored := 0, startUnanchored := 0 }

/-- `.*foo\b` with a capture group: rune state, look-around, capture, sparse -/
def exDotFoo : NFA :=
  { states := #[.split 1 2, .runeAnyNotNL 0, .cap 2 true 3, .sparse [(102, 102, 4)], .byteRange 111 111 5,
                .byteRange 111 111 6, .cap 3 false 7, .look .wordB 8, .mtch],
    startAnchored := 0, startUnanchored := 0 }

/-- accepts nothing -/
def exNone : NFA := { states := #[.eps 1, .fail, .mtch], startAnchored := 0, startUnanchored := 0 }

-- ab|ac
example : checkPrefix exAbAc [[97]] = true := by decide +kernel
example : checkPrefix exAbAc [[97, 98], [97, 99]] = true := by decide +kernel
example : checkPrefix exAbAc [[97, 98]] = false := by decide +kernel
example : checkPrefixWitness exAbAc [[97, 98]] = some [97, 99] := by decide +kernel
example : checkSuffix exAbAc [[98], [99]] = true := by decide +kernel
example : checkSuffix exAbAc [[98]] = false := by decide +kernel
example : checkInner exAbAc [[98], [99]] = true := by decide +kernel
example : checkInner exAbAc [[97, 97]] = false := by decide +kernel
-- x*foo
example : checkSuffix exXFoo [[102, 111, 111]] = true := by decide +kernel
example : checkInner exXFoo [[111, 111]] = true := by decide +kernel
example : checkPrefix exXFoo [[102, 111, 111]] = false := by decide +kernel
example : checkPrefixWitness exXFoo [[102, 111, 111]] = some [120, 102, 111, 111] := by decide +kernel
example : checkPrefix exXFoo [[102], [120]] = true := by decide +kernel
example : checkSuffix exXFoo [[111, 111], [120]] = true := by decide +kernel
example : checkSuffix exXFoo [[102, 111]] = false := by decide +kernel
example : checkInner exXFoo [[120]] = false := by decide +kernel
example : checkInnerWitness exXFoo [[120]] = some [102, 111, 111] := by decide +kernel
-- .*foo\b
example : checkSuffix exDotFoo [[102, 111, 111]] = true := by decide +kernel
example : checkInner exDotFoo [[111, 111]] = true := by decide +kernel
example : checkPrefix exDotFoo [[102, 111, 111]] = false := by decide +kernel
example : checkSuffix exDotFoo [[120, 102, 111, 111]] = false := by decide +kernel
-- the empty literal is everywhere; the empty set is nowhere, unless nothing is accepted
example : checkPrefix exXFoo [[]] = true := by decide +kernel
example : checkSuffix exXFoo [[]] = true := by decide +kernel
example : checkInner exXFoo [[]] = true := by decide +kernel
example : checkPrefix exXFoo [] = false := by decide +kernel
example : checkSuffix exXFoo [] = false := by decide +kernel
example : checkInner exXFoo [] = false := by decide +kernel
example : checkPrefix exNone [] = true := by decide +kernel
example : checkSuffix exNone [] = true := by decide +kernel
example : checkInner exNone [] = true := by decide +kernel

/-- the theorems apply: every match of `x*foo` ends with `foo` — for every haystack -/
example (h : Bytes) (i j : Nat) (hi : i ≤ h.size) (ha : Accepts exXFoo h i j) :
    ∃ l ∈ [[102, 111, 111]], l <:+ slice h i j :=
  checkSuffix_sound exXFoo [[102, 111, 111]] (by decide +kernel) h i j hi ha

end Examples

/-! ### 7. the line protocol: an `ok` answer carries the theorem -/

section Driver
open Cx.DriverLit

theorem handle_prefix_ok {nfa lits : String} (hh : handle? ["litcheck", "prefix", nfa, lits] = some "ok") :
    ∃ N ls, Driver.parseNfa nfa = some N ∧ parseLits lits = some ls ∧
      ∀ (h : Bytes) (i j : Nat), i ≤ h.size → Accepts N h i j → ∃ l ∈ ls, l <+: slice h i j := by
  simp only [handle?] at hh
  split at hh
  · next N ls hN hls =>
    simp only [Option.some.injEq] at hh
    exact ⟨N, ls, hN, hls, checkPrefixF_sound _ N ls ((showRes_ok _).mp hh)⟩
  · exact absurd (Option.some.inj hh) (by decide)

theorem handle_suffix_ok {nfa lits : String} (hh : handle? ["litcheck", "suffix", nfa, lits] = some "ok") :
    ∃ N ls, Driver.parseNfa nfa = some N ∧ parseLits lits = some ls ∧
      ∀ (h : Bytes) (i j : Nat), i ≤ h.size → Accepts N h i j → ∃ l ∈ ls, l <:+ slice h i j := by
  simp only [handle?] at hh
  split at hh
  · next N ls hN hls =>
    simp only [Option.some.injEq] at hh
    exact ⟨N, ls, hN, hls, checkSuffixF_sound _ N ls ((showRes_ok _).mp hh)⟩
  · exact absurd (Option.some.inj hh) (by decide)

theorem handle_inner_ok {nfa lits : String} (hh : handle? ["litcheck", "inner", nfa, lits] = some "ok") :
    ∃ N ls, Driver.parseNfa nfa = some N ∧ parseLits lits = some ls ∧
      ∀ (h : Bytes) (i j : Nat), i ≤ h.size → Accepts N h i j → ∃ l ∈ ls, l <:+: slice h i j := by
  simp only [handle?] at hh
  split at hh
  · next N ls hN hls =>
    simp only [Option.some.injEq] at hh
    exact ⟨N, ls, hN, hls, checkInnerF_sound _ N ls ((showRes_ok _).mp hh)⟩
  · exact absurd (Option.some.inj hh) (by decide)

end Driver

end Cx.Lit
