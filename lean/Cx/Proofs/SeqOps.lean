import Cx.Model.SeqOps
/-
  Cx.Proofs.SeqOps — the set reductions of `literal/seq.go` keep the necessity guarantees of the literal extractor.
-/
namespace Cx.SeqOps

/-! ## isPrefix -/

theorem isPrefix_iff (p s : List Nat) : isPrefix p s = true ↔ p <+: s := by
  unfold isPrefix
  by_cases h : p.length > s.length
  · simp only [h, if_true, Bool.false_eq_true, false_iff]
    intro hp; have := hp.length_le; omega
  · simp only [h, if_false, beq_iff_eq]
    exact List.prefix_iff_eq_take.symm

/-! ## commonPrefix -/

/-- what the index loop returns: `a[:k]` with `a[:k] = b[:k]` and either `k = minLen` or `a[k] ≠ b[k]` -/
theorem commonPrefixGo_spec (a b : List Nat) (m : Nat) (hma : m ≤ a.length) (hmb : m ≤ b.length) :
    ∀ (f i : Nat), f + i = m → a.take i = b.take i →
      ∃ k, commonPrefixGo a b m f i = a.take k ∧ k ≤ m ∧ a.take k = b.take k ∧
        (k = m ∨ a.getD k 0 ≠ b.getD k 0) := by
  intro f
  induction f with
  | zero =>
    intro i hi hinv
    have : i = m := by omega
    subst this
    exact ⟨i, rfl, Nat.le_refl _, hinv, Or.inl rfl⟩
  | succ f ih =>
    intro i hi hinv
    unfold commonPrefixGo
    by_cases hne : (a.getD i 0 != b.getD i 0) = true
    · rw [if_pos hne]
      exact ⟨i, rfl, by omega, hinv, Or.inr (by simpa using hne)⟩
    · rw [if_neg hne]
      have heq : a.getD i 0 = b.getD i 0 := by simpa using hne
      apply ih (i + 1) (by omega)
      have hia : i < a.length := by omega
      have hib : i < b.length := by omega
      rw [List.take_add_one, List.take_add_one, hinv]
      congr 1
      simp only [List.getD_eq_getElem?_getD, List.getElem?_eq_getElem hia, List.getElem?_eq_getElem hib,
        Option.getD_some] at heq
      simp [List.getElem?_eq_getElem hia, List.getElem?_eq_getElem hib, heq]

theorem commonPrefix_char (a b : List Nat) :
    ∃ k, commonPrefix a b = a.take k ∧ k ≤ a.length ∧ k ≤ b.length ∧ a.take k = b.take k ∧
      ((k = a.length ∨ k = b.length) ∨ a.getD k 0 ≠ b.getD k 0) := by
  unfold commonPrefix
  by_cases h : b.length < a.length
  · simp only [h, if_true]
    obtain ⟨k, h1, h2, h3, h4⟩ := commonPrefixGo_spec a b b.length (by omega) (Nat.le_refl _) b.length 0 rfl rfl
    exact ⟨k, h1, by omega, h2, h3, h4.elim (fun e => Or.inl (Or.inr e)) Or.inr⟩
  · simp only [h, if_false]
    obtain ⟨k, h1, h2, h3, h4⟩ := commonPrefixGo_spec a b a.length (Nat.le_refl _) (by omega) a.length 0 rfl rfl
    exact ⟨k, h1, h2, by omega, h3, h4.elim (fun e => Or.inl (Or.inl e)) Or.inr⟩

theorem commonPrefix_prefix_left (a b : List Nat) : commonPrefix a b <+: a := by
  obtain ⟨k, h, -⟩ := commonPrefix_char a b
  rw [h]; exact List.take_prefix _ _

theorem commonPrefix_prefix_right (a b : List Nat) : commonPrefix a b <+: b := by
  obtain ⟨k, h, _, _, h3, -⟩ := commonPrefix_char a b
  rw [h, h3]; exact List.take_prefix _ _

theorem commonPrefix_greatest (a b p : List Nat) (ha : p <+: a) (hb : p <+: b) : p <+: commonPrefix a b := by
  obtain ⟨k, h, hka, hkb, h3, h4⟩ := commonPrefix_char a b
  rw [h, List.prefix_take_iff]
  refine ⟨ha, ?_⟩
  apply Nat.le_of_not_lt
  intro hlt
  have hla := ha.length_le
  have hlb := hb.length_le
  rcases h4 with h4 | h4
  · omega
  · apply h4
    have e1 := ha.getElem hlt
    have e2 := hb.getElem hlt
    simp only [List.getD_eq_getElem?_getD, List.getElem?_eq_getElem (show k < a.length by omega),
      List.getElem?_eq_getElem (show k < b.length by omega), Option.getD_some]
    rw [← e1, ← e2]

/-- `commonPrefix a b` is the greatest common prefix of `a` and `b` -/
theorem commonPrefix_spec (a b : List Nat) :
    commonPrefix a b <+: a ∧ commonPrefix a b <+: b ∧ ∀ p, p <+: a → p <+: b → p <+: commonPrefix a b :=
  ⟨commonPrefix_prefix_left a b, commonPrefix_prefix_right a b, fun p => commonPrefix_greatest a b p⟩

/-! ## commonSuffix: the mirror image of commonPrefix -/

theorem getD_reverse (a : List Nat) (i : Nat) (h : i < a.length) : a.reverse.getD i 0 = a.getD (a.length - 1 - i) 0 := by
  simp only [List.getD_eq_getElem?_getD, List.getElem?_reverse h]

theorem commonSuffixGo_eq (a b : List Nat) (m : Nat) (hma : m ≤ a.length) (hmb : m ≤ b.length) :
    ∀ (f i : Nat), f + i = m →
      commonSuffixGo a b m f i = (commonPrefixGo a.reverse b.reverse m f i).reverse := by
  intro f
  induction f with
  | zero =>
    intro i _
    simp only [commonSuffixGo, commonPrefixGo, List.take_reverse, List.reverse_reverse]
  | succ f ih =>
    intro i hi
    unfold commonSuffixGo commonPrefixGo
    rw [getD_reverse a i (by omega), getD_reverse b i (by omega)]
    by_cases hne : (a.getD (a.length - 1 - i) 0 != b.getD (b.length - 1 - i) 0) = true
    · rw [if_pos hne, if_pos hne]
      by_cases h0 : i = 0
      · subst h0; simp
      · rw [if_neg h0]; simp only [List.take_reverse, List.reverse_reverse]
    · rw [if_neg hne, if_neg hne]
      exact ih (i + 1) (by omega)

theorem commonSuffix_eq_reverse (a b : List Nat) :
    commonSuffix a b = (commonPrefix a.reverse b.reverse).reverse := by
  unfold commonSuffix commonPrefix
  simp only [List.length_reverse]
  by_cases h : b.length < a.length
  · simp only [h, if_true]; exact commonSuffixGo_eq a b _ (by omega) (Nat.le_refl _) _ 0 rfl
  · simp only [h, if_false]; exact commonSuffixGo_eq a b _ (Nat.le_refl _) (by omega) _ 0 rfl

theorem commonSuffix_suffix_left (a b : List Nat) : commonSuffix a b <:+ a := by
  rw [commonSuffix_eq_reverse, ← List.reverse_prefix, List.reverse_reverse]
  exact commonPrefix_prefix_left _ _

theorem commonSuffix_suffix_right (a b : List Nat) : commonSuffix a b <:+ b := by
  rw [commonSuffix_eq_reverse, ← List.reverse_prefix, List.reverse_reverse]
  exact commonPrefix_prefix_right _ _

theorem commonSuffix_greatest (a b p : List Nat) (ha : p <:+ a) (hb : p <:+ b) : p <:+ commonSuffix a b := by
  rw [commonSuffix_eq_reverse, ← List.reverse_prefix, List.reverse_reverse]
  exact commonPrefix_greatest _ _ _ (List.reverse_prefix.mpr ha) (List.reverse_prefix.mpr hb)

/-- `commonSuffix a b` is the greatest common suffix of `a` and `b` -/
theorem commonSuffix_spec (a b : List Nat) :
    commonSuffix a b <:+ a ∧ commonSuffix a b <:+ b ∧ ∀ p, p <:+ a → p <:+ b → p <:+ commonSuffix a b :=
  ⟨commonSuffix_suffix_left a b, commonSuffix_suffix_right a b, fun p => commonSuffix_greatest a b p⟩

example : commonPrefix [1, 2, 3, 4] [1, 2, 9] = [1, 2] := by decide
example : commonPrefix [1, 2] [1, 2, 9] = [1, 2] := by decide
example : commonSuffix [7, 1, 2] [9, 9, 1, 2] = [1, 2] := by decide
example : commonSuffix [1, 2] [3] = [] := by decide
example : isPrefix [1] [1, 2] = true ∧ isPrefix [1, 2] [1] = false ∧ isPrefix [] [] = true := by decide

/-! ## LongestCommonPrefix -/

theorem lcpLoop_prefix (ls : List Lit) : ∀ p, lcpLoop p ls <+: p ∧ ∀ l ∈ ls, lcpLoop p ls <+: l.bytes := by
  induction ls with
  | nil => intro p; exact ⟨List.prefix_refl _, fun _ h => nomatch h⟩
  | cons l ls ih =>
    intro p
    simp only [lcpLoop]
    by_cases h0 : (commonPrefix p l.bytes).length = 0
    · rw [if_pos h0]
      exact ⟨List.nil_prefix, fun _ _ => List.nil_prefix⟩
    · rw [if_neg h0]
      obtain ⟨h1, h2⟩ := ih (commonPrefix p l.bytes)
      refine ⟨h1.trans (commonPrefix_prefix_left _ _), ?_⟩
      intro x hx
      rcases List.mem_cons.mp hx with rfl | hx
      · exact h1.trans (commonPrefix_prefix_right _ _)
      · exact h2 x hx

theorem lcpLoop_greatest (q : List Nat) (ls : List Lit) :
    ∀ p, q <+: p → (∀ l ∈ ls, q <+: l.bytes) → q <+: lcpLoop p ls := by
  induction ls with
  | nil => intro p hp _; exact hp
  | cons l ls ih =>
    intro p hp hall
    have hq : q <+: commonPrefix p l.bytes := commonPrefix_greatest _ _ _ hp (hall l (List.mem_cons_self))
    simp only [lcpLoop]
    by_cases h0 : (commonPrefix p l.bytes).length = 0
    · rw [if_pos h0]
      rwa [List.length_eq_zero_iff.mp h0] at hq
    · rw [if_neg h0]
      exact ih _ hq (fun x hx => hall x (List.mem_cons_of_mem _ hx))

theorem lcp_nil : lcp [] = [] := rfl

/-- the result of `LongestCommonPrefix` is a prefix of every literal of the sequence -/
theorem lcp_prefix_all (s : List Lit) : ∀ l ∈ s, lcp s <+: l.bytes := by
  cases s with
  | nil => intro _ h; nomatch h
  | cons l ls =>
    intro x hx
    obtain ⟨h1, h2⟩ := lcpLoop_prefix ls l.bytes
    rcases List.mem_cons.mp hx with rfl | hx
    · exact h1
    · exact h2 x hx

/-- … and the greatest such (for a non-empty sequence; `lcp [] = []`) -/
theorem lcp_greatest (s : List Lit) (p : List Nat) (h : ∀ l ∈ s, p <+: l.bytes) (hne : s ≠ []) : p <+: lcp s := by
  cases s with
  | nil => exact absurd rfl hne
  | cons l ls =>
    exact lcpLoop_greatest p ls l.bytes (h l List.mem_cons_self) (fun x hx => h x (List.mem_cons_of_mem _ hx))

/-- NECESSITY: if every match starts with one of the literals, every match starts with their LCP -/
theorem lcp_keeps_prefix (s : List Lit) (m : List Nat) (h : ∃ l ∈ s, l.bytes <+: m) : lcp s <+: m := by
  obtain ⟨l, hl, hm⟩ := h
  exact (lcp_prefix_all s l hl).trans hm

/-! ## LongestCommonSuffix -/

theorem lcsLoop_suffix (ls : List Lit) : ∀ p, lcsLoop p ls <:+ p ∧ ∀ l ∈ ls, lcsLoop p ls <:+ l.bytes := by
  induction ls with
  | nil => intro p; exact ⟨List.suffix_refl _, fun _ h => nomatch h⟩
  | cons l ls ih =>
    intro p
    simp only [lcsLoop]
    by_cases h0 : (commonSuffix p l.bytes).length = 0
    · rw [if_pos h0]
      exact ⟨List.nil_suffix, fun _ _ => List.nil_suffix⟩
    · rw [if_neg h0]
      obtain ⟨h1, h2⟩ := ih (commonSuffix p l.bytes)
      refine ⟨h1.trans (commonSuffix_suffix_left _ _), ?_⟩
      intro x hx
      rcases List.mem_cons.mp hx with rfl | hx
      · exact h1.trans (commonSuffix_suffix_right _ _)
      · exact h2 x hx

theorem lcsLoop_greatest (q : List Nat) (ls : List Lit) :
    ∀ p, q <:+ p → (∀ l ∈ ls, q <:+ l.bytes) → q <:+ lcsLoop p ls := by
  induction ls with
  | nil => intro p hp _; exact hp
  | cons l ls ih =>
    intro p hp hall
    have hq : q <:+ commonSuffix p l.bytes := commonSuffix_greatest _ _ _ hp (hall l (List.mem_cons_self))
    simp only [lcsLoop]
    by_cases h0 : (commonSuffix p l.bytes).length = 0
    · rw [if_pos h0]
      rwa [List.length_eq_zero_iff.mp h0] at hq
    · rw [if_neg h0]
      exact ih _ hq (fun x hx => hall x (List.mem_cons_of_mem _ hx))

theorem lcs_nil : lcs [] = [] := rfl

theorem lcs_suffix_all (s : List Lit) : ∀ l ∈ s, lcs s <:+ l.bytes := by
  cases s with
  | nil => intro _ h; nomatch h
  | cons l ls =>
    intro x hx
    obtain ⟨h1, h2⟩ := lcsLoop_suffix ls l.bytes
    rcases List.mem_cons.mp hx with rfl | hx
    · exact h1
    · exact h2 x hx

theorem lcs_greatest (s : List Lit) (p : List Nat) (h : ∀ l ∈ s, p <:+ l.bytes) (hne : s ≠ []) : p <:+ lcs s := by
  cases s with
  | nil => exact absurd rfl hne
  | cons l ls =>
    exact lcsLoop_greatest p ls l.bytes (h l List.mem_cons_self) (fun x hx => h x (List.mem_cons_of_mem _ hx))

/-- NECESSITY: if every match ends with one of the literals, every match ends with their LCS -/
theorem lcs_keeps_suffix (s : List Lit) (m : List Nat) (h : ∃ l ∈ s, l.bytes <:+ m) : lcs s <:+ m := by
  obtain ⟨l, hl, hm⟩ := h
  exact (lcs_suffix_all s l hl).trans hm

/-- the LCP of a PREFIX set says nothing about how a match ENDS (and vice versa): the two reductions must be applied
    to the matching kind of sequence -/
theorem lcp_not_suffix : ∃ (s : List Lit) (m : List Nat), (∃ l ∈ s, l.bytes <:+ m) ∧ ¬ lcp s <:+ m :=
  ⟨[⟨[1, 2], true⟩, ⟨[1, 3, 2], true⟩], [9, 1, 2], by decide, by decide⟩

/- non-vacuity: "hello"/"help"/"hero" → "he"; "cat"/"bat"/"rat" → "at"; the early exit -/
example : lcp [⟨[104, 101, 108, 108, 111], true⟩, ⟨[104, 101, 108, 112], true⟩, ⟨[104, 101, 114, 111], false⟩] = [104, 101] := by decide
example : lcs [⟨[99, 97, 116], true⟩, ⟨[98, 97, 116], true⟩, ⟨[114, 97, 116], true⟩] = [97, 116] := by decide
example : lcp [⟨[1, 2], true⟩, ⟨[3], true⟩, ⟨[1, 2], true⟩] = [] := by decide
example : lcs [⟨[1, 2], true⟩] = [1, 2] := by decide
example : (∃ l ∈ [⟨[1, 2, 3], true⟩, ⟨[1, 2, 4], false⟩], Lit.bytes l <+: [1, 2, 4, 7]) ∧
    lcp [⟨[1, 2, 3], true⟩, ⟨[1, 2, 4], false⟩] = [1, 2] := by decide

/-! ## Minimize -/

/-- sorted by length, shortest first -/
def SortedByLen (s : List Lit) : Prop := s.Pairwise fun a b => a.bytes.length ≤ b.bytes.length

/-- neither byte string is a prefix of the other (in particular they are different) -/
def Incomp (a b : Lit) : Prop := ¬ a.bytes <+: b.bytes ∧ ¬ b.bytes <+: a.bytes

theorem insertByLen_perm (x : Lit) (ys : List Lit) : (insertByLen x ys).Perm (x :: ys) := by
  induction ys with
  | nil => exact List.Perm.refl _
  | cons y ys ih =>
    simp only [insertByLen]
    split
    · exact List.Perm.refl _
    · exact (List.Perm.cons y ih).trans (List.Perm.swap x y ys)

theorem sortByLen_perm (s : List Lit) : (sortByLen s).Perm s := by
  induction s with
  | nil => exact List.Perm.refl _
  | cons x xs ih => exact (insertByLen_perm x _).trans (List.Perm.cons x ih)

theorem insertByLen_sorted (x : Lit) (ys : List Lit) (h : SortedByLen ys) : SortedByLen (insertByLen x ys) := by
  induction ys with
  | nil => exact List.pairwise_singleton _ _
  | cons y ys ih =>
    simp only [insertByLen]
    obtain ⟨hy, hys⟩ := List.pairwise_cons.mp h
    split
    · rename_i hle
      refine List.pairwise_cons.mpr ⟨?_, h⟩
      intro z hz
      rcases List.mem_cons.mp hz with rfl | hz
      · exact hle
      · exact Nat.le_trans hle (hy z hz)
    · rename_i hnle
      refine List.pairwise_cons.mpr ⟨?_, ih hys⟩
      intro z hz
      rcases List.mem_cons.mp ((insertByLen_perm x ys).mem_iff.mp hz) with rfl | hz
      · omega
      · exact hy z hz

theorem sortByLen_sorted (s : List Lit) : SortedByLen (sortByLen s) := by
  induction s with
  | nil => exact List.Pairwise.nil
  | cons x xs ih => exact insertByLen_sorted x _ ih

theorem insertByLen_filter (n : Nat) (x : Lit) (ys : List Lit) :
    (insertByLen x ys).filter (fun l => l.bytes.length == n) = (x :: ys).filter (fun l => l.bytes.length == n) := by
  induction ys with
  | nil => rfl
  | cons y ys ih =>
    simp only [insertByLen]
    split
    · rfl
    · rename_i hnle
      rw [List.filter_cons, ih]
      by_cases hx : x.bytes.length = n <;> by_cases hy : y.bytes.length = n
      · omega
      · simp [hx, hy]
      · simp [hx, hy]
      · simp [hx, hy]

/-- the model's sort is STABLE: literals of equal length keep their input order -/
theorem sortByLen_stable (n : Nat) (s : List Lit) :
    (sortByLen s).filter (fun l => l.bytes.length == n) = s.filter (fun l => l.bytes.length == n) := by
  induction s with
  | nil => rfl
  | cons x xs ih =>
    simp only [sortByLen]
    rw [insertByLen_filter, List.filter_cons, List.filter_cons, ih]

theorem isRedundant_iff (kept : List Lit) (c : Lit) :
    isRedundant kept c = true ↔ ∃ k ∈ kept, k.bytes <+: c.bytes := by
  simp only [isRedundant, List.any_eq_true, isPrefix_iff]

theorem minimize_eq (s : List Lit) : minimize s = minLoop [] (sortByLen s) := by
  cases s <;> rfl

/-- the filter only drops literals, and keeps the order -/
theorem minLoop_sublist (rest : List Lit) : ∀ kept, (minLoop kept rest).Sublist (kept ++ rest) := by
  induction rest with
  | nil => intro kept; simp [minLoop]
  | cons c rest ih =>
    intro kept
    simp only [minLoop]
    split
    · exact (ih kept).trans (List.Sublist.append_left (List.sublist_cons_self c rest) kept)
    · have := ih (kept ++ [c])
      simpa using this

/-- the loop, for ANY input order: a literal of the input is a prefix of `m` iff a kept one is -/
theorem minLoop_keeps_prefix (m : List Nat) (rest : List Lit) :
    ∀ kept, (∃ l ∈ kept ++ rest, l.bytes <+: m) ↔ (∃ l ∈ minLoop kept rest, l.bytes <+: m) := by
  induction rest with
  | nil => intro kept; simp [minLoop]
  | cons c rest ih =>
    intro kept
    simp only [minLoop]
    split
    · rename_i hred
      rw [← ih kept]
      obtain ⟨k, hk, hkc⟩ := (isRedundant_iff kept c).mp hred
      constructor
      · rintro ⟨l, hl, hlm⟩
        rcases List.mem_append.mp hl with hl | hl
        · exact ⟨l, List.mem_append_left _ hl, hlm⟩
        · rcases List.mem_cons.mp hl with rfl | hl
          · exact ⟨k, List.mem_append_left _ hk, hkc.trans hlm⟩
          · exact ⟨l, List.mem_append_right _ hl, hlm⟩
      · rintro ⟨l, hl, hlm⟩
        rcases List.mem_append.mp hl with hl | hl
        · exact ⟨l, List.mem_append_left _ hl, hlm⟩
        · exact ⟨l, List.mem_append_right _ (List.mem_cons_of_mem _ hl), hlm⟩
    · rw [← ih (kept ++ [c])]
      simp only [List.append_assoc, List.singleton_append]

/-- the loop on a length-sorted input: the kept literals are pairwise incomparable -/
theorem minLoop_antichain (rest : List Lit) :
    ∀ kept, kept.Pairwise Incomp → (∀ k ∈ kept, ∀ r ∈ rest, k.bytes.length ≤ r.bytes.length) → SortedByLen rest →
      (minLoop kept rest).Pairwise Incomp := by
  induction rest with
  | nil => intro kept hk _ _; exact hk
  | cons c rest ih =>
    intro kept hk hlen hs
    obtain ⟨hc, hrest⟩ := List.pairwise_cons.mp hs
    simp only [minLoop]
    split
    · exact ih kept hk (fun k hkm r hr => hlen k hkm r (List.mem_cons_of_mem _ hr)) hrest
    · rename_i hred
      have hnr : ¬ ∃ k ∈ kept, k.bytes <+: c.bytes := fun h => hred ((isRedundant_iff kept c).mpr h)
      apply ih (kept ++ [c])
      · refine List.pairwise_append.mpr ⟨hk, List.pairwise_singleton _ _, ?_⟩
        intro a ha b hb
        rw [List.mem_singleton.mp hb]
        refine ⟨fun h => hnr ⟨a, ha, h⟩, fun h => hnr ⟨a, ha, ?_⟩⟩
        have hle := hlen a ha c List.mem_cons_self
        have := h.eq_of_length (Nat.le_antisymm h.length_le hle)
        rw [this]; exact List.prefix_refl _
      · intro k hkm r hr
        rcases List.mem_append.mp hkm with hkm | hkm
        · exact hlen k hkm r (List.mem_cons_of_mem _ hr)
        · rw [List.mem_singleton.mp hkm]; exact hc r hr
      · exact hrest

theorem pairwise_incomp_forall {l : List Lit} (h : l.Pairwise Incomp) :
    ∀ a ∈ l, ∀ b ∈ l, a.bytes <+: b.bytes → a = b := by
  induction l with
  | nil => intro a ha; nomatch ha
  | cons x xs ih =>
    obtain ⟨hx, hxs⟩ := List.pairwise_cons.mp h
    intro a ha b hb hab
    rcases List.mem_cons.mp ha with ea | ha' <;> rcases List.mem_cons.mp hb with eb | hb'
    · rw [ea, eb]
    · rw [ea] at hab; exact absurd hab (hx b hb').1
    · rw [eb] at hab; exact absurd hab (hx a ha').2
    · exact ih hxs a ha' b hb' hab

/-- `b` is a prefix-minimal byte string of `s` -/
def MinimalIn (s : List Lit) (b : List Nat) : Prop :=
  b ∈ s.map Lit.bytes ∧ ∀ l ∈ s, l.bytes <+: b → l.bytes = b

/-- for ANY length-sorted arrangement of the input, the byte strings kept are exactly the prefix-minimal ones -/
theorem minLoop_bytes_iff (s : List Lit) (hs : SortedByLen s) (b : List Nat) :
    b ∈ (minLoop [] s).map Lit.bytes ↔ MinimalIn s b := by
  have hsub : ∀ l ∈ minLoop [] s, l ∈ s := fun l hl => by simpa using (minLoop_sublist s []).subset hl
  have hkeep := fun m => minLoop_keeps_prefix m s []
  have hanti := pairwise_incomp_forall (minLoop_antichain s [] List.Pairwise.nil (fun _ h => nomatch h) hs)
  constructor
  · intro hb
    obtain ⟨l, hl, rfl⟩ := List.mem_map.mp hb
    refine ⟨List.mem_map.mpr ⟨l, hsub l hl, rfl⟩, ?_⟩
    intro x hx hxl
    obtain ⟨k, hk, hkx⟩ := (hkeep x.bytes).mp ⟨x, by simpa using hx, List.prefix_refl _⟩
    have : k = l := hanti k hk l hl (hkx.trans hxl)
    subst this
    exact hxl.eq_of_length (Nat.le_antisymm hxl.length_le hkx.length_le)
  · rintro ⟨hb, hmin⟩
    obtain ⟨x, hx, rfl⟩ := List.mem_map.mp hb
    obtain ⟨k, hk, hkx⟩ := (hkeep x.bytes).mp ⟨x, by simpa using hx, List.prefix_refl _⟩
    exact List.mem_map.mpr ⟨k, hk, hmin k (hsub k hk) hkx⟩

theorem minLoop_bytes_nodup (s : List Lit) (hs : SortedByLen s) : ((minLoop [] s).map Lit.bytes).Nodup := by
  have := minLoop_antichain s [] List.Pairwise.nil (fun _ h => nomatch h) hs
  refine List.Pairwise.map Lit.bytes ?_ this
  intro a b hab heq
  exact hab.1 (heq ▸ List.prefix_refl _)

/-- NECESSITY: Minimize keeps (and does not strengthen) the prefix guarantee — every match starts with one of the
    literals iff it starts with one of the minimised ones -/
theorem minimize_keeps_prefix (s : List Lit) (m : List Nat) :
    (∃ l ∈ s, l.bytes <+: m) ↔ (∃ l ∈ minimize s, l.bytes <+: m) := by
  rw [minimize_eq, ← minLoop_keeps_prefix m (sortByLen s) []]
  simp only [List.nil_append, (sortByLen_perm s).mem_iff]

theorem minimize_subset (s : List Lit) : ∀ l ∈ minimize s, l ∈ s := by
  intro l hl
  rw [minimize_eq] at hl
  have := (minLoop_sublist (sortByLen s) []).subset hl
  exact (sortByLen_perm s).mem_iff.mp (by simpa using this)

/-- the result is a sub-list of the sorted input (order kept) -/
theorem minimize_sublist (s : List Lit) : (minimize s).Sublist (sortByLen s) := by
  rw [minimize_eq]; simpa using minLoop_sublist (sortByLen s) []

/-- no kept literal's bytes are a prefix of (or equal to) another kept literal's bytes -/
theorem minimize_antichain (s : List Lit) : (minimize s).Pairwise Incomp := by
  rw [minimize_eq]
  exact minLoop_antichain _ [] List.Pairwise.nil (fun _ h => nomatch h) (sortByLen_sorted s)

theorem minimize_antichain' (s : List Lit) : ∀ a ∈ minimize s, ∀ b ∈ minimize s, a.bytes <+: b.bytes → a = b :=
  pairwise_incomp_forall (minimize_antichain s)

theorem minimize_sorted (s : List Lit) : SortedByLen (minimize s) :=
  (sortByLen_sorted s).sublist (minimize_sublist s)

/-- the byte strings kept are exactly the prefix-minimal byte strings of the input -/
theorem minimize_bytes_iff (s : List Lit) (b : List Nat) : b ∈ (minimize s).map Lit.bytes ↔ MinimalIn s b := by
  rw [minimize_eq, minLoop_bytes_iff _ (sortByLen_sorted s)]
  simp only [MinimalIn, List.mem_map, (sortByLen_perm s).mem_iff]

/-- INDEPENDENCE OF THE SORT: whatever length-sorted permutation `s'` of the input Go's (unstable) `sort.Slice` produces,
    the byte strings that survive the filter are those of the model, up to order -/
theorem minimize_bytes_any_sort (s s' : List Lit) (hp : s'.Perm s) (hs : SortedByLen s') :
    ((minLoop [] s').map Lit.bytes).Perm ((minimize s).map Lit.bytes) := by
  rw [List.perm_ext_iff_of_nodup (minLoop_bytes_nodup s' hs)
    (by rw [minimize_eq]; exact minLoop_bytes_nodup _ (sortByLen_sorted s))]
  intro b
  rw [minLoop_bytes_iff s' hs, minimize_bytes_iff]
  simp only [MinimalIn, List.mem_map, hp.mem_iff]

/-- … and the guarantees hold for that arrangement too -/
theorem minimize_any_sort_keeps_prefix (s s' : List Lit) (hp : s'.Perm s) (m : List Nat) :
    (∃ l ∈ s, l.bytes <+: m) ↔ (∃ l ∈ minLoop [] s', l.bytes <+: m) := by
  rw [← minLoop_keeps_prefix m s' []]
  simp only [List.nil_append, hp.mem_iff]

/-- what DOES depend on the tie order: the flag that survives when a byte string occurs with both flags.
    Both inputs are length-sorted arrangements of the same two literals. -/
theorem minimize_flag_depends_on_tie_order :
    minLoop [] [⟨[97], true⟩, ⟨[97], false⟩] = [⟨[97], true⟩] ∧
    minLoop [] [⟨[97], false⟩, ⟨[97], true⟩] = [⟨[97], false⟩] := by decide

/-- Minimize must only be applied to PREFIX sequences: {"a","ab"} as suffix literals accept "xab" (ends with "ab"),
    the minimised {"a"} does not -/
theorem minimize_not_suffix :
    ∃ (s : List Lit) (m : List Nat), (∃ l ∈ s, l.bytes <:+ m) ∧ ¬ ∃ l ∈ minimize s, l.bytes <:+ m :=
  ⟨[⟨[97], true⟩, ⟨[97, 98], true⟩], [120, 97, 98], by decide, by decide⟩

/- non-vacuity -/
example : minimize [⟨[102, 111, 111, 98], true⟩, ⟨[102, 111, 111], false⟩, ⟨[98, 97], true⟩] =
    [⟨[98, 97], true⟩, ⟨[102, 111, 111], false⟩] := by decide
example : minimize [⟨[1, 2], true⟩, ⟨[3, 4], false⟩, ⟨[1, 2], false⟩] = [⟨[1, 2], true⟩, ⟨[3, 4], false⟩] := by decide
example : minimize [⟨[1], true⟩, ⟨[], false⟩, ⟨[2, 3], true⟩] = [⟨[], false⟩] := by decide
example : sortByLen [⟨[1, 1], true⟩, ⟨[2], true⟩, ⟨[3, 3], false⟩, ⟨[4], false⟩] =
    [⟨[2], true⟩, ⟨[4], false⟩, ⟨[1, 1], true⟩, ⟨[3, 3], false⟩] := by decide
example : (∃ l ∈ [⟨[1, 2, 3], true⟩, ⟨[1, 2], false⟩], Lit.bytes l <+: [1, 2, 3, 4]) ∧
    (∃ l ∈ minimize [⟨[1, 2, 3], true⟩, ⟨[1, 2], false⟩], Lit.bytes l <+: [1, 2, 3, 4]) := by decide

/-! ## the meaning of the `Complete` flag -/

/-- `Covers s a`: the string `a` matched so far is accounted for by `s` — an exact (`Complete`) literal IS the whole
    string, an inexact one is a prefix of it -/
def Covers (s : List Lit) (a : List Nat) : Prop :=
  ∃ l ∈ s, if l.complete then a = l.bytes else l.bytes <+: a

instance (s : List Lit) (a : List Nat) : Decidable (Covers s a) := by unfold Covers; infer_instance

/-- `Covers` implies the plain prefix guarantee -/
theorem Covers.prefix {s : List Lit} {a : List Nat} (h : Covers s a) : ∃ l ∈ s, l.bytes <+: a := by
  obtain ⟨l, hl, h⟩ := h
  refine ⟨l, hl, ?_⟩
  split at h
  · rw [h]; exact List.prefix_refl _
  · exact h

/-! ## Dedup -/

/-- membership in the result of the loop: first occurrences of byte strings not yet seen -/
theorem dedupLoop_mem (rest : List Lit) : ∀ (seen : List (List Nat)) (kept : List Lit) (l : Lit),
    l ∈ dedupLoop seen kept rest ↔
      l ∈ kept ∨ (l.bytes ∉ seen ∧ rest.find? (fun x => x.bytes == l.bytes) = some l) := by
  induction rest with
  | nil => intro seen kept l; simp [dedupLoop]
  | cons c rest ih =>
    intro seen kept l
    simp only [dedupLoop, List.contains_iff_mem]
    by_cases hcl : c.bytes = l.bytes
    · have hf : (c :: rest).find? (fun x => x.bytes == l.bytes) = some c :=
        List.find?_cons_of_pos (by simp [hcl])
      rw [hf]
      by_cases hc : c.bytes ∈ seen
      · rw [if_pos hc, ih]
        have hin : l.bytes ∈ seen := hcl ▸ hc
        constructor
        · rintro (h | ⟨h, _⟩)
          · exact Or.inl h
          · exact absurd hin h
        · rintro (h | ⟨h, _⟩)
          · exact Or.inl h
          · exact absurd hin h
      · rw [if_neg hc, ih]
        have hl : l.bytes ∉ seen := hcl ▸ hc
        constructor
        · rintro (h | ⟨h, _⟩)
          · rcases List.mem_append.mp h with h | h
            · exact Or.inl h
            · exact Or.inr ⟨hl, by rw [List.mem_singleton.mp h]⟩
          · exact absurd (hcl ▸ List.mem_cons_self) h
        · rintro (h | ⟨_, h⟩)
          · exact Or.inl (List.mem_append_left _ h)
          · exact Or.inl (List.mem_append_right _ (by simp [Option.some.inj h]))
    · have hf : (c :: rest).find? (fun x => x.bytes == l.bytes) = rest.find? (fun x => x.bytes == l.bytes) :=
        List.find?_cons_of_neg (by simp [hcl])
      rw [hf]
      by_cases hc : c.bytes ∈ seen
      · rw [if_pos hc, ih]
      · rw [if_neg hc, ih]
        have hne : l ≠ c := fun e => hcl (e ▸ rfl)
        constructor
        · rintro (h | ⟨h1, h2⟩)
          · rcases List.mem_append.mp h with h | h
            · exact Or.inl h
            · exact absurd (List.mem_singleton.mp h) hne
          · exact Or.inr ⟨fun hm => h1 (List.mem_cons_of_mem _ hm), h2⟩
        · rintro (h | ⟨h1, h2⟩)
          · exact Or.inl (List.mem_append_left _ h)
          · exact Or.inr ⟨fun hm => (List.mem_cons.mp hm).elim (fun e => hcl e.symm) h1, h2⟩

/-- FIRST OCCURRENCE: a literal is in the result iff it is the first literal of the input with its byte string
    (so the flag that survives is the first one's) -/
theorem dedup_mem_iff (s : List Lit) (l : Lit) :
    l ∈ dedup s ↔ s.find? (fun x => x.bytes == l.bytes) = some l := by
  cases s with
  | nil => simp [dedup]
  | cons c cs =>
    simp only [dedup, List.isEmpty_cons, Bool.false_eq_true, if_false]
    rw [dedupLoop_mem]; simp

theorem dedup_subset (s : List Lit) : ∀ l ∈ dedup s, l ∈ s :=
  fun _ hl => List.mem_of_find?_eq_some ((dedup_mem_iff s _).mp hl)

/-- NECESSITY (any guarantee that speaks about byte strings: prefix, suffix, inner): Dedup keeps it, both ways -/
theorem dedup_keeps (s : List Lit) (P : List Nat → Prop) :
    (∃ l ∈ s, P l.bytes) ↔ (∃ l ∈ dedup s, P l.bytes) := by
  constructor
  · rintro ⟨l, hl, hp⟩
    have hsome : (s.find? (fun x => x.bytes == l.bytes)).isSome := List.find?_isSome.mpr ⟨l, hl, by simp⟩
    obtain ⟨l', hl'⟩ := Option.isSome_iff_exists.mp hsome
    have hb : l'.bytes = l.bytes := by simpa using List.find?_some hl'
    refine ⟨l', (dedup_mem_iff s l').mpr (by rw [hb]; exact hl'), hb ▸ hp⟩
  · rintro ⟨l, hl, hp⟩
    exact ⟨l, dedup_subset s l hl, hp⟩

theorem dedupLoop_sublist (rest : List Lit) : ∀ seen kept, (dedupLoop seen kept rest).Sublist (kept ++ rest) := by
  induction rest with
  | nil => intro seen kept; simp [dedupLoop]
  | cons c rest ih =>
    intro seen kept
    simp only [dedupLoop]
    split
    · exact (ih seen kept).trans (List.Sublist.append_left (List.sublist_cons_self c rest) kept)
    · simpa using ih (c.bytes :: seen) (kept ++ [c])

/-- the result is a sub-list of the input (order kept) -/
theorem dedup_sublist (s : List Lit) : (dedup s).Sublist s := by
  cases s with
  | nil => simp [dedup]
  | cons c cs =>
    simp only [dedup, List.isEmpty_cons, Bool.false_eq_true, if_false]
    simpa using dedupLoop_sublist (c :: cs) [] []

theorem dedupLoop_nodup (rest : List Lit) : ∀ seen kept, (kept.map Lit.bytes).Nodup →
    (∀ k ∈ kept, k.bytes ∈ seen) → ((dedupLoop seen kept rest).map Lit.bytes).Nodup := by
  induction rest with
  | nil => intro seen kept h _; exact h
  | cons c rest ih =>
    intro seen kept hnd hseen
    simp only [dedupLoop, List.contains_iff_mem]
    split
    · exact ih seen kept hnd hseen
    · rename_i hc
      apply ih
      · rw [List.map_append, List.map_singleton]
        refine List.pairwise_append.mpr ⟨hnd, List.pairwise_singleton _ _, ?_⟩
        intro a ha b hb
        rw [List.mem_singleton.mp hb]
        obtain ⟨k, hk, rfl⟩ := List.mem_map.mp ha
        intro e
        exact hc (e ▸ hseen k hk)
      · intro k hk
        rcases List.mem_append.mp hk with hk | hk
        · exact List.mem_cons_of_mem _ (hseen k hk)
        · rw [List.mem_singleton.mp hk]; exact List.mem_cons_self

/-- no byte string occurs twice in the result -/
theorem dedup_nodup (s : List Lit) : ((dedup s).map Lit.bytes).Nodup := by
  cases s with
  | nil => simp [dedup]
  | cons c cs =>
    simp only [dedup, List.isEmpty_cons, Bool.false_eq_true, if_false]
    exact dedupLoop_nodup _ [] [] List.Pairwise.nil (fun _ h => nomatch h)

/-- Dedup keeps the MEANING OF THE FLAGS when equal byte strings carry equal flags (in particular after
    `markAllInexact`, which is how the extractor calls it on its overflow paths) … -/
theorem dedup_covers (s : List Lit) (a : List Nat)
    (hflag : ∀ l ∈ s, ∀ l' ∈ s, l.bytes = l'.bytes → l.complete = l'.complete) (h : Covers s a) :
    Covers (dedup s) a := by
  obtain ⟨l, hl, hc⟩ := h
  have hsome : (s.find? (fun x => x.bytes == l.bytes)).isSome := List.find?_isSome.mpr ⟨l, hl, by simp⟩
  obtain ⟨l', hl'⟩ := Option.isSome_iff_exists.mp hsome
  have hb : l'.bytes = l.bytes := by simpa using List.find?_some hl'
  refine ⟨l', (dedup_mem_iff s l').mpr (by rw [hb]; exact hl'), ?_⟩
  rw [hflag l' (List.mem_of_find?_eq_some hl') l hl hb, hb]
  exact hc

/-- … but NOT in general: "keeping the first occurrence" keeps an exact "ab" and drops the inexact "ab" that stood for
    "ab…" — the string "abc" was covered before and is not afterwards (the remaining literal claims the match IS "ab").
    `KeepFirstBytes(2)` on {"ab" exact, "abc" exact} produces exactly this input. -/
theorem dedup_not_covers : ∃ (s : List Lit) (a : List Nat), Covers s a ∧ ¬ Covers (dedup s) a :=
  ⟨[⟨[97, 98], true⟩, ⟨[97, 98], false⟩], [97, 98, 99], by decide, by decide⟩

/- non-vacuity -/
example : dedup [⟨[1], true⟩, ⟨[2], false⟩, ⟨[1], false⟩, ⟨[3], true⟩, ⟨[2], true⟩] =
    [⟨[1], true⟩, ⟨[2], false⟩, ⟨[3], true⟩] := by decide
example : dedup [⟨[], false⟩, ⟨[], true⟩] = [⟨[], false⟩] := by decide
example : (∃ l ∈ [⟨[1], true⟩, ⟨[1], false⟩], Lit.bytes l <:+ [0, 1]) ∧
    (∃ l ∈ dedup [⟨[1], true⟩, ⟨[1], false⟩], Lit.bytes l <:+ [0, 1]) := by decide

/-! ## KeepFirstBytes -/

theorem keepFirstBytes_nonpos (s : List Lit) (n : Int) (h : n ≤ 0) : keepFirstBytes s n = s := by
  simp [keepFirstBytes, h]

theorem keepFirstBytes_pos (s : List Lit) (n : Int) (h : 0 < n) : keepFirstBytes s n = s.map (keepLit n.toNat) := by
  unfold keepFirstBytes
  cases s with
  | nil => rfl
  | cons c cs => simp [Int.not_le.mpr h]

theorem keepLit_prefix (n : Nat) (l : Lit) : (keepLit n l).bytes <+: l.bytes := by
  unfold keepLit; split
  · exact List.take_prefix _ _
  · exact List.prefix_refl _

/-- a literal that was shortened is marked inexact; one that was not is unchanged -/
theorem keepLit_changed (n : Nat) (l : Lit) : keepLit n l = l ∨ (keepLit n l).complete = false := by
  unfold keepLit; split
  · exact Or.inr rfl
  · exact Or.inl rfl

theorem keepLit_length (n : Nat) (l : Lit) : (keepLit n l).bytes.length ≤ n := by
  unfold keepLit; split
  · simp only [List.length_take]; omega
  · omega

/-- every literal of the result is (a prefix of) a literal of the input, position by position -/
theorem keepFirstBytes_mem (s : List Lit) (n : Int) :
    ∀ l ∈ keepFirstBytes s n, ∃ l₀ ∈ s, l.bytes <+: l₀.bytes ∧ (l = l₀ ∨ l.complete = false) := by
  intro l hl
  by_cases hn : n ≤ 0
  · rw [keepFirstBytes_nonpos s n hn] at hl
    exact ⟨l, hl, List.prefix_refl _, Or.inl rfl⟩
  · rw [keepFirstBytes_pos s n (by omega)] at hl
    obtain ⟨l₀, h₀, rfl⟩ := List.mem_map.mp hl
    exact ⟨l₀, h₀, keepLit_prefix _ _, keepLit_changed _ _⟩

/-- for `n > 0` no literal of the result is longer than `n` -/
theorem keepFirstBytes_length (s : List Lit) (n : Int) (hn : 0 < n) :
    ∀ l ∈ keepFirstBytes s n, (l.bytes.length : Int) ≤ n := by
  intro l hl
  rw [keepFirstBytes_pos s n hn] at hl
  obtain ⟨l₀, _, rfl⟩ := List.mem_map.mp hl
  have := keepLit_length n.toNat l₀
  omega

/-- the number of literals does not change -/
theorem keepFirstBytes_len (s : List Lit) (n : Int) : (keepFirstBytes s n).length = s.length := by
  by_cases hn : n ≤ 0
  · rw [keepFirstBytes_nonpos s n hn]
  · rw [keepFirstBytes_pos s n (by omega), List.length_map]

/-- NECESSITY: truncation keeps the prefix guarantee -/
theorem keepFirstBytes_keeps_prefix (s : List Lit) (n : Int) (m : List Nat) (h : ∃ l ∈ s, l.bytes <+: m) :
    ∃ l ∈ keepFirstBytes s n, l.bytes <+: m := by
  obtain ⟨l, hl, hm⟩ := h
  by_cases hn : n ≤ 0
  · rw [keepFirstBytes_nonpos s n hn]; exact ⟨l, hl, hm⟩
  · rw [keepFirstBytes_pos s n (by omega)]
    exact ⟨keepLit n.toNat l, List.mem_map_of_mem hl, (keepLit_prefix _ _).trans hm⟩

/-- … and the meaning of the flags (this is why a shortened literal must become inexact) -/
theorem keepFirstBytes_covers (s : List Lit) (n : Int) (a : List Nat) (h : Covers s a) :
    Covers (keepFirstBytes s n) a := by
  obtain ⟨l, hl, hc⟩ := h
  by_cases hn : n ≤ 0
  · rw [keepFirstBytes_nonpos s n hn]; exact ⟨l, hl, hc⟩
  · rw [keepFirstBytes_pos s n (by omega)]
    refine ⟨keepLit n.toNat l, List.mem_map_of_mem hl, ?_⟩
    rcases keepLit_changed n.toNat l with e | e
    · rw [e]; exact hc
    · rw [e]
      simp only [Bool.false_eq_true, if_false]
      refine (keepLit_prefix _ _).trans ?_
      split at hc
      · rw [hc]; exact List.prefix_refl _
      · exact hc

/-- KeepFirstBytes keeps the FIRST bytes: it must not be applied to suffix sequences — "xab" ends with "ab", not with
    "a" -/
theorem keepFirstBytes_not_suffix :
    ∃ (s : List Lit) (n : Int) (m : List Nat), (∃ l ∈ s, l.bytes <:+ m) ∧ ¬ ∃ l ∈ keepFirstBytes s n, l.bytes <:+ m :=
  ⟨[⟨[97, 98], true⟩], 1, [120, 97, 98], by decide, by decide⟩

/- non-vacuity: the example of the Go doc comment; n ≤ 0 -/
example : keepFirstBytes [⟨[1, 2, 3, 4, 5, 6], true⟩, ⟨[7, 8], true⟩] 4 = [⟨[1, 2, 3, 4], false⟩, ⟨[7, 8], true⟩] := by decide
example : keepFirstBytes [⟨[1, 2, 3], true⟩] 0 = [⟨[1, 2, 3], true⟩] := by decide
example : keepFirstBytes [⟨[1, 2, 3], true⟩] (-2) = [⟨[1, 2, 3], true⟩] := by decide
example : Covers [⟨[1, 2, 3], true⟩] [1, 2, 3] ∧ Covers (keepFirstBytes [⟨[1, 2, 3], true⟩] 2) [1, 2, 3] := by decide

/-! ## CrossForward -/

/-- SOUNDNESS of the cross product: if `s` accounts for the part `a` matched so far and `t` for the next part `b`,
    then `s.CrossForward(t)` accounts for `a ++ b`.  (`Covers` of either side implies that side is not empty, so the
    "either is empty → unchanged" exit is not taken.) -/
theorem crossForward_sound (s t : List Lit) (a b : List Nat) (hs : Covers s a) (ht : Covers t b) :
    Covers (crossForward s t) (a ++ b) := by
  obtain ⟨l, hl, hla⟩ := hs
  obtain ⟨r, hr, hrb⟩ := ht
  have hsne : s.isEmpty = false := by cases s with | nil => nomatch hl | cons _ _ => rfl
  have htne : t.isEmpty = false := by cases t with | nil => nomatch hr | cons _ _ => rfl
  simp only [crossForward, hsne, htne, Bool.or_self, Bool.false_eq_true, if_false]
  cases hlc : l.complete with
  | false =>
    rw [hlc] at hla
    refine ⟨l, List.mem_flatMap.mpr ⟨l, hl, by simp [crossOne, hlc]⟩, ?_⟩
    simp only [hlc, Bool.false_eq_true, if_false] at hla ⊢
    exact hla.trans (List.prefix_append _ _)
  | true =>
    rw [hlc] at hla
    simp only [if_true] at hla
    refine ⟨⟨l.bytes ++ r.bytes, r.complete⟩,
      List.mem_flatMap.mpr ⟨l, hl, by simp only [crossOne, hlc]; exact List.mem_map.mpr ⟨r, hr, rfl⟩⟩, ?_⟩
    cases hrc : r.complete with
    | false =>
      rw [hrc] at hrb
      simp only [Bool.false_eq_true, if_false] at hrb ⊢
      rw [hla]; exact (List.prefix_append_right_inj _).mpr hrb
    | true =>
      rw [hrc] at hrb
      simp only [if_true] at hrb ⊢
      rw [hla, hrb]

/-- the version with the hypotheses of the Go early exit spelled out -/
theorem crossForward_sound' (s t : List Lit) (a b : List Nat) (hs : Covers s a) (ht : Covers t b)
    (_ : s ≠ []) (_ : t ≠ []) : Covers (crossForward s t) (a ++ b) := crossForward_sound s t a b hs ht

/-- consequence for prefilters: every match `a ++ b ++ rest` starts with a literal of the product -/
theorem crossForward_keeps_prefix (s t : List Lit) (a b rest : List Nat) (hs : Covers s a) (ht : Covers t b) :
    ∃ l ∈ crossForward s t, l.bytes <+: a ++ b ++ rest := by
  obtain ⟨l, hl, h⟩ := (crossForward_sound s t a b hs ht).prefix
  exact ⟨l, hl, h.trans (List.prefix_append _ _)⟩

/-- a cross product that extended INEXACT left literals too -/
def crossForwardExtendAll (s other : List Lit) : List Lit :=
  if s.isEmpty || other.isEmpty then s
  else s.flatMap fun left => other.map fun right =>
    { bytes := left.bytes ++ right.bytes, complete := left.complete && right.complete }

/-- … would be UNSOUND: "a" inexact stands for "a…" (here "ax"), the next part is "b"; "ab" is not a prefix of "axb".
    This is why l.440-444 keep inexact literals as they are. -/
theorem crossForward_extending_inexact_unsound :
    ∃ (s t : List Lit) (a b : List Nat), Covers s a ∧ Covers t b ∧
      ¬ (∃ l ∈ crossForwardExtendAll s t, l.bytes <+: a ++ b) ∧ Covers (crossForward s t) (a ++ b) :=
  ⟨[⟨[97], false⟩], [⟨[98], true⟩], [97, 120], [98], by decide, by decide, by decide, by decide⟩

/-- the early exit "other is empty → s unchanged" keeps the exact flags of `s`: sound only if nothing follows.
    (The extractor never takes it with a non-trivial remainder: `extractPrefixesConcat` marks everything inexact and
    stops when the contribution is empty.) -/
theorem crossForward_empty_right (s : List Lit) : crossForward s [] = s := by
  simp [crossForward]

theorem crossForward_empty_left (t : List Lit) : crossForward [] t = [] := by
  simp [crossForward]

/- non-vacuity: the example of the Go doc comment; mixed flags -/
example : crossForward [⟨[1, 2], true⟩, ⟨[3, 4], true⟩] [⟨[8], true⟩, ⟨[9], true⟩] =
    [⟨[1, 2, 8], true⟩, ⟨[1, 2, 9], true⟩, ⟨[3, 4, 8], true⟩, ⟨[3, 4, 9], true⟩] := by decide
example : crossForward [⟨[1], true⟩, ⟨[2], false⟩] [⟨[8], true⟩, ⟨[9], false⟩] =
    [⟨[1, 8], true⟩, ⟨[1, 9], false⟩, ⟨[2], false⟩] := by decide
example : Covers [⟨[1], true⟩, ⟨[2], false⟩] [2, 7] ∧ Covers [⟨[8], true⟩, ⟨[9], false⟩] [9, 9] ∧
    Covers (crossForward [⟨[1], true⟩, ⟨[2], false⟩] [⟨[8], true⟩, ⟨[9], false⟩]) [2, 7, 9, 9] := by decide

/-! ## Minimize and the flags -/

/-- Minimize keeps the prefix guarantee but NOT the meaning of the exact flag: {"a" exact, "ab" exact} covers "ab",
    the minimised {"a" exact} claims the match is "a" -/
theorem minimize_not_covers : ∃ (s : List Lit) (a : List Nat), Covers s a ∧ ¬ Covers (minimize s) a :=
  ⟨[⟨[97], true⟩, ⟨[97, 98], true⟩], [97, 98], by decide, by decide⟩

/-! ## `Seq`: `partialCoverage` is not touched -/

theorem Seq.minimize_partial (s : Seq) : s.minimize.partialCoverage = s.partialCoverage := rfl
theorem Seq.crossForward_partial (s t : Seq) : (s.crossForward t).partialCoverage = s.partialCoverage := rfl
theorem Seq.keepFirstBytes_partial (s : Seq) (n : Int) : (s.keepFirstBytes n).partialCoverage = s.partialCoverage := rfl
theorem Seq.dedup_partial (s : Seq) : s.dedup.partialCoverage = s.partialCoverage := rfl
theorem Seq.clone_eq (s : Seq) : s.clone = s := rfl

end Cx.SeqOps
