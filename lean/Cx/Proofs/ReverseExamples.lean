import Cx.Proofs.Reverse
/-
  Cx.Proofs.ReverseExamples — automata dumped from the real compiler (`nfa.NewDefaultCompiler().Compile`), checked against
  the hypotheses of `reverse_accepts`, and the model's output for them (equal, state by state, to the dumps of the real
  `nfa.ReverseAnchored` / `nfa.Reverse`; `gocheck` compares all 1089 patterns of the corpus).
-/
namespace Cx.Rev
open Cx Cx.Nfa

/-- `z*azb` : `2/8/B.122.122.2;E.3;P.0.1;B.97.97.4;B.122.122.5;B.98.98.6;M;B.0.255.8;P.2.7` -/
def exZazb : NFA :=
  { states := #[.byteRange 122 122 2, .eps 3, .split 0 1, .byteRange 97 97 4, .byteRange 122 122 5, .byteRange 98 98 6, .mtch,
      .byteRange 0 255 8, .split 2 7],
    startAnchored := 2, startUnanchored := 8 }

/-- `(a|ab)*c` : `8/12/B.97.97.3;E.4;B.98.98.4;P.1.2;E.5;C.1.0.8;C.1.1.0;E.9;P.6.7;B.99.99.10;M;B.0.255.12;P.8.11` -/
def exAabc : NFA :=
  { states := #[.byteRange 97 97 3, .eps 4, .byteRange 98 98 4, .split 1 2, .eps 5, .cap 1 false 8, .cap 1 true 0, .eps 9,
      .split 6 7, .byteRange 99 99 10, .mtch, .byteRange 0 255 12, .split 8 11],
    startAnchored := 8, startUnanchored := 12 }

/-- `(?:xa|y[a-c])e` : `4/9/B.120.120.1;B.97.97.5;B.121.121.3;B.97.99.5;P.0.2;E.6;B.101.101.7;M;B.0.255.9;P.4.8` -/
def exOverlap : NFA :=
  { states := #[.byteRange 120 120 1, .byteRange 97 97 5, .byteRange 121 121 3, .byteRange 97 99 5, .split 0 2, .eps 6,
      .byteRange 101 101 7, .mtch, .byteRange 0 255 9, .split 4 8],
    startAnchored := 4, startUnanchored := 9 }

example : revHypB exZazb = true := by decide
example : revHypB exAabc = true := by decide
example : revHypB exOverlap = true := by decide

theorem exZazb_hyp : RevHyp exZazb := revHyp_of_B (by decide)
theorem exAabc_hyp : RevHyp exAabc := revHyp_of_B (by decide)
theorem exOverlap_hyp : RevHyp exOverlap := revHyp_of_B (by decide)

/-- real `nfa.ReverseAnchored`: `7/7/M;P.8.0;E.1;E.1;E.3;B.97.97.4;B.122.122.5;B.98.98.6;B.122.122.2` — the byte edge `z` that
    loops back into the start state keeps its byte range (state 8) -/
example : reverseAnchored exZazb =
    { states := #[.mtch, .split 8 0, .eps 1, .eps 1, .eps 3, .byteRange 97 97 4, .byteRange 122 122 5, .byteRange 98 98 6,
        .byteRange 122 122 2],
      startAnchored := 7, startUnanchored := 7 } := by rfl

/-- real `nfa.Reverse`: `8/8/M;P.10.0;P.9.0;E.1;E.1;E.4;B.97.97.5;B.122.122.6;B.98.98.7;E.2;P.11.2;S.122-122-3` -/
example : reverseUnanchored exZazb =
    { states := #[.mtch, .split 10 0, .split 9 0, .eps 1, .eps 1, .eps 4, .byteRange 97 97 5, .byteRange 122 122 6,
        .byteRange 98 98 7, .eps 2, .split 11 2, .sparse [(122, 122, 3)]],
      startAnchored := 8, startUnanchored := 8 } := by rfl

/-- real `nfa.ReverseAnchored`: `11/11/M;P.7.0;E.8;E.5;E.5;B.97.97.2;P.12.3;E.6;E.1;E.1;E.9;B.99.99.10;S.98-98-4` -/
example : reverseAnchored exAabc =
    { states := #[.mtch, .split 7 0, .eps 8, .eps 5, .eps 5, .byteRange 97 97 2, .split 12 3, .eps 6, .eps 1, .eps 1, .eps 9,
        .byteRange 99 99 10, .sparse [(98, 98, 4)]],
      startAnchored := 11, startUnanchored := 11 } := by rfl

/-- real `nfa.ReverseAnchored`: `8/8/M;E.0;E.1;B.120.120.2;E.1;B.121.121.4;S.97-97-3_97-99-5;E.6;B.101.101.7` — state 6 is a
    sparse state with OVERLAPPING ranges: `a` leads to the reverse of `xa` and of `y[a-c]` -/
theorem exOverlap_rev : reverseAnchored exOverlap =
    { states := #[.mtch, .eps 0, .eps 1, .byteRange 120 120 2, .eps 1, .byteRange 121 121 4, .sparse [(97, 97, 3), (97, 99, 5)],
        .eps 6, .byteRange 101 101 7],
      startAnchored := 8, startUnanchored := 8 } := by rfl

def yae : Bytes := #[121, 97, 101]

theorem revB_yae : revB yae = #[101, 97, 121] := by simp [revB, yae]

/-- **the reverse automaton needs the all-transitions reading of sparse states.**  `(?:xa|y[a-c])e` matches `yae`; its
    reverse automaton accepts `eay` when every matching transition of a sparse state is followed (Pike VM, lazy DFA; it
    must, by `reverseAnchored_whole`), but NOT under the first-match reading of `Cx.Model.Nfa.Step` (the backtracker's):
    the sparse state built from the incoming byte edges `a` and `[a-c]` is not first-match deterministic. -/
theorem overlap_needs_all_transitions :
    Accepts exOverlap yae 0 3 ∧ AcceptsA (reverseAnchored exOverlap) (revB yae) 0 3 ∧
      ¬ Accepts (reverseAnchored exOverlap) (revB yae) 0 3 ∧ Dfa.sparseDisjointB (reverseAnchored exOverlap) = false := by
  have h1 : Accepts exOverlap yae 0 3 := (acceptsSpan_iff exOverlap yae 0 3 (by decide)).mp (by decide)
  refine ⟨h1, ?_, ?_, by decide⟩
  · exact (reverseAnchored_whole exOverlap_hyp yae).mpr (accepts_acceptsA h1)
  · intro h
    rw [exOverlap_rev, revB_yae] at h
    have := (acceptsSpan_iff _ _ 0 3 (by decide)).mpr h
    revert this
    decide

/-- for `z*azb` both automata are first-match deterministic, so the statement holds for `Accepts` as it stands -/
example (h : Bytes) {s e : Nat} (hs : s ≤ h.size) (he : e ≤ h.size) :
    Accepts (reverseAnchored exZazb) (revB h) (h.size - e) (h.size - s) ↔ Accepts exZazb h s e :=
  reverse_accepts_det exZazb_hyp true
    (Pike.sparseDet_of_disjoint (Dfa.sparseDisjoint_of_B (by decide)))
    (Pike.sparseDet_of_disjoint (Dfa.sparseDisjoint_of_B (by decide))) h hs he

end Cx.Rev
