import Cx.Model.Cost
import Cx.Proofs.Nfa
import Cx.Proofs.Pike
/-
  Cx.Proofs.Cost — C05: work bounds for the step-counting engine models of `Cx.Model.Cost` (units documented there).
  S = number of NFA states, n = len(haystack).

  Erasure (the counted functions compute what the original ones compute):
    btFindC_erase, btMatchC_erase, btMatchC_eq_btFindC, btIsMatchC_erase, btSearchAtC_erase, btSearchAtSharedC_erase,
    Pike.closureC_erase … Pike.searchAtC_erase.
  Bounded backtracker:
    (a) btFindC_count / btMatchC_count   exps + unmarked after = unmarked before,  steps ≤ 2·exps + 1
        btFind_expansions_le, btMatch_expansions_le   exps ≤ unmarked before
        btFind_steps_le, btMatch_steps_le             steps ≤ 2·unmarked + 1           (every fuel, every visited set)
    (b) C05_bt_isMatch_linear            steps(IsMatch) ≤ 2·(S·(n+1)) + 1·(n+1)          (ONE visited set)
    (c) C05_bt_searchAt_quadratic_bound  steps(SearchAt) ≤ (n−at+1)·(2·S·(n+1) + 1)      (FRESH set per start: the code as it is)
        abSteps_closed                   `a*b` on `a^n`:  2·steps = 3·(n+1)·(n+2)        (exact, all n)
        abSteps_ge, C05_bt_searchAt_not_linear   steps ≥ n(n+1)/2;  ∀K ∃n, steps > K·S·(n+1)
    (d) btFind_dead, btFind_agree        runs whose visited sets differ only at configurations that cannot reach a
                                         match state report the same thing
        btSearchAtShared_eq              btSearchAtShared N h at = btSearchAt N h at     (ONE set is sound, leftmost-first)
        C05_bt_searchAt_shared_linear    … and steps ≤ 2·(S·(n+1)) + 1·(n−at+1)
  Pike VM (SlotTable family, both modes):
    (e) closureC_cost, Paid, stepQueueC_paid, loopUC_cost, loopAC_cost, searchAtC_cost (fan-out W of sparse states)
        C05_pike_linear                  cost ≤ (n−at+1)·(11·S + 1) + 3·S + 6            (SparseDisjoint, RuneOK)
        C05_pike_linear'                 cost ≤ 15·S·(n−at+1) + 6                        (S > 0)
-/

namespace Cx.Nfa
open Cx

/-! ### erasing the counters gives the original functions -/

@[simp] theorem BtC.tick_val {α : Type} (r : BtC α) : r.tick.val = r.val := rfl
@[simp] theorem BtC.tick_vis {α : Type} (r : BtC α) : r.tick.vis = r.vis := rfl
@[simp] theorem BtC.tick_steps {α : Type} (r : BtC α) : r.tick.steps = r.steps + 1 := rfl
@[simp] theorem BtC.tick_exps {α : Type} (r : BtC α) : r.tick.exps = r.exps + 1 := rfl

theorem btFindC_erase (c : BTCtx) (fuel pos q : Nat) (vis : Array Bool) :
    ((btFindC c fuel pos q vis).val, (btFindC c fuel pos q vis).vis) = btFind c fuel pos q vis := by
  induction fuel generalizing pos q vis with
  | zero => simp [btFindC, btFind]
  | succ fuel ih =>
    rw [btFindC, btFind]
    split
    · rfl
    · split
      · rfl
      · simp only []
        cases hk : c.N.get q <;> simp only []
        · split
          · exact ih _ _ _
          · rfl
        · split
          · rfl
          · cases hf : firstTrans (c.h.at pos) _ <;> simp only []
            exact ih _ _ _
        · rename_i l r
          have h1 := ih pos l (vis.setIfInBounds (c.idx q pos) true)
          cases hb : btFind c fuel pos l (vis.setIfInBounds (c.idx q pos) true) with
          | mk r1 v1 =>
            rw [hb] at h1
            simp only [Prod.mk.injEq] at h1
            cases r1 with
            | some e1 => simp [h1.1, h1.2]
            | none =>
              simp only [h1.1, h1.2]
              exact ih _ _ _
        · exact ih _ _ _
        · exact ih _ _ _
        · split
          · exact ih _ _ _
          · rfl
        · split
          · exact ih _ _ _
          · rfl
        · split
          · exact ih _ _ _
          · rfl

/-- the boolean search does exactly the work of the span search from the same configuration -/
theorem btMatchC_eq_btFindC (c : BTCtx) (fuel pos q : Nat) (vis : Array Bool) :
    btMatchC c fuel pos q vis =
      ⟨(btFindC c fuel pos q vis).val.isSome, (btFindC c fuel pos q vis).vis, (btFindC c fuel pos q vis).steps,
        (btFindC c fuel pos q vis).exps⟩ := by
  induction fuel generalizing pos q vis with
  | zero => simp [btMatchC, btFindC]
  | succ fuel ih =>
    rw [btMatchC, btFindC]
    split
    · rfl
    · split
      · rfl
      · simp only []
        cases hk : c.N.get q <;> simp only []
        · rfl
        · split
          · rw [ih]; rfl
          · rfl
        · split
          · rfl
          · cases hf : firstTrans (c.h.at pos) _ <;> simp only []
            · rfl
            · rw [ih]; rfl
        · rename_i l r
          rw [ih]
          simp only []
          cases hb : (btFindC c fuel pos l (vis.setIfInBounds (c.idx q pos) true)).val with
          | some e1 => simp
          | none => simp [ih]
        · rw [ih]; rfl
        · rw [ih]; rfl
        · rfl
        · split
          · rw [ih]; rfl
          · rfl
        · split
          · rw [ih]; rfl
          · rfl
        · split
          · rw [ih]; rfl
          · rfl

theorem btMatchC_erase (c : BTCtx) (fuel pos q : Nat) (vis : Array Bool) :
    ((btMatchC c fuel pos q vis).val, (btMatchC c fuel pos q vis).vis) = btMatch c fuel pos q vis := by
  rw [btMatchC_eq_btFindC, btMatch_eq_btFind, ← btFindC_erase]

local macro "leaf" : tactic => `(tactic| ((try simp only []); omega))

/-! ### (a) one call: expansions are paid for by unmarked entries, steps by expansions -/

/-- every expansion marks one entry that was unmarked, and every expansion makes at most two calls:
    `exps + unmarked after = unmarked before` and `steps ≤ 2 * exps + 1`, for every fuel and every visited set -/
theorem btFindC_count (c : BTCtx) (fuel pos q : Nat) (vis : Array Bool) :
    (btFindC c fuel pos q vis).exps + (btFindC c fuel pos q vis).vis.count false = vis.count false ∧
    (btFindC c fuel pos q vis).steps ≤ 2 * (btFindC c fuel pos q vis).exps + 1 := by
  induction fuel generalizing pos q vis with
  | zero => simp [btFindC]
  | succ fuel ih =>
    rw [btFindC]
    split
    · simp
    · split
      · simp
      · rename_i hq hv
        have hv : vis.getD (c.idx q pos) true = false := by simpa using hv
        have hcnt := count_set_lt hv
        have one : ∀ (r : BtC (Option Nat)),
            (r.exps + r.vis.count false = (vis.setIfInBounds (c.idx q pos) true).count false ∧
              r.steps ≤ 2 * r.exps + 1) →
            (r.tick.exps + r.tick.vis.count false = vis.count false ∧ r.tick.steps ≤ 2 * r.tick.exps + 1) := by
          intro r hr
          simp only [BtC.tick_exps, BtC.tick_vis, BtC.tick_steps]
          omega
        simp only []
        cases hk : c.N.get q <;> simp only []
        · leaf
        · split
          · exact one _ (ih _ _ _)
          · leaf
        · split
          · leaf
          · cases hf : firstTrans (c.h.at pos) _ <;> simp only []
            · leaf
            · exact one _ (ih _ _ _)
        · rename_i l r
          have h1 := ih pos l (vis.setIfInBounds (c.idx q pos) true)
          cases hb : (btFindC c fuel pos l (vis.setIfInBounds (c.idx q pos) true)).val with
          | some e1 =>
            simp only []
            omega
          | none =>
            simp only []
            have h2 := ih pos r (btFindC c fuel pos l (vis.setIfInBounds (c.idx q pos) true)).vis
            omega
        · exact one _ (ih _ _ _)
        · exact one _ (ih _ _ _)
        · leaf
        · split
          · exact one _ (ih _ _ _)
          · leaf
        · split
          · exact one _ (ih _ _ _)
          · leaf
        · split
          · exact one _ (ih _ _ _)
          · leaf

/-- (a) the expansions of one call are at most the unmarked entries before the call -/
theorem btFind_expansions_le (c : BTCtx) (fuel pos q : Nat) (vis : Array Bool) :
    (btFindC c fuel pos q vis).exps ≤ vis.count false := by
  have := (btFindC_count c fuel pos q vis).1
  omega

/-- (a) hence its steps are at most twice the unmarked entries plus one -/
theorem btFind_steps_le (c : BTCtx) (fuel pos q : Nat) (vis : Array Bool) :
    (btFindC c fuel pos q vis).steps ≤ 2 * vis.count false + 1 := by
  have := btFindC_count c fuel pos q vis
  omega

theorem btMatchC_count (c : BTCtx) (fuel pos q : Nat) (vis : Array Bool) :
    (btMatchC c fuel pos q vis).exps + (btMatchC c fuel pos q vis).vis.count false = vis.count false ∧
    (btMatchC c fuel pos q vis).steps ≤ 2 * (btMatchC c fuel pos q vis).exps + 1 := by
  rw [btMatchC_eq_btFindC]
  exact btFindC_count c fuel pos q vis

/-- (a) for the boolean search -/
theorem btMatch_expansions_le (c : BTCtx) (fuel pos q : Nat) (vis : Array Bool) :
    (btMatchC c fuel pos q vis).exps ≤ vis.count false := by
  have := (btMatchC_count c fuel pos q vis).1
  omega

theorem btMatch_steps_le (c : BTCtx) (fuel pos q : Nat) (vis : Array Bool) :
    (btMatchC c fuel pos q vis).steps ≤ 2 * vis.count false + 1 := by
  have := btMatchC_count c fuel pos q vis
  omega

/-! ### (b) boolean search: ONE visited set for all start positions — linear -/

theorem btIsMatchFromC_erase (c : BTCtx) (fuel start : Nat) (vis : Array Bool) :
    (btIsMatchFromC c fuel start vis).1 = btIsMatchFrom c fuel start vis := by
  induction fuel generalizing start vis with
  | zero => rfl
  | succ fuel ih =>
    rw [btIsMatchFromC, btIsMatchFrom]
    split
    · rfl
    · have he := btMatchC_erase c (btFuel c.N c.h) start c.N.startAnchored vis
      rw [← he]
      simp only []
      split
      · rfl
      · exact ih _ _

theorem btIsMatchC_erase (N : NFA) (h : Bytes) : (btIsMatchC N h).1 = btIsMatch N h :=
  btIsMatchFromC_erase _ _ _ _

theorem btIsMatchFromC_steps (c : BTCtx) (fuel start : Nat) (vis : Array Bool) :
    (btIsMatchFromC c fuel start vis).2 ≤ 2 * vis.count false + (c.h.size + 1 - start) := by
  induction fuel generalizing start vis with
  | zero => simp [btIsMatchFromC]
  | succ fuel ih =>
    rw [btIsMatchFromC]
    split
    · simp
    · rename_i hs
      have h1 := btMatchC_count c (btFuel c.N c.h) start c.N.startAnchored vis
      simp only []
      split
      · simp only []
        omega
      · simp only []
        have h2 := ih (start + 1) (btMatchC c (btFuel c.N c.h) start c.N.startAnchored vis).vis
        omega

/-- C05 (backtracker, boolean search): all start positions together expand each (state, position) at most once;
    `steps ≤ 2 · states · (len+1) + (len+1)` -/
theorem C05_bt_isMatch_linear (N : NFA) (h : Bytes) :
    (btIsMatchC N h).2 ≤ 2 * (N.states.size * (h.size + 1)) + 1 * (h.size + 1) := by
  have := btIsMatchFromC_steps { N := N, h := h, spanStart := 0 } (h.size + 1) 0 (freshVis N h)
  rw [freshVis_count] at this
  simp only [Nat.sub_zero] at this
  unfold btIsMatchC
  omega

/-! ### (c) span search as it is: a FRESH visited set per start position — only a quadratic bound holds -/

theorem btSearchFromC_erase (N : NFA) (h : Bytes) (at_ fuel start : Nat) :
    (btSearchFromC N h at_ fuel start).1 = btSearchFrom N h at_ fuel start := by
  induction fuel generalizing start with
  | zero => rfl
  | succ fuel ih =>
    rw [btSearchFromC, btSearchFrom]
    split
    · rfl
    · have he := btFindC_erase { N := N, h := h, spanStart := at_ } (btFuel N h) start N.startAnchored (freshVis N h)
      simp only []
      rw [← he]
      simp only []
      cases hb : (btFindC { N := N, h := h, spanStart := at_ } (btFuel N h) start N.startAnchored (freshVis N h)).val with
      | some e => rfl
      | none => exact ih _

theorem btSearchAtC_erase (N : NFA) (h : Bytes) (at_ : Nat) : (btSearchAtC N h at_).1 = btSearchAt N h at_ :=
  btSearchFromC_erase _ _ _ _ _

theorem btSearchFromC_steps (N : NFA) (h : Bytes) (at_ fuel start : Nat) :
    (btSearchFromC N h at_ fuel start).2 ≤ (h.size + 1 - start) * (2 * (N.states.size * (h.size + 1)) + 1) := by
  induction fuel generalizing start with
  | zero => simp [btSearchFromC]
  | succ fuel ih =>
    rw [btSearchFromC]
    split
    · simp
    · rename_i hs
      have h1 := btFind_steps_le { N := N, h := h, spanStart := at_ } (btFuel N h) start N.startAnchored (freshVis N h)
      rw [freshVis_count] at h1
      have hsplit : h.size + 1 - start = (h.size + 1 - (start + 1)) + 1 := by omega
      rw [hsplit, Nat.add_mul, Nat.one_mul]
      simp only []
      split
      · simp only []
        omega
      · simp only []
        have h2 := ih (start + 1)
        omega

/-- C05 (backtracker, span search AS IT IS): each start position starts from a fresh visited set, so the only bound
    is (number of start positions) × (2 · states · (len+1) + 1) -/
theorem C05_bt_searchAt_quadratic_bound (N : NFA) (h : Bytes) (at_ : Nat) :
    (btSearchAtC N h at_).2 ≤ (h.size - at_ + 1) * (2 * N.states.size * (h.size + 1) + 1) := by
  have h1 := btSearchFromC_steps N h at_ (h.size + 2 - at_) at_
  have h2 : h.size + 1 - at_ ≤ h.size - at_ + 1 := by omega
  rw [Nat.mul_assoc]
  exact Nat.le_trans h1 (Nat.mul_le_mul_right _ h2)

/-! #### the witness family: `a*b` on `a^n` -/

def abc (n : Nat) : BTCtx := { N := abN, h := aHay n, spanStart := 0 }

theorem abc_idx (n q p : Nat) : (abc n).idx q p = p * 4 + q := by
  simp [BTCtx.idx, abc, abN]
theorem abc_size (n : Nat) : (abc n).N.states.size = 4 := rfl
theorem abc_hsize (n : Nat) : (abc n).h.size = n := by simp [abc, aHay]
theorem abc_at (n p : Nat) (hp : p < n) : (abc n).h.at p = 97 := by
  simp [abc, aHay, Bytes.at, Array.getD_eq_getD_getElem?, hp]
theorem abc_get0 (n : Nat) : (abc n).N.get 0 = .split 1 2 := rfl
theorem abc_get1 (n : Nat) : (abc n).N.get 1 = .byteRange 97 97 0 := rfl
theorem abc_get2 (n : Nat) : (abc n).N.get 2 = .byteRange 98 98 3 := rfl

theorem ab_call2 (n f s : Nat) (v : Array Bool) (hv : v.getD (s*4+2) true = false) :
    btFindC (abc n) (f+1) s 2 v = ⟨none, v.setIfInBounds (s*4+2) true, 1, 1⟩ := by
  rw [btFindC]
  simp only [abc_size, abc_idx, abc_get2, abc_hsize, hv]
  by_cases hs : s < n
  · simp [abc_at n s hs]
  · simp [hs]


theorem ab_call1_end (n f : Nat) (v : Array Bool) (hv : v.getD (n*4+1) true = false) :
    btFindC (abc n) (f+1) n 1 v = ⟨none, v.setIfInBounds (n*4+1) true, 1, 1⟩ := by
  rw [btFindC]
  simp [abc_size, abc_idx, abc_get1, abc_hsize, hv]

theorem ab_call1_mid (n f s : Nat) (v : Array Bool) (hs : s < n) (hv : v.getD (s*4+1) true = false) :
    btFindC (abc n) (f+1) s 1 v = (btFindC (abc n) f (s+1) 0 (v.setIfInBounds (s*4+1) true)).tick := by
  rw [btFindC]
  simp [abc_size, abc_idx, abc_get1, abc_hsize, hv, hs, abc_at n s hs]

theorem ab_call0 (n f s : Nat) (v : Array Bool) (hv : v.getD (s*4) true = false)
    (h1 : (btFindC (abc n) f s 1 (v.setIfInBounds (s*4) true)).val = none) :
    btFindC (abc n) (f+1) s 0 v =
         ⟨(btFindC (abc n) f s 2 (btFindC (abc n) f s 1 (v.setIfInBounds (s*4) true)).vis).val,
          (btFindC (abc n) f s 2 (btFindC (abc n) f s 1 (v.setIfInBounds (s*4) true)).vis).vis,
          (btFindC (abc n) f s 1 (v.setIfInBounds (s*4) true)).steps +
            (btFindC (abc n) f s 2 (btFindC (abc n) f s 1 (v.setIfInBounds (s*4) true)).vis).steps + 1,
          (btFindC (abc n) f s 1 (v.setIfInBounds (s*4) true)).exps +
            (btFindC (abc n) f s 2 (btFindC (abc n) f s 1 (v.setIfInBounds (s*4) true)).vis).exps + 1⟩ := by
  rw [btFindC]
  simp [abc_size, abc_idx, abc_get0, hv, h1]

/-- the run from `(split, s)` on `a^n` when nothing at positions ≥ s is marked -/
theorem ab_run (n : Nat) : ∀ (k s f : Nat) (v : Array Bool), s + k = n → 2 * k + 2 ≤ f →
    (∀ p q, s ≤ p → p ≤ n → q < 4 → v.getD (p*4+q) true = false) →
    (btFindC (abc n) f s 0 v).val = none ∧ (btFindC (abc n) f s 0 v).steps = 3 * (k + 1) ∧
    ∀ i, i < s * 4 → (btFindC (abc n) f s 0 v).vis.getD i true = v.getD i true := by
  intro k
  induction k with
  | zero =>
    intro s f v hs hf hv
    have hsn : s = n := by omega
    subst hsn
    obtain ⟨f, rfl⟩ : ∃ f', f = f' + 2 := ⟨f - 2, by omega⟩
    have h0 := hv s 0 (Nat.le_refl _) (Nat.le_refl _) (by omega)
    have h1 : (v.setIfInBounds (s*4) true).getD (s*4+1) true = false := by
      rw [getD_set_other (by omega)]; exact hv s 1 (Nat.le_refl _) (Nat.le_refl _) (by omega)
    have h2 : ((v.setIfInBounds (s*4) true).setIfInBounds (s*4+1) true).getD (s*4+2) true = false := by
      rw [getD_set_other (by omega), getD_set_other (by omega)]
      exact hv s 2 (Nat.le_refl _) (Nat.le_refl _) (by omega)
    rw [ab_call0 _ _ _ _ h0 (by rw [ab_call1_end _ _ _ h1]), ab_call1_end _ _ _ h1]
    simp only []
    rw [ab_call2 _ _ _ _ h2]
    refine ⟨rfl, rfl, ?_⟩
    intro i hi
    simp only []
    rw [getD_set_other (by omega), getD_set_other (by omega), getD_set_other (by omega)]
  | succ k ih =>
    intro s f v hs hf hv
    have hsn : s < n := by omega
    obtain ⟨f, rfl⟩ : ∃ f', f = f' + 2 := ⟨f - 2, by omega⟩
    have h0 := hv s 0 (Nat.le_refl _) (by omega) (by omega)
    have h1 : (v.setIfInBounds (s*4) true).getD (s*4+1) true = false := by
      rw [getD_set_other (by omega)]; exact hv s 1 (Nat.le_refl _) (by omega) (by omega)
    have hv' : ∀ p q, s + 1 ≤ p → p ≤ n → q < 4 →
        ((v.setIfInBounds (s*4) true).setIfInBounds (s*4+1) true).getD (p*4+q) true = false := by
      intro p q hp hpn hq
      rw [getD_set_other (by omega), getD_set_other (by omega)]
      exact hv p q (by omega) hpn hq
    obtain ⟨i1, i2, i3⟩ := ih (s+1) f _ (by omega) (by omega) hv'
    have h2 : (btFindC (abc n) f (s+1) 0 ((v.setIfInBounds (s*4) true).setIfInBounds (s*4+1) true)).vis.getD
        (s*4+2) true = false := by
      rw [i3 _ (by omega), getD_set_other (by omega), getD_set_other (by omega)]
      exact hv s 2 (Nat.le_refl _) (by omega) (by omega)
    rw [ab_call0 _ _ _ _ h0 (by rw [ab_call1_mid _ _ _ _ hsn h1]; exact i1), ab_call1_mid _ _ _ _ hsn h1]
    simp only [BtC.tick_vis, BtC.tick_steps]
    rw [ab_call2 _ _ _ _ h2]
    refine ⟨rfl, by simp only [i2]; omega, ?_⟩
    intro i hi
    simp only []
    rw [getD_set_other (by omega), i3 _ (by omega), getD_set_other (by omega), getD_set_other (by omega)]


theorem ab_start (n s : Nat) (hs : s ≤ n) :
    (btFindC (abc n) (btFuel abN (aHay n)) s 0 (freshVis abN (aHay n))).val = none ∧
    (btFindC (abc n) (btFuel abN (aHay n)) s 0 (freshVis abN (aHay n))).steps = 3 * (n - s + 1) := by
  have hsz : (aHay n).size = n := by simp [aHay]
  have hN : abN.states.size = 4 := rfl
  have := ab_run n (n - s) s (btFuel abN (aHay n)) (freshVis abN (aHay n)) (by omega)
    (by rw [btFuel, hsz, hN]; omega)
    (by
      intro p q hp hpn hq
      apply freshVis_getD
      rw [hsz, hN]; omega)
  exact ⟨this.1, this.2.1⟩

theorem ab_loop (n : Nat) : ∀ (j start fuel : Nat), start + j = n + 1 → j + 1 ≤ fuel →
    (btSearchFromC abN (aHay n) 0 fuel start).1 = none ∧
    2 * (btSearchFromC abN (aHay n) 0 fuel start).2 = 3 * (j * (j + 1)) := by
  have hsz : (aHay n).size = n := by simp [aHay]
  intro j
  induction j with
  | zero =>
    intro start fuel hs hf
    obtain ⟨f, rfl⟩ : ∃ f', fuel = f' + 1 := ⟨fuel - 1, by omega⟩
    rw [btSearchFromC, if_pos (by rw [hsz]; omega)]
    simp
  | succ j ih =>
    intro start fuel hs hf
    obtain ⟨f, rfl⟩ : ∃ f', fuel = f' + 1 := ⟨fuel - 1, by omega⟩
    rw [btSearchFromC, if_neg (by rw [hsz]; omega)]
    obtain ⟨a1, a2⟩ := ab_start n start (by omega)
    obtain ⟨b1, b2⟩ := ih (start + 1) f (by omega) (by omega)
    simp only []
    have a1' : (btFindC { N := abN, h := aHay n, spanStart := 0 } (btFuel abN (aHay n)) start abN.startAnchored
        (freshVis abN (aHay n))).val = none := a1
    have a2' : (btFindC { N := abN, h := aHay n, spanStart := 0 } (btFuel abN (aHay n)) start abN.startAnchored
        (freshVis abN (aHay n))).steps = 3 * (n - start + 1) := a2
    rw [a1']
    simp only [a2', b1, true_and]
    have hn : n - start = j := by omega
    rw [hn, Nat.mul_add 2, b2]
    simp only [Nat.mul_add, Nat.add_mul]
    omega

/-- closed form of the work of the span search as it is for `a*b` on `a^n` (no match): start position `s` costs
    `3·(n−s+1)` steps because its visited set is fresh -/
theorem abSteps_closed (n : Nat) : 2 * abSteps n = 3 * ((n + 1) * (n + 2)) := by
  have := (ab_loop n (n + 1) 0 ((aHay n).size + 2 - 0) (by omega) (by simp [aHay])).2
  exact this

/-- the witness family grows quadratically -/
theorem abSteps_ge (n : Nat) : n * (n + 1) / 2 ≤ abSteps n := by
  have h := abSteps_closed n
  have h2 : n * (n + 1) ≤ (n + 1) * (n + 2) := by
    rw [Nat.mul_comm n (n + 1)]
    exact Nat.mul_le_mul_left _ (by omega)
  have h3 : n * (n + 1) / 2 * 2 ≤ n * (n + 1) := Nat.div_mul_le_self _ _
  omega

/-- (c) no linear bound `K · states · (len+1)` holds for the span search as it is -/
theorem C05_bt_searchAt_not_linear (K : Nat) :
    ∃ n, K * (abN.states.size * ((aHay n).size + 1)) < (btSearchAtC abN (aHay n) 0).2 := by
  refine ⟨3 * K, ?_⟩
  have h := abSteps_closed (3 * K)
  have hsz : (aHay (3 * K)).size = 3 * K := by simp [aHay]
  have hN : abN.states.size = 4 := rfl
  rw [hsz, hN]
  change _ < abSteps (3 * K)
  have e1 : (3 * K + 1) * (3 * K + 2) = (3 * K + 1) * (3 * K) + (3 * K + 1) * 2 := Nat.mul_add _ _ _
  have e2 : K * (4 * (3 * K + 1)) = 4 * ((3 * K + 1) * K) := by
    rw [Nat.mul_left_comm, Nat.mul_comm K]
  have e3 : (3 * K + 1) * (3 * K) = 3 * ((3 * K + 1) * K) := by
    rw [Nat.mul_left_comm]
  omega

example : abSteps 8 = 135 := by decide
example : abSteps 16 = 459 := by have := abSteps_closed 16; omega
example : abSteps 32 = 1683 := by have := abSteps_closed 32; omega
example : abSteps 64 = 6435 := by have := abSteps_closed 64; omega
/-- doubling the haystack more than triples the work -/
example : 3 * abSteps 8 ≤ abSteps 16 ∧ 3 * abSteps 16 ≤ abSteps 32 ∧ 3 * abSteps 32 ≤ abSteps 64 := by
  have := abSteps_closed 8; have := abSteps_closed 16; have := abSteps_closed 32; have := abSteps_closed 64
  omega

/-! ### (d) ONE visited set for the span search: same answer, linear work -/

/-- no match state can be reached from `(q,p)` -/
def Dead (c : BTCtx) (q p : Nat) : Prop := ¬ ∃ j, Reaches c.N c.h q p j

theorem dead_step {c : BTCtx} {q p q' p' : Nat} (hd : Dead c q p) (st : Step c.N c.h (q, p) (q', p')) :
    Dead c q' p' := fun ⟨j, hj⟩ => hd ⟨j, reaches_cons st hj⟩

/-- the entries of all configurations that are not dead are the same -/
def SameAlive (c : BTCtx) (va vb : Array Bool) : Prop :=
  ∀ q p, q < c.N.states.size → c.spanStart ≤ p → p ≤ c.h.size → ¬ Dead c q p → va.getD (c.idx q p) true = vb.getD (c.idx q p) true

theorem SameAlive.refl (c : BTCtx) (v : Array Bool) : SameAlive c v v := fun _ _ _ _ _ _ => rfl
theorem SameAlive.symm {c : BTCtx} {a b : Array Bool} (h : SameAlive c a b) : SameAlive c b a :=
  fun q p h1 h2 h3 h4 => (h q p h1 h2 h3 h4).symm
theorem SameAlive.trans {c : BTCtx} {a b d : Array Bool} (h1 : SameAlive c a b) (h2 : SameAlive c b d) :
    SameAlive c a d := fun q p g1 g2 g3 g4 => (h1 q p g1 g2 g3 g4).trans (h2 q p g1 g2 g3 g4)

theorem sameAlive_set_dead {c : BTCtx} {v : Array Bool} {q pos : Nat} (hq : q < c.N.states.size)
    (hpos : c.spanStart ≤ pos) (hd : Dead c q pos) : SameAlive c v (v.setIfInBounds (c.idx q pos) true) := by
  intro q' p' hq' hp' hle' hal
  have hne : c.idx q pos ≠ c.idx q' p' := by
    intro he
    obtain ⟨rfl, rfl⟩ := idx_inj c hq hq' hpos hp' he
    exact hal hd
  rw [getD_set_other hne]

theorem sameAlive_set_both {c : BTCtx} {va vb : Array Bool} (i : Nat)
    (ha : va.getD i true = false) (hb : vb.getD i true = false) (h : SameAlive c va vb) :
    SameAlive c (va.setIfInBounds i true) (vb.setIfInBounds i true) := by
  intro q' p' hq' hp' hle' hal
  by_cases he : i = c.idx q' p'
  · rw [← he, getD_set_self ha, getD_set_self hb]
  · rw [getD_set_other he, getD_set_other he]
    exact h q' p' hq' hp' hle' hal

/-- a run from a dead configuration reports nothing and marks only dead configurations -/
theorem btFind_dead (c : BTCtx) (fuel pos q : Nat) (vis : Array Bool) (hpos : c.spanStart ≤ pos)
    (hd : Dead c q pos) :
    (btFind c fuel pos q vis).1 = none ∧ SameAlive c vis (btFind c fuel pos q vis).2 := by
  refine ⟨?_, ?_⟩
  · cases hb : btFind c fuel pos q vis with
    | mk r v =>
      cases r with
      | none => rfl
      | some e => exact absurd ⟨e, btFind_sound c fuel pos q vis v e hb⟩ hd
  · induction fuel generalizing pos q vis with
    | zero => exact SameAlive.refl _ _
    | succ fuel ih =>
      rw [btFind]
      split
      · exact SameAlive.refl _ _
      · split
        · exact SameAlive.refl _ _
        · rename_i hq hv
          have hq : q < c.N.states.size := by omega
          have h1 := sameAlive_set_dead (v := vis) hq hpos hd
          simp only []
          split
          · exact h1
          · rename_i lo hi nx hk
            split
            · rename_i hc
              exact h1.trans (ih _ _ _ (by omega) (dead_step hd (Step.byteRange hk hc.1 hc.2.1 hc.2.2)))
            · exact h1
          · rename_i ts hk
            split
            · exact h1
            · rename_i hp
              split
              · rename_i nx hf
                exact h1.trans (ih _ _ _ (by omega) (dead_step hd (Step.sparse hk (by omega) hf)))
              · exact h1
          · rename_i l r hk
            have hl := ih pos l (vis.setIfInBounds (c.idx q pos) true) hpos (dead_step hd (Step.splitL hk))
            split
            · rename_i e1 v1 he
              rw [he] at hl
              exact h1.trans hl
            · rename_i v1 he
              rw [he] at hl
              exact (h1.trans hl).trans (ih _ _ _ hpos (dead_step hd (Step.splitR hk)))
          · rename_i nx hk
            exact h1.trans (ih _ _ _ hpos (dead_step hd (Step.eps hk)))
          · rename_i ci cs nx hk
            exact h1.trans (ih _ _ _ hpos (dead_step hd (Step.cap hk)))
          · rename_i k nx hk
            split
            · rename_i hl
              exact h1.trans (ih _ _ _ hpos (dead_step hd (Step.look hk hl)))
            · exact h1
          · rename_i nx hk
            split
            · rename_i hc
              exact h1.trans (ih _ _ _ (by omega) (dead_step hd (Step.runeAny hk hc.1 hc.2)))
            · exact h1
          · rename_i nx hk
            split
            · rename_i hc
              exact h1.trans (ih _ _ _ (by omega) (dead_step hd (Step.runeAnyNotNL hk hc.1 hc.2.1 hc.2.2)))
            · exact h1
          · exact h1

/-- two runs from the same configuration whose visited sets differ only at dead configurations report the same
    thing and still differ only at dead configurations (for every fuel) -/
theorem btFind_agree (c : BTCtx) (fuel pos q : Nat) (va vb : Array Bool) (hpos : c.spanStart ≤ pos)
    (hle : pos ≤ c.h.size) (hR : SameAlive c va vb) :
    (btFind c fuel pos q va).1 = (btFind c fuel pos q vb).1 ∧
    SameAlive c (btFind c fuel pos q va).2 (btFind c fuel pos q vb).2 := by
  induction fuel generalizing pos q va vb with
  | zero => exact ⟨rfl, hR⟩
  | succ fuel ih =>
    by_cases hq : q ≥ c.N.states.size
    · rw [btFind, btFind, if_pos hq, if_pos hq]
      exact ⟨rfl, hR⟩
    · have hq' : q < c.N.states.size := by omega
      cases ha : va.getD (c.idx q pos) true <;> cases hb : vb.getD (c.idx q pos) true
      · -- both unmarked: lockstep
        have hR1 := sameAlive_set_both (c.idx q pos) ha hb hR
        have hw := runeWidth_le c.h pos hle
        rw [btFind, btFind, if_neg hq, if_neg hq]
        simp only [ha, hb, Bool.false_eq_true, ↓reduceIte]
        cases hk : c.N.get q <;> simp only []
        · exact ⟨by first | rfl | trivial, hR1⟩
        · split
          · exact ih _ _ _ _ (by omega) (by omega) hR1
          · exact ⟨by first | rfl | trivial, hR1⟩
        · split
          · exact ⟨by first | rfl | trivial, hR1⟩
          · cases hf : firstTrans (c.h.at pos) _ <;> simp only []
            · exact ⟨by first | rfl | trivial, hR1⟩
            · exact ih _ _ _ _ (by omega) (by omega) hR1
        · rename_i l r
          obtain ⟨i1, i2⟩ := ih pos l _ _ hpos hle hR1
          cases hra : btFind c fuel pos l (va.setIfInBounds (c.idx q pos) true) with
          | mk r1 v1 =>
            cases hrb : btFind c fuel pos l (vb.setIfInBounds (c.idx q pos) true) with
            | mk r2 v2 =>
              rw [hra, hrb] at i1 i2
              simp only at i1 i2
              subst i1
              cases r1 with
              | some e => exact ⟨rfl, i2⟩
              | none => exact ih _ _ _ _ hpos hle i2
        · exact ih _ _ _ _ hpos hle hR1
        · exact ih _ _ _ _ hpos hle hR1
        · exact ⟨by first | rfl | trivial, hR1⟩
        · split
          · exact ih _ _ _ _ hpos hle hR1
          · exact ⟨by first | rfl | trivial, hR1⟩
        · split
          · exact ih _ _ _ _ (by omega) (by omega) hR1
          · exact ⟨by first | rfl | trivial, hR1⟩
        · split
          · exact ih _ _ _ _ (by omega) (by omega) hR1
          · exact ⟨by first | rfl | trivial, hR1⟩
      · -- only `vb` has it marked: the configuration is dead, the run from `va` finds nothing
        have hd : Dead c q pos := by
          apply Classical.byContradiction
          intro hnd
          have := hR q pos hq' hpos hle hnd
          rw [ha, hb] at this
          cases this
        obtain ⟨d1, d2⟩ := btFind_dead c (fuel+1) pos q va hpos hd
        rw [d1]
        rw [btFind, if_neg hq, if_pos hb]
        exact ⟨rfl, d2.symm.trans hR⟩
      · have hd : Dead c q pos := by
          apply Classical.byContradiction
          intro hnd
          have := hR q pos hq' hpos hle hnd
          rw [ha, hb] at this
          cases this
        obtain ⟨d1, d2⟩ := btFind_dead c (fuel+1) pos q vb hpos hd
        rw [d1]
        rw [btFind, if_neg hq, if_pos ha]
        exact ⟨rfl, hR.trans d2⟩
      · rw [btFind, btFind, if_neg hq, if_neg hq, if_pos ha, if_pos hb]
        exact ⟨rfl, hR⟩

/-- with a stack-free closed visited set, every marked configuration is dead: it agrees with the fresh set on
    everything that is alive -/
theorem sameAlive_fresh {c : BTCtx} {vis : Array Bool} (hinv : Inv c vis (fun _ _ => False)) :
    SameAlive c (freshVis c.N c.h) vis := by
  intro q p hq hp hle hal
  rw [freshVis_getD c.N c.h (idx_lt c hq hle)]
  cases hv : vis.getD (c.idx q p) true with
  | false => rfl
  | true => exact absurd (pruned_no_reach hinv (Or.inr hv) hp hle) hal

theorem btSearchSharedFrom_eq (N : NFA) (h : Bytes) (at_ : Nat) : ∀ (fuel start : Nat) (vis : Array Bool),
    at_ ≤ start → Inv { N := N, h := h, spanStart := at_ } vis (fun _ _ => False) →
    vis.count false < btFuel N h →
    btSearchSharedFrom N h at_ fuel start vis = btSearchFrom N h at_ fuel start := by
  intro fuel
  induction fuel with
  | zero => intros; rfl
  | succ fuel ih =>
    intro start vis hs hinv hcnt
    rw [btSearchSharedFrom, btSearchFrom]
    split
    · rfl
    · rename_i hle
      simp only []
      have hag := btFind_agree { N := N, h := h, spanStart := at_ } (btFuel N h) start N.startAnchored
        (freshVis N h) vis hs (by simp only; omega) (sameAlive_fresh hinv)
      rw [hag.1]
      cases hb : btFind { N := N, h := h, spanStart := at_ } (btFuel N h) start N.startAnchored vis with
      | mk r v =>
        cases r with
        | some e => rfl
        | none =>
          simp only []
          obtain ⟨h1, _, _, h4⟩ := btFind_none _ _ _ _ _ _ _ hb hcnt hs hinv
          exact ih (start + 1) v (by omega) h1 (by omega)

/-- (d) threading ONE visited set through all start positions of the span search does not change its answer -/
theorem btSearchAtShared_eq (N : NFA) (h : Bytes) (at_ : Nat) : btSearchAtShared N h at_ = btSearchAt N h at_ :=
  btSearchSharedFrom_eq N h at_ _ _ _ (Nat.le_refl _) (freshVis_inv _) (freshVis_fuel N h)

theorem btSearchSharedFromC_erase (N : NFA) (h : Bytes) (at_ fuel start : Nat) (vis : Array Bool) :
    (btSearchSharedFromC N h at_ fuel start vis).1 = btSearchSharedFrom N h at_ fuel start vis := by
  induction fuel generalizing start vis with
  | zero => rfl
  | succ fuel ih =>
    rw [btSearchSharedFromC, btSearchSharedFrom]
    split
    · rfl
    · have he := btFindC_erase { N := N, h := h, spanStart := at_ } (btFuel N h) start N.startAnchored vis
      simp only []
      rw [← he]
      simp only []
      cases hb : (btFindC { N := N, h := h, spanStart := at_ } (btFuel N h) start N.startAnchored vis).val with
      | some e => rfl
      | none => exact ih _ _

theorem btSearchAtSharedC_erase (N : NFA) (h : Bytes) (at_ : Nat) :
    (btSearchAtSharedC N h at_).1 = btSearchAtShared N h at_ := btSearchSharedFromC_erase _ _ _ _ _ _

theorem btSearchSharedFromC_steps (N : NFA) (h : Bytes) (at_ fuel start : Nat) (vis : Array Bool) :
    (btSearchSharedFromC N h at_ fuel start vis).2 ≤ 2 * vis.count false + (h.size + 1 - start) := by
  induction fuel generalizing start vis with
  | zero => simp [btSearchSharedFromC]
  | succ fuel ih =>
    rw [btSearchSharedFromC]
    split
    · simp
    · rename_i hs
      have h1 := btFindC_count { N := N, h := h, spanStart := at_ } (btFuel N h) start N.startAnchored vis
      simp only []
      split
      · simp only []
        omega
      · simp only []
        have h2 := ih (start + 1)
          (btFindC { N := N, h := h, spanStart := at_ } (btFuel N h) start N.startAnchored vis).vis
        omega

/-- C05 (backtracker, span search with ONE visited set): same answer as the code's search, linear work:
    `steps ≤ 2 · states · (len+1) + (len − at + 1)` -/
theorem C05_bt_searchAt_shared_linear (N : NFA) (h : Bytes) (at_ : Nat) :
    (btSearchAtSharedC N h at_).1 = btSearchAt N h at_ ∧
    (btSearchAtSharedC N h at_).2 ≤ 2 * (N.states.size * (h.size + 1)) + 1 * (h.size - at_ + 1) := by
  refine ⟨by rw [btSearchAtSharedC_erase, btSearchAtShared_eq], ?_⟩
  have := btSearchSharedFromC_steps N h at_ (h.size + 2 - at_) at_ (freshVis N h)
  rw [freshVis_count] at this
  unfold btSearchAtSharedC
  omega

end Cx.Nfa

/-! ## Pike VM -/
namespace Cx.Pike
open Cx Cx.Nfa

/-! ### erasure -/

theorem closureC_erase (N : NFA) (h : Bytes) (pos : Nat) : ∀ (fuel : Nat) (stack : List Thread) (vis : Vis)
    (out : List Thread), (closureC N h pos fuel stack vis out).1 = closure N h pos fuel stack vis out := by
  intro fuel
  induction fuel with
  | zero => intros; rfl
  | succ fuel ih =>
    intro stack vis out
    cases stack with
    | nil => rfl
    | cons fr st =>
      rw [closureC, closure]
      split
      · exact ih _ _ _
      · exact ih _ _ _

theorem addThreadC_erase (N : NFA) (h : Bytes) (pos : Nat) (t : Thread) (vq : Vis × List Thread) :
    (addThreadC N h pos t vq).1 = addThread N h pos t vq := closureC_erase _ _ _ _ _ _ _

theorem stepSparseC_erase (N : NFA) (h : Bytes) (pos b start : Nat) (ts : List (Nat × Nat × Nat)) :
    ∀ vq, (stepSparseC N h pos b start ts vq).1 = stepSparse N h pos b start ts vq := by
  induction ts with
  | nil => intro vq; rfl
  | cons a ts ih =>
    intro vq
    obtain ⟨lo, hi, nx⟩ := a
    simp only [stepSparseC, stepSparse]
    split
    · rw [ih, addThreadC_erase]
    · exact ih _

theorem stepThreadC_erase (N : NFA) (h : Bytes) (pos : Nat) (t : Thread) (vq : Vis × List Thread) :
    (stepThreadC N h pos t vq).1 = stepThread N h pos t vq := by
  unfold stepThreadC stepThread
  cases hk : N.get t.state <;> simp only []
  · split
    · exact addThreadC_erase ..
    · rfl
  · exact stepSparseC_erase ..
  · split
    · rfl
    · split
      · split
        · exact addThreadC_erase ..
        · rfl
      · rfl
  · split
    · rfl
    · split
      · split
        · exact addThreadC_erase ..
        · rfl
      · rfl

theorem stepQueueC_erase (N : NFA) (h : Bytes) (longest : Bool) (pos : Nat) (Q : List Thread) :
    ∀ best vq, (stepQueueC N h longest pos Q best vq).1 = stepQueue N h longest pos Q best vq := by
  induction Q with
  | nil => intros; rfl
  | cons t ts ih =>
    intro best vq
    simp only [stepQueueC, stepQueue]
    split
    · split
      · rfl
      · exact ih _ _
    · rw [ih, stepThreadC_erase]

theorem endQueueC_erase (N : NFA) (pos : Nat) (Q : List Thread) :
    ∀ best, (endQueueC N pos Q best).1 = endQueue N pos Q best := by
  induction Q with
  | nil => intros; rfl
  | cons t ts ih =>
    intro best
    simp only [endQueueC, endQueue]
    split
    · rfl
    · exact ih _

theorem hasLeftmostC_erase (Q : List Thread) (bs : Nat) : (hasLeftmostC Q bs).1 = hasLeftmost Q bs := by
  induction Q with
  | nil => rfl
  | cons t ts ih =>
    simp only [hasLeftmostC, hasLeftmost, List.any_cons]
    split
    · rename_i hc; simp [hc]
    · rename_i hc
      simp only [hc, decide_false, Bool.false_or]
      exact ih

theorem loopUC_erase (N : NFA) (h : Bytes) (longest : Bool) : ∀ (fuel pos : Nat) (queue : List Thread)
    (best : Option (Nat × Nat)), (loopUC N h longest fuel pos queue best).1 = loopU N h longest fuel pos queue best := by
  intro fuel
  induction fuel with
  | zero => intros; rfl
  | succ fuel ih =>
    intro pos queue best
    rw [loopUC, loopU]
    have hq : (if best.isNone = true then addThreadC N h pos ⟨N.startAnchored, pos⟩ (clearVis N, queue)
        else ((clearVis N, queue), 0)).1.2 =
        (if best.isNone = true then (addThread N h pos ⟨N.startAnchored, pos⟩ (clearVis N, queue)).2 else queue) := by
      split
      · rw [addThreadC_erase]
      · rfl
    simp only [hq, stepQueueC_erase, endQueueC_erase]
    split
    · generalize stepQueue N h longest pos _ best (clearVis N, []) = r
      obtain ⟨b, v, next⟩ := r
      cases b with
      | none => exact ih _ _ _
      | some x =>
        obtain ⟨bs, be⟩ := x
        simp only [hasLeftmostC_erase]
        split
        · exact ih _ _ _
        · rfl
    · rfl

theorem searchUnanchoredC_erase (N : NFA) (h : Bytes) (at_ : Nat) (longest : Bool) :
    (searchUnanchoredC N h at_ longest).1 = searchUnanchored N h at_ longest := loopUC_erase ..

theorem stepQueueAC_erase (N : NFA) (h : Bytes) (longest : Bool) (pos : Nat) (Q : List Thread) :
    ∀ last vq, (stepQueueAC N h longest pos Q last vq).1 = stepQueueA N h longest pos Q last vq := by
  induction Q with
  | nil => intros; rfl
  | cons t ts ih =>
    intro last vq
    simp only [stepQueueAC, stepQueueA]
    split
    · split
      · rfl
      · exact ih _ _
    · rw [ih, stepThreadC_erase]

theorem endQueueAC_erase (N : NFA) (pos : Nat) (Q : List Thread) :
    ∀ last, (endQueueAC N pos Q last).1 = endQueueA N pos Q last := by
  induction Q with
  | nil => intros; rfl
  | cons t ts ih =>
    intro last
    simp only [endQueueAC, endQueueA]
    split
    · rfl
    · exact ih _

theorem loopAC_erase (N : NFA) (h : Bytes) (longest : Bool) : ∀ (fuel pos : Nat) (queue : List Thread)
    (last : Option Nat), (loopAC N h longest fuel pos queue last).1 = loopA N h longest fuel pos queue last := by
  intro fuel
  induction fuel with
  | zero => intros; rfl
  | succ fuel ih =>
    intro pos queue last
    rw [loopAC, loopA]
    simp only [stepQueueAC_erase]
    split
    · split
      · rfl
      · exact ih _ _ _
    · exact endQueueAC_erase ..

theorem searchAnchoredC_erase (N : NFA) (h : Bytes) (at_ : Nat) (longest : Bool) :
    (searchAnchoredC N h at_ longest).1 = searchAnchored N h at_ longest := by
  unfold searchAnchoredC searchAnchored
  simp only [addThreadC_erase]
  rw [← loopAC_erase]
  split <;> rename_i hb <;> simp [hb]

theorem emptyLoopC_erase (N : NFA) (h : Bytes) (pos : Nat) : ∀ (fuel : Nat) (st : List Nat) (vis : Vis),
    (emptyLoopC N h pos fuel st vis).1 = emptyLoop N h pos fuel st vis := by
  intro fuel
  induction fuel with
  | zero => intros; rfl
  | succ fuel ih =>
    intro st vis
    cases st with
    | nil => rfl
    | cons q st =>
      rw [emptyLoopC, emptyLoop]
      split
      · rfl
      · exact ih _ _

theorem matchesEmptyAtC_erase (N : NFA) (h : Bytes) (pos : Nat) :
    (matchesEmptyAtC N h pos).1 = matchesEmptyAt N h pos := emptyLoopC_erase ..

/-- erasing the counter of `searchAtC` gives `searchAt` -/
theorem searchAtC_erase (N : NFA) (h : Bytes) (at_ : Nat) (longest : Bool) :
    (searchAtC N h at_ longest).1 = searchAt N h at_ longest := by
  unfold searchAtC searchAt
  split
  · rfl
  · split
    · simp only [matchesEmptyAtC_erase]
    · split
      · exact searchAnchoredC_erase ..
      · exact searchUnanchoredC_erase ..

/-! ### cost of one generation: closure pops and insertions are paid for by `Visited` marks -/

theorem closureC_cost (N : NFA) (h : Bytes) (pos : Nat) : ∀ (fuel : Nat) (stack : List Thread) (vis : Vis)
    (out : List Thread),
    (closureC N h pos fuel stack vis out).2 + 3 * (closureC N h pos fuel stack vis out).1.1.count false ≤
      stack.length + 3 * vis.count false ∧
    (closureC N h pos fuel stack vis out).1.2.length + (closureC N h pos fuel stack vis out).1.1.count false ≤
      out.length + vis.count false ∧
    (closureC N h pos fuel stack vis out).1.1.count false ≤ vis.count false := by
  intro fuel
  induction fuel with
  | zero => intro stack vis out; simp [closureC]
  | succ fuel ih =>
    intro stack vis out
    cases stack with
    | nil => simp [closureC]
    | cons fr st =>
      rw [closureC]
      split
      · obtain ⟨h1, h2, h3⟩ := ih st vis out
        simp only [List.length_cons]
        omega
      · rename_i hv
        have hv : vis.getD fr.state true = false := by simpa using hv
        have hc := count_set_lt hv
        have hl := expand_len N h pos fr
        obtain ⟨h1, h2, h3⟩ := ih ((expand N h pos fr).1 ++ st) (vis.setIfInBounds fr.state true)
          (if (expand N h pos fr).2 then out ++ [fr] else out)
        simp only [List.length_cons, List.length_append] at h1 ⊢
        split
        · rename_i he
          simp only [he, ↓reduceIte, List.length_append, List.length_cons, List.length_nil] at h1 h2 h3 ⊢
          omega
        · rename_i he
          simp only [he, Bool.false_eq_true, ↓reduceIte] at h1 h2 h3 ⊢
          omega

/-- `r` was obtained from the generation `vq` at a cost of at most `k` beyond what the new `Visited` marks pay
    for (3 per mark), the queue grew by at most the number of new marks -/
def Paid (vq : Vis × List Thread) (r : (Vis × List Thread) × Nat) (k : Nat) : Prop :=
  r.2 + 3 * r.1.1.count false ≤ k + 3 * vq.1.count false ∧
  r.1.2.length + r.1.1.count false ≤ vq.2.length + vq.1.count false ∧
  r.1.1.count false ≤ vq.1.count false

theorem Paid.refl (vq : Vis × List Thread) : Paid vq (vq, 0) 0 := by
  simp [Paid]

theorem Paid.mono {vq : Vis × List Thread} {r : (Vis × List Thread) × Nat} {k k' : Nat} (h : Paid vq r k)
    (hk : k ≤ k') : Paid vq r k' := by
  obtain ⟨h1, h2, h3⟩ := h
  exact ⟨by omega, h2, h3⟩

theorem Paid.trans {vq : Vis × List Thread} {r1 r2 : (Vis × List Thread) × Nat} {k1 k2 : Nat}
    (h1 : Paid vq r1 k1) (h2 : Paid r1.1 r2 k2) : Paid vq (r2.1, r1.2 + r2.2) (k1 + k2) := by
  obtain ⟨a1, a2, a3⟩ := h1
  obtain ⟨b1, b2, b3⟩ := h2
  refine ⟨?_, ?_, ?_⟩ <;> simp only [] <;> omega

theorem addThreadC_paid (N : NFA) (h : Bytes) (pos : Nat) (t : Thread) (vq : Vis × List Thread) :
    Paid vq (addThreadC N h pos t vq) 1 := by
  have := closureC_cost N h pos (closureFuel N) [t] vq.1 vq.2
  simpa [Paid, addThreadC] using this

theorem stepSparseC_paid (N : NFA) (h : Bytes) (pos b start : Nat) (ts : List (Nat × Nat × Nat)) :
    ∀ vq, Paid vq (stepSparseC N h pos b start ts vq) (sparseSuccs b ts).length := by
  induction ts with
  | nil => intro vq; exact Paid.refl vq
  | cons a ts ih =>
    intro vq
    obtain ⟨lo, hi, nx⟩ := a
    simp only [stepSparseC, sparseSuccs]
    split
    · have := (addThreadC_paid N h (pos+1) ⟨nx, start⟩ vq).trans (ih _)
      simp only [List.length_cons]
      exact this.mono (by omega)
    · exact ih vq

/-- at most `W` transitions of a sparse state contain any given byte -/
def SparseFan (N : NFA) (W : Nat) : Prop :=
  ∀ q ts, N.get q = .sparse ts → ∀ b, (sparseSuccs b ts).length ≤ W

theorem sparseSuccs_nil_of_none {b : Nat} {ts : List (Nat × Nat × Nat)}
    (hn : ∀ a ∈ ts, ¬ (a.1 ≤ b ∧ b ≤ a.2.1)) : sparseSuccs b ts = [] := by
  induction ts with
  | nil => rfl
  | cons a ts ih =>
    obtain ⟨lo, hi, nx⟩ := a
    simp only [sparseSuccs]
    rw [if_neg (hn (lo, hi, nx) (List.mem_cons_self ..))]
    exact ih (fun a ha => hn a (List.mem_cons_of_mem _ ha))

theorem sparseSuccs_len_of_disjoint {b : Nat} {ts : List (Nat × Nat × Nat)}
    (hd : ts.Pairwise (fun a b => a.2.1 < b.1 ∨ b.2.1 < a.1)) : (sparseSuccs b ts).length ≤ 1 := by
  induction ts with
  | nil => simp [sparseSuccs]
  | cons a ts ih =>
    obtain ⟨lo, hi, nx⟩ := a
    have hd' := List.pairwise_cons.mp hd
    simp only [sparseSuccs]
    split
    · rename_i hc
      rw [sparseSuccs_nil_of_none]
      · simp
      · intro a ha hin
        have := hd'.1 a ha
        simp only at this
        omega
    · exact ih hd'.2

/-- pairwise disjoint ranges (how the compiler builds sparse states): at most one transition per byte -/
theorem sparseFan_of_disjoint {N : NFA} (hd : SparseDisjoint N) : SparseFan N 1 :=
  fun q ts hk _ => sparseSuccs_len_of_disjoint (hd q ts hk)

theorem stepThreadC_paid {N : NFA} {h : Bytes} {W : Nat} (hR : RuneOK N h) (hW : SparseFan N W) (hW1 : 1 ≤ W)
    {pos : Nat} (hp : pos < h.size) (t : Thread) (vq : Vis × List Thread) :
    Paid vq (stepThreadC N h pos t vq) W := by
  unfold stepThreadC
  cases hk : N.get t.state <;> simp only []
  all_goals try exact (Paid.refl vq).mono (Nat.zero_le _)
  · split
    · exact (addThreadC_paid ..).mono hW1
    · exact (Paid.refl vq).mono (Nat.zero_le _)
  · exact (stepSparseC_paid ..).mono (hW _ _ hk _)
  · rcases hR with hn | ha
    · exact absurd hk (hn _ _).1
    · have hb := ha pos hp
      rw [if_neg (by omega), if_pos hp]
      split
      · exact (addThreadC_paid ..).mono hW1
      · exact (Paid.refl vq).mono (Nat.zero_le _)
  · rcases hR with hn | ha
    · exact absurd hk (hn _ _).2
    · have hb := ha pos hp
      rw [if_neg (by omega), if_pos hp]
      split
      · exact (addThreadC_paid ..).mono hW1
      · exact (Paid.refl vq).mono (Nat.zero_le _)

theorem stepQueueC_paid {N : NFA} {h : Bytes} {W : Nat} (hR : RuneOK N h) (hW : SparseFan N W) (hW1 : 1 ≤ W)
    (longest : Bool) {pos : Nat} (hp : pos < h.size) (Q : List Thread) : ∀ best vq,
    Paid vq ((stepQueueC N h longest pos Q best vq).1.2, (stepQueueC N h longest pos Q best vq).2)
      (Q.length * (W + 1)) := by
  induction Q with
  | nil => intro best vq; exact (Paid.refl vq).mono (Nat.zero_le _)
  | cons t ts ih =>
    intro best vq
    have hlen : (t :: ts).length * (W + 1) = ts.length * (W + 1) + (W + 1) := by
      rw [List.length_cons, Nat.succ_mul]
    rw [hlen]
    simp only [stepQueueC]
    split
    · split
      · obtain ⟨a1, a2, a3⟩ := Paid.refl vq
        exact ⟨by simp only [] at a1 ⊢; omega, a2, a3⟩
      · obtain ⟨a1, a2, a3⟩ := ih (record best t.start pos) vq
        exact ⟨by simp only [] at a1 ⊢; omega, a2, a3⟩
    · obtain ⟨a1, a2, a3⟩ := stepThreadC_paid hR hW hW1 hp t vq
      obtain ⟨b1, b2, b3⟩ := ih best (stepThreadC N h pos t vq).1
      refine ⟨?_, ?_, ?_⟩ <;> simp only [] at * <;> omega

theorem endQueueC_cost (N : NFA) (pos : Nat) (Q : List Thread) : ∀ best, (endQueueC N pos Q best).2 ≤ Q.length := by
  induction Q with
  | nil => intro best; simp [endQueueC]
  | cons t ts ih =>
    intro best
    simp only [endQueueC, List.length_cons]
    split
    · simp only []; omega
    · have := ih best
      simp only []; omega

theorem hasLeftmostC_cost (Q : List Thread) (bs : Nat) : (hasLeftmostC Q bs).2 ≤ Q.length := by
  induction Q with
  | nil => simp [hasLeftmostC]
  | cons t ts ih =>
    simp only [hasLeftmostC, List.length_cons]
    split
    · simp only []; omega
    · simp only []; omega

/-- cost of one position of the unanchored loop: `2·S·(W+1) + 7·S + 1` -/
def perPos (N : NFA) (W : Nat) : Nat := 2 * (N.states.size * (W + 1)) + 7 * N.states.size + 1

theorem loopUC_cost {N : NFA} {h : Bytes} {W : Nat} (hR : RuneOK N h) (hW : SparseFan N W) (hW1 : 1 ≤ W)
    (longest : Bool) : ∀ (fuel pos : Nat) (queue : List Thread) (best : Option (Nat × Nat)),
    queue.length ≤ N.states.size → (loopUC N h longest fuel pos queue best).2 ≤ fuel * perPos N W := by
  intro fuel
  induction fuel with
  | zero => intro pos queue best _; simp [loopUC]
  | succ fuel ih =>
    intro pos queue best hq
    rw [loopUC, Nat.succ_mul]
    -- the injected start thread
    have hinj : ∀ inj : (Vis × List Thread) × Nat,
        inj = (if best.isNone = true then addThreadC N h pos ⟨N.startAnchored, pos⟩ (clearVis N, queue)
          else ((clearVis N, queue), 0)) →
        inj.2 ≤ 1 + 3 * N.states.size ∧ inj.1.2.length ≤ 2 * N.states.size := by
      intro inj he
      have hp : Paid (clearVis N, queue) inj 1 := by
        rw [he]
        split
        · exact addThreadC_paid ..
        · exact (Paid.refl _).mono (by omega)
      obtain ⟨a1, a2, a3⟩ := hp
      simp only [clearVis_count] at a1 a2 a3
      omega
    generalize hi : (if best.isNone = true then addThreadC N h pos ⟨N.startAnchored, pos⟩ (clearVis N, queue)
          else ((clearVis N, queue), 0)) = inj
    obtain ⟨i1, i2⟩ := hinj inj hi.symm
    simp only []
    split
    · rename_i hp
      obtain ⟨s1, s2, s3⟩ := stepQueueC_paid hR hW hW1 longest hp inj.1.2 best (clearVis N, [])
      simp only [clearVis_count, List.length_nil] at s1 s2 s3
      have hmul : inj.1.2.length * (W + 1) ≤ 2 * (N.states.size * (W + 1)) := by
        rw [← Nat.mul_assoc]
        exact Nat.mul_le_mul_right _ i2
      have hnext : (stepQueueC N h longest pos inj.1.2 best (clearVis N, [])).1.2.2.length ≤ N.states.size := by
        omega
      have hrest := ih (pos + 1) (stepQueueC N h longest pos inj.1.2 best (clearVis N, [])).1.2.2
        (stepQueueC N h longest pos inj.1.2 best (clearVis N, [])).1.1 hnext
      have hP : perPos N W = 2 * (N.states.size * (W + 1)) + 7 * N.states.size + 1 := rfl
      split
      · rename_i bs be hb
        have hl := hasLeftmostC_cost (stepQueueC N h longest pos inj.1.2 best (clearVis N, [])).1.2.2 bs
        split
        · simp only []
          omega
        · simp only []
          omega
      · simp only []
        omega
    · have he := endQueueC_cost N pos inj.1.2 best
      have hP : perPos N W = 2 * (N.states.size * (W + 1)) + 7 * N.states.size + 1 := rfl
      simp only []
      omega

theorem searchUnanchoredC_cost {N : NFA} {h : Bytes} {W : Nat} (hR : RuneOK N h) (hW : SparseFan N W) (hW1 : 1 ≤ W)
    (longest : Bool) (at_ : Nat) :
    (searchUnanchoredC N h at_ longest).2 ≤ (h.size + 1 - at_) * perPos N W :=
  loopUC_cost hR hW hW1 longest _ _ _ _ (by simp)

theorem stepQueueAC_paid {N : NFA} {h : Bytes} {W : Nat} (hR : RuneOK N h) (hW : SparseFan N W) (hW1 : 1 ≤ W)
    (longest : Bool) {pos : Nat} (hp : pos < h.size) (Q : List Thread) : ∀ last vq,
    Paid vq ((stepQueueAC N h longest pos Q last vq).1.2, (stepQueueAC N h longest pos Q last vq).2)
      (Q.length * (W + 1)) := by
  induction Q with
  | nil => intro last vq; exact (Paid.refl vq).mono (Nat.zero_le _)
  | cons t ts ih =>
    intro last vq
    have hlen : (t :: ts).length * (W + 1) = ts.length * (W + 1) + (W + 1) := by
      rw [List.length_cons, Nat.succ_mul]
    rw [hlen]
    simp only [stepQueueAC]
    split
    · split
      · obtain ⟨a1, a2, a3⟩ := Paid.refl vq
        exact ⟨by simp only [] at a1 ⊢; omega, a2, a3⟩
      · have key : ∀ l', Paid vq ((stepQueueAC N h longest pos ts l' vq).1.2,
            (stepQueueAC N h longest pos ts l' vq).2 + 1) (ts.length * (W + 1) + (W + 1)) := by
          intro l'
          obtain ⟨a1, a2, a3⟩ := ih l' vq
          exact ⟨by simp only [] at a1 ⊢; omega, a2, a3⟩
        exact key _
    · obtain ⟨a1, a2, a3⟩ := stepThreadC_paid hR hW hW1 hp t vq
      obtain ⟨b1, b2, b3⟩ := ih last (stepThreadC N h pos t vq).1
      refine ⟨?_, ?_, ?_⟩ <;> simp only [] at * <;> omega

theorem endQueueAC_cost (N : NFA) (pos : Nat) (Q : List Thread) : ∀ last, (endQueueAC N pos Q last).2 ≤ Q.length := by
  induction Q with
  | nil => intro last; simp [endQueueAC]
  | cons t ts ih =>
    intro last
    simp only [endQueueAC, List.length_cons]
    split
    · simp only []; omega
    · have := ih last
      simp only []; omega

theorem loopAC_cost {N : NFA} {h : Bytes} {W : Nat} (hR : RuneOK N h) (hW : SparseFan N W) (hW1 : 1 ≤ W)
    (longest : Bool) : ∀ (fuel pos : Nat) (queue : List Thread) (last : Option Nat),
    queue.length ≤ N.states.size → (loopAC N h longest fuel pos queue last).2 ≤ fuel * perPos N W := by
  intro fuel
  induction fuel with
  | zero => intro pos queue last _; simp [loopAC]
  | succ fuel ih =>
    intro pos queue last hq
    rw [loopAC, Nat.succ_mul]
    have hP : perPos N W = 2 * (N.states.size * (W + 1)) + 7 * N.states.size + 1 := rfl
    split
    · rename_i hp
      obtain ⟨s1, s2, s3⟩ := stepQueueAC_paid hR hW hW1 longest hp queue last (clearVis N, [])
      simp only [clearVis_count, List.length_nil] at s1 s2 s3
      have hmul : queue.length * (W + 1) ≤ N.states.size * (W + 1) := Nat.mul_le_mul_right _ hq
      have hnext : (stepQueueAC N h longest pos queue last (clearVis N, [])).1.2.2.length ≤ N.states.size := by
        omega
      have hrest := ih (pos + 1) (stepQueueAC N h longest pos queue last (clearVis N, [])).1.2.2
        (stepQueueAC N h longest pos queue last (clearVis N, [])).1.1 hnext
      simp only []
      split
      · simp only []
        omega
      · simp only []
        omega
    · have he := endQueueAC_cost N pos queue last
      omega

theorem searchAnchoredC_cost {N : NFA} {h : Bytes} {W : Nat} (hR : RuneOK N h) (hW : SparseFan N W) (hW1 : 1 ≤ W)
    (longest : Bool) (at_ : Nat) :
    (searchAnchoredC N h at_ longest).2 ≤ (h.size + 1 - at_) * perPos N W + (3 * N.states.size + 1) := by
  unfold searchAnchoredC
  obtain ⟨a1, a2, a3⟩ := addThreadC_paid N h at_ ⟨N.startAnchored, at_⟩ (clearVis N, [])
  simp only [clearVis_count, List.length_nil] at a1 a2 a3
  have hl := loopAC_cost hR hW hW1 longest (h.size + 1 - at_) at_
    (addThreadC N h at_ ⟨N.startAnchored, at_⟩ (clearVis N, [])).1.2 none (by omega)
  simp only []
  split <;> simp only [] <;> omega

theorem emptyLoopC_cost (N : NFA) (h : Bytes) (pos : Nat) : ∀ (fuel : Nat) (st : List Nat) (vis : Vis),
    (emptyLoopC N h pos fuel st vis).2 ≤ 3 * fuel := by
  intro fuel
  induction fuel with
  | zero => intro st vis; simp [emptyLoopC]
  | succ fuel ih =>
    intro st vis
    cases st with
    | nil => simp [emptyLoopC]
    | cons q st =>
      rw [emptyLoopC]
      split
      · simp only []; omega
      · have hl := expand_len N h pos ⟨q, 0⟩
        have := ih (((expand N h pos ⟨q, 0⟩).1.map (·.state)).foldl pushNew (st, vis)).1
          (((expand N h pos ⟨q, 0⟩).1.map (·.state)).foldl pushNew (st, vis)).2
        simp only []
        omega

theorem matchesEmptyAtC_cost (N : NFA) (h : Bytes) (pos : Nat) :
    (matchesEmptyAtC N h pos).2 ≤ 3 * N.states.size + 6 := by
  have := emptyLoopC_cost N h pos (N.states.size + 2) [N.startAnchored]
    ((clearVis N).setIfInBounds N.startAnchored true)
  unfold matchesEmptyAtC
  omega

/-- cost of the whole Pike search in terms of the fan-out `W` of sparse states -/
theorem searchAtC_cost {N : NFA} {h : Bytes} {W : Nat} (hR : RuneOK N h) (hW : SparseFan N W) (hW1 : 1 ≤ W)
    (longest : Bool) (at_ : Nat) :
    (searchAtC N h at_ longest).2 ≤
      (h.size - at_ + 1) * (2 * (N.states.size * (W + 1)) + 7 * N.states.size + 1) + (3 * N.states.size + 6) := by
  have hP : perPos N W = 2 * (N.states.size * (W + 1)) + 7 * N.states.size + 1 := rfl
  rw [← hP]
  unfold searchAtC
  split
  · simp
  · rename_i hle
    have hfu : h.size + 1 - at_ = h.size - at_ + 1 := by omega
    split
    · have := matchesEmptyAtC_cost N h at_
      simp only []
      omega
    · split
      · have := searchAnchoredC_cost hR hW hW1 longest at_
        rw [hfu] at this
        omega
      · have := searchUnanchoredC_cost hR hW hW1 longest at_
        rw [hfu] at this
        omega

/-- C05 (Pike VM, SlotTable family, both modes): the counter-erased search is the model's search, and its cost is
    at most `(len − at + 1) · (11 · states + 1) + 3 · states + 6`.
    Per position: ≤ `3S+1` for the injected start thread, ≤ `2S` threads in the queue (`Visited` is cleared before the
    start thread is injected, so a state can be in the queue twice) each costing 1 + 1 closure start, ≤ `3S` for all
    closures into the next queue (they share one `Visited`), ≤ `S` for `hasLeftmostCandidate`.
    Hypotheses: sparse states have pairwise disjoint ranges (otherwise every matching transition starts a closure:
    see `searchAtC_cost` for the bound in terms of the fan-out), and no rune states or an ASCII haystack (a rune
    thread on a continuation byte is re-queued WITHOUT consulting `Visited`, while a new start thread is injected
    at every position: the queue then grows by one per position and the search is quadratic). -/
theorem C05_pike_linear {N : NFA} {h : Bytes} (hd : SparseDisjoint N) (hR : RuneOK N h) (at_ : Nat) (longest : Bool) :
    (searchAtC N h at_ longest).1 = searchAt N h at_ longest ∧
    (searchAtC N h at_ longest).2 ≤ (h.size - at_ + 1) * (11 * N.states.size + 1) + (3 * N.states.size + 6) := by
  refine ⟨searchAtC_erase .., ?_⟩
  have := searchAtC_cost hR (sparseFan_of_disjoint hd) (Nat.le_refl 1) longest at_
  have e : 2 * (N.states.size * (1 + 1)) + 7 * N.states.size + 1 = 11 * N.states.size + 1 := by omega
  rw [e] at this
  exact this

/-- the same in the shape `K · states · (len − at + 1) + K'` -/
theorem C05_pike_linear' {N : NFA} {h : Bytes} (hd : SparseDisjoint N) (hR : RuneOK N h) (at_ : Nat) (longest : Bool)
    (hN : 0 < N.states.size) :
    (searchAtC N h at_ longest).2 ≤ 15 * N.states.size * (h.size - at_ + 1) + 6 := by
  have h1 := (C05_pike_linear hd hR at_ longest).2
  have h2 : (h.size - at_ + 1) * (11 * N.states.size + 1) =
      11 * (N.states.size * (h.size - at_ + 1)) + (h.size - at_ + 1) := by
    rw [Nat.mul_add, Nat.mul_one, Nat.mul_left_comm, Nat.mul_comm (h.size - at_ + 1)]
  have h3 : h.size - at_ + 1 ≤ N.states.size * (h.size - at_ + 1) := Nat.le_mul_of_pos_left _ hN
  have h4 : N.states.size ≤ N.states.size * (h.size - at_ + 1) := Nat.le_mul_of_pos_right _ (by omega)
  rw [Nat.mul_assoc]
  omega

end Cx.Pike
