import Cx.Proofs.OnePassBuild
import Cx.Proofs.OnePassRef
/-
  Cx.Proofs.OnePassClosure — the epsilon closure of the one-pass builder (`epsilonClosureOnePass`):
   * `applyMask` pointwise;
   * one iteration of the closure loop (`stepCl`, `closureLoop_succ`, `stepCl_spec`);
   * what a finished closure guarantees (`epsClosure_spec`): every entry is a state of the automaton, the children
     of an entry come strictly later in the list (so no entry is its own epsilon-descendant), the `matchWins` flags
     say "a match state that is not behind an end look precedes this entry", all match entries carry the recorded
     mask / end flag, and every entry lies in any successor-closed set that holds the root.
-/
namespace Cx.Caps.OnePass
open Cx Cx.Nfa

/-! ### `applyMask` pointwise -/

theorem applyL_get (m : Nat) (p : Nat) : ∀ (L : List Nat) (sl : Slots) (j : Nat), L.Nodup →
    (L.foldl (fun sl' i => if m.testBit i then sl'.set i (p : Int) else sl') sl)[j]? =
      if j ∈ L ∧ m.testBit j = true then sl[j]?.map (fun _ => (p : Int)) else sl[j]? := by
  intro L
  induction L with
  | nil => intro sl j _; simp
  | cons x L ih =>
    intro sl j hnd
    have hnd' := List.nodup_cons.mp hnd
    simp only [List.foldl_cons]
    rw [ih _ j hnd'.2]
    by_cases hx : m.testBit x = true
    · simp only [hx, ↓reduceIte, List.mem_cons]
      by_cases hjx : j = x
      · subst hjx
        have hnl : ¬ (j ∈ L) := hnd'.1
        simp only [hnl, false_and, ↓reduceIte, true_or, hx, and_self, List.getElem?_set_self']
        cases hlt : sl[j]? with
        | none => 
          have : sl.length ≤ j := by simpa using hlt
          simp [List.getElem?_set, this]
        | some v =>
          have : j < sl.length := by
            cases Nat.lt_or_ge j sl.length with
            | inl h => exact h
            | inr h => simp [List.getElem?_eq_none h] at hlt
          simp [List.getElem?_set, this]
      · have hne : x ≠ j := fun h => hjx h.symm
        simp only [List.getElem?_set_ne hne, hjx, false_or]
    · have hx' : m.testBit x = false := by simpa using hx
      simp only [hx', Bool.false_eq_true, ↓reduceIte, List.mem_cons]
      by_cases hjx : j = x
      · subst hjx
        have hnl : ¬ (j ∈ L) := hnd'.1
        simp [hnl, hx']
      · simp only [hjx, false_or]

theorem applyMask_get (m p : Nat) (sl : Slots) (j : Nat) :
    (applyMask m p sl)[j]? = if j < 32 ∧ m.testBit j = true then sl[j]?.map (fun _ => (p : Int)) else sl[j]? := by
  unfold applyMask
  rw [applyL_get m p (List.range 32) sl j List.nodup_range]
  simp only [List.mem_range]

theorem applyMask_length (m p : Nat) (sl : Slots) : (applyMask m p sl).length = sl.length := by
  unfold applyMask
  have : ∀ (L : List Nat) (acc : Slots),
      (L.foldl (fun sl' i => if m.testBit i then sl'.set i (p : Int) else sl') acc).length = acc.length := by
    intro L
    induction L with
    | nil => intro acc; rfl
    | cons x L ih =>
      intro acc
      simp only [List.foldl_cons]
      rw [ih]
      split <;> simp
  exact this _ _

theorem applyMask_zero (p : Nat) (sl : Slots) : applyMask 0 p sl = sl := by
  apply List.ext_getElem?
  intro j
  rw [applyMask_get]
  simp

theorem testBit_setBit (m k j : Nat) (hk : k < 32) : (setBit m k).testBit j = (m.testBit j || decide (j = k)) := by
  unfold setBit
  rw [if_pos hk, Nat.testBit_or, Nat.testBit_shiftLeft]
  by_cases hjk : j = k
  · subst hjk; simp
  · simp only [hjk, decide_false, Bool.or_false]
    by_cases hge : j ≥ k
    · have : j - k ≠ 0 := by omega
      simp [hge, Nat.testBit_one_eq_true_iff_self_eq_zero, this]
    · simp [hge]

/-- recording one more slot at the same offset -/
theorem applyMask_setBit (m k p : Nat) (sl : Slots) (hlen : sl.length ≤ 32) :
    applyMask (setBit m k) p sl = (applyMask m p sl).set k (p : Int) := by
  apply List.ext_getElem?
  intro j
  rw [applyMask_get, List.getElem?_set, applyMask_get]
  by_cases hk : k < 32
  · rw [testBit_setBit m k j hk]
    by_cases hjk : k = j
    · subst hjk
      simp only [hk, decide_true, Bool.or_true, and_self, ↓reduceIte]
      rw [applyMask_length]
      by_cases hlt : k < sl.length
      · simp [hlt, List.getElem?_eq_getElem hlt]
      · simp [hlt, List.getElem?_eq_none (by omega : sl.length ≤ k)]
    · have hjk' : ¬ (j = k) := fun h => hjk h.symm
      simp only [hjk, ↓reduceIte, hjk', decide_false, Bool.or_false]
  · have : setBit m k = m := by unfold setBit; rw [if_neg hk]
    rw [this]
    by_cases hjk : k = j
    · subst hjk
      simp only [hk, false_and, ↓reduceIte]
      have hle : sl.length ≤ k := by omega
      rw [applyMask_length, if_neg (by omega)]
      simp [List.getElem?_eq_none hle]
    · simp only [hjk, ↓reduceIte]



/-! ### one iteration of the closure loop -/

def CEntry.base (e : CEntry) : Entry := ⟨e.nfaID, e.slots, e.atEnd⟩

/-- the entries pushed when `e` is popped, in priority order (they are pushed in reverse) -/
def children (N : NFA) (e : Entry) : List Entry :=
  match N.get e.nfaID with
  | .split l r => [⟨l, e.slots, e.atEnd⟩, ⟨r, e.slots, e.atEnd⟩]
  | .eps nx => [⟨nx, e.slots, e.atEnd⟩]
  | .cap idx st nx => [⟨nx, setBit e.slots (slotIdx idx st), e.atEnd⟩]
  | .look k nx => if nx = invalidState then [] else [⟨nx, e.slots, e.atEnd || isEndLook k⟩]
  | _ => []

def pushAll (s : ClS) (L : List Entry) : Option ClS :=
  L.foldl (fun acc x => acc.bind (fun s => push s x.nfaID x.slots x.atEnd)) (some s)

theorem pushAll_none (L : List Entry) :
    L.foldl (fun acc x => acc.bind (fun s => push s x.nfaID x.slots x.atEnd)) none = none := by
  induction L with
  | nil => rfl
  | cons x L ih => simp only [List.foldl_cons, Option.bind_none]; exact ih

theorem pushAll_cons (s : ClS) (x : Entry) (L : List Entry) :
    pushAll s (x :: L) = (push s x.nfaID x.slots x.atEnd).bind (fun s1 => pushAll s1 L) := by
  unfold pushAll
  simp only [List.foldl_cons, Option.bind_some]
  cases push s x.nfaID x.slots x.atEnd with
  | none => simp only [Option.bind_none]; exact pushAll_none L
  | some s1 => rfl

/-- the state after popping `e` -/
def popped (s : ClS) (e : Entry) (st : List Entry) : ClS :=
  { s with stack := st, closure := s.closure ++ [⟨e.nfaID, e.slots, e.atEnd, s.matched && !s.matchEnd⟩] }

def isRune (s : NState) : Bool :=
  match s with
  | .runeAny _ => true
  | .runeAnyNotNL _ => true
  | _ => false

/-- one iteration of the closure loop with `e` on top of the stack -/
def stepCl (N : NFA) (s : ClS) (e : Entry) (st : List Entry) : Option ClS :=
  if e.nfaID ≥ N.states.size then some (popped s e st) else
  match N.get e.nfaID with
  | .mtch =>
    if s.matched then none
    else some { popped s e st with matched := true, matchMask := e.slots, matchEnd := e.atEnd }
  | .runeAny _ => none
  | .runeAnyNotNL _ => none
  | _ => pushAll (popped s e st) (children N e).reverse

theorem closureLoop_succ (N : NFA) (fuel : Nat) (s : ClS) (e : Entry) (st : List Entry) (hs : s.stack = e :: st) :
    closureLoop N (fuel+1) s = (stepCl N s e st).bind (closureLoop N fuel) := by
  rw [closureLoop]
  simp only [hs]
  unfold stepCl
  by_cases hlt : e.nfaID ≥ N.states.size
  · rw [if_pos hlt, if_pos hlt]; rfl
  · rw [if_neg hlt, if_neg hlt]
    unfold children pushAll popped
    cases hk : N.get e.nfaID <;> simp only [List.reverse_cons, List.reverse_nil, List.nil_append, List.cons_append,
      List.foldl_cons, List.foldl_nil, Option.bind_some, Option.bind_none]
    · -- mtch
      split <;> rfl
    · -- split
      rename_i l r
      cases h1 : push { s with stack := st, closure := s.closure ++ [⟨e.nfaID, e.slots, e.atEnd, s.matched && !s.matchEnd⟩] }
          r e.slots e.atEnd with
      | none => rfl
      | some s1 =>
        simp only [Option.bind_some]
        cases h2 : push s1 l e.slots e.atEnd with
        | none => rfl
        | some s2 => rfl
    · -- eps
      rename_i nx
      cases h1 : push { s with stack := st, closure := s.closure ++ [⟨e.nfaID, e.slots, e.atEnd, s.matched && !s.matchEnd⟩] }
          nx e.slots e.atEnd with
      | none => rfl
      | some s1 => rfl
    · -- cap
      rename_i idx isS nx
      cases h1 : push { s with stack := st, closure := s.closure ++ [⟨e.nfaID, e.slots, e.atEnd, s.matched && !s.matchEnd⟩] }
          nx (setBit e.slots (slotIdx idx isS)) e.atEnd with
      | none => rfl
      | some s1 => rfl
    · -- look
      rename_i k nx
      by_cases hi : nx = invalidState
      · simp only [hi, ↓reduceIte, List.reverse_nil, List.foldl_nil, Option.bind_some]
      · simp only [hi, ↓reduceIte, List.reverse_cons, List.reverse_nil, List.nil_append, List.foldl_cons, List.foldl_nil,
          Option.bind_some]
        cases h1 : push { s with stack := st, closure := s.closure ++ [⟨e.nfaID, e.slots, e.atEnd, s.matched && !s.matchEnd⟩] }
            nx e.slots (e.atEnd || isEndLook k) with
        | none => rfl
        | some s1 => rfl

theorem closureLoop_nil (N : NFA) (fuel : Nat) (s : ClS) (hs : s.stack = []) : closureLoop N fuel s = some s := by
  cases fuel with
  | zero => rw [closureLoop]; simp only [hs]
  | succ fuel => rw [closureLoop]; simp only [hs]

theorem closureLoop_zero_cons (N : NFA) (s : ClS) (e : Entry) (st : List Entry) (hs : s.stack = e :: st) :
    closureLoop N 0 s = none := by
  rw [closureLoop]; simp only [hs]

/-! ### what a push does -/

theorem push_spec {s s' : ClS} {q m : Nat} {a : Bool} (h : push s q m a = some s') :
    s.seen.getD q false = false ∧ q < s.seen.size ∧
    s' = { s with seen := s.seen.setIfInBounds q true, stack := ⟨q, m, a⟩ :: s.stack } := by
  unfold push at h
  split at h
  · cases h
  · rename_i h1
    split at h
    · cases h
    · rename_i h2
      simp only [Option.some.injEq] at h
      exact ⟨by simpa using h1, by omega, h.symm⟩

structure PushRel (s s1 : ClS) (L : List Entry) : Prop where
  stack : s1.stack = L.reverse ++ s.stack
  closure : s1.closure = s.closure
  matched : s1.matched = s.matched
  mask : s1.matchMask = s.matchMask
  mend : s1.matchEnd = s.matchEnd
  size : s1.seen.size = s.seen.size
  fresh : ∀ x ∈ L, s.seen.getD x.nfaID false = false ∧ x.nfaID < s.seen.size
  seen : ∀ q, s1.seen.getD q false = true ↔ (s.seen.getD q false = true ∨ q ∈ L.map (·.nfaID))

theorem getD_setTrue (a : Array Bool) (i q : Nat) (hi : i < a.size) :
    (a.setIfInBounds i true).getD q false = true ↔ (a.getD q false = true ∨ q = i) := by
  by_cases hq : i = q
  · subst hq
    rw [getD_set_self' _ _ _ _ hi]
    simp
  · rw [getD_set_other' _ _ _ _ _ hq]
    constructor
    · intro h; exact Or.inl h
    · rintro (h | h)
      · exact h
      · exact absurd h.symm hq

theorem pushAll_spec : ∀ (L : List Entry) (s s1 : ClS), pushAll s L = some s1 → PushRel s s1 L := by
  intro L
  induction L with
  | nil =>
    intro s s1 h
    simp only [pushAll, List.foldl_nil, Option.some.injEq] at h
    subst h
    exact ⟨by simp, rfl, rfl, rfl, rfl, rfl, fun x hx => by simp at hx, fun q => by simp⟩
  | cons x L ih =>
    intro s s1 h
    rw [pushAll_cons] at h
    cases hp : push s x.nfaID x.slots x.atEnd with
    | none => rw [hp] at h; cases h
    | some s0 =>
      rw [hp] at h
      simp only [Option.bind_some] at h
      obtain ⟨a1, a2, a3⟩ := push_spec hp
      have r := ih s0 s1 h
      subst a3
      refine ⟨?_, r.closure, r.matched, r.mask, r.mend, ?_, ?_, ?_⟩
      · rw [r.stack]; simp
      · rw [r.size]; simp
      · intro y hy
        rcases List.mem_cons.mp hy with rfl | hy'
        · exact ⟨a1, a2⟩
        · obtain ⟨b1, b2⟩ := r.fresh y hy'
          simp only [Array.size_setIfInBounds] at b2
          refine ⟨?_, b2⟩
          cases hv : s.seen.getD y.nfaID false with
          | false => rfl
          | true =>
            have : (s.seen.setIfInBounds x.nfaID true).getD y.nfaID false = true :=
              (getD_setTrue _ _ _ a2).mpr (Or.inl hv)
            simp only at b1
            rw [this] at b1; cases b1
      · intro q
        rw [r.seen q]
        simp only [List.map_cons, List.mem_cons]
        rw [getD_setTrue _ _ _ a2]
        constructor
        · rintro ((h1 | h1) | h1)
          · exact Or.inl h1
          · exact Or.inr (Or.inl h1)
          · exact Or.inr (Or.inr h1)
        · rintro (h1 | h1 | h1)
          · exact Or.inl (Or.inl h1)
          · exact Or.inl (Or.inr h1)
          · exact Or.inr h1

/-- the closure entry made of a popped stack entry -/
def mkC (s : ClS) (e : Entry) : CEntry := ⟨e.nfaID, e.slots, e.atEnd, s.matched && !s.matchEnd⟩

/-- what one iteration does, for a popped state of the automaton -/
theorem stepCl_spec {N : NFA} {s s1 : ClS} {e : Entry} {st : List Entry} (h : stepCl N s e st = some s1)
    (hlt : e.nfaID < N.states.size) :
    s1.closure = s.closure ++ [mkC s e] ∧ isRune (N.get e.nfaID) = false ∧
    ((N.get e.nfaID = .mtch ∧ s.matched = false ∧ s1.stack = st ∧ s1.seen = s.seen ∧ s1.matched = true ∧
        s1.matchMask = e.slots ∧ s1.matchEnd = e.atEnd) ∨
     (N.get e.nfaID ≠ .mtch ∧ PushRel (popped s e st) s1 (children N e).reverse)) := by
  unfold stepCl at h
  rw [if_neg (by omega)] at h
  cases hk : N.get e.nfaID <;> simp only [hk] at h
  case mtch =>
    split at h
    · cases h
    · rename_i hm
      simp only [Option.some.injEq] at h
      subst h
      exact ⟨rfl, rfl, Or.inl ⟨rfl, by simpa using hm, rfl, rfl, rfl, rfl, rfl⟩⟩
  case runeAny => cases h
  case runeAnyNotNL => cases h
  all_goals
    have r := pushAll_spec _ _ _ h
    exact ⟨r.closure, rfl, Or.inr ⟨by simp, r⟩⟩


/-! ### the invariant of the closure loop -/

open Cx.Pike (isMatchState)

/-- ids of the children of state `q` -/
def childIds (N : NFA) (q : Nat) : List Nat :=
  match N.get q with
  | .split l r => [l, r]
  | .eps nx => [nx]
  | .cap _ _ nx => [nx]
  | .look _ nx => if nx = invalidState then [] else [nx]
  | _ => []

theorem children_ids (N : NFA) (e : Entry) : (children N e).map (·.nfaID) = childIds N e.nfaID := by
  unfold children childIds
  cases N.get e.nfaID <;> simp only [List.map_cons, List.map_nil]
  split <;> simp

theorem childIds_succ {N : NFA} {q x : Nat} (hx : x ∈ childIds N q) : x ∈ succStates (N.get q) := by
  unfold childIds at hx
  unfold succStates
  cases hk : N.get q <;> simp only [hk] at hx ⊢
  case split => exact hx
  case eps => exact hx
  case cap => exact hx
  case look =>
    split at hx
    · simp at hx
    · exact hx
  all_goals simp at hx

/-- the `matchWins` flags: "a match state that is not behind an end look precedes this entry" -/
def flagsOK (N : NFA) : Bool → List CEntry → Prop
  | _, [] => True
  | mb, e :: t => e.matchWins = mb ∧ flagsOK N (mb || (isMatchState N e.nfaID && !e.atEnd)) t

def mbAfter (N : NFA) : Bool → List CEntry → Bool
  | mb, [] => mb
  | mb, e :: t => mbAfter N (mb || (isMatchState N e.nfaID && !e.atEnd)) t

theorem flagsOK_append (N : NFA) : ∀ (a : List CEntry) (mb : Bool) (e : CEntry),
    flagsOK N mb (a ++ [e]) ↔ flagsOK N mb a ∧ e.matchWins = mbAfter N mb a := by
  intro a
  induction a with
  | nil => intro mb e; simp [flagsOK, mbAfter]
  | cons x a ih =>
    intro mb e
    simp only [List.cons_append, flagsOK, mbAfter, ih, and_assoc]

theorem mbAfter_append (N : NFA) : ∀ (a : List CEntry) (mb : Bool) (e : CEntry),
    mbAfter N mb (a ++ [e]) = (mbAfter N mb a || (isMatchState N e.nfaID && !e.atEnd)) := by
  intro a
  induction a with
  | nil => intro mb e; rfl
  | cons x a ih => intro mb e; simp only [List.cons_append, mbAfter, ih]

theorem mbAfter_true_iff (N : NFA) : ∀ (a : List CEntry) (mb : Bool),
    mbAfter N mb a = true ↔ (mb = true ∨ ∃ e ∈ a, isMatchState N e.nfaID = true ∧ e.atEnd = false) := by
  intro a
  induction a with
  | nil => intro mb; simp [mbAfter]
  | cons x a ih =>
    intro mb
    simp only [mbAfter, ih, List.mem_cons, Bool.or_eq_true, Bool.and_eq_true, Bool.not_eq_true']
    constructor
    · rintro ((h | h) | ⟨e, he, h⟩)
      · exact Or.inl h
      · exact Or.inr ⟨x, Or.inl rfl, h⟩
      · exact Or.inr ⟨e, Or.inr he, h⟩
    · rintro (h | ⟨e, rfl | he, h⟩)
      · exact Or.inl (Or.inl h)
      · exact Or.inl (Or.inr h)
      · exact Or.inr ⟨e, he, h⟩

structure CInv (N : NFA) (S : Nat → Prop) (s : ClS) : Prop where
  ssize : s.seen.size = N.states.size
  rngS : ∀ e ∈ s.stack, e.nfaID < N.states.size
  rngC : ∀ e ∈ s.closure, e.nfaID < N.states.size
  seenS : ∀ e ∈ s.stack, s.seen.getD e.nfaID false = true
  seenC : ∀ e ∈ s.closure, s.seen.getD e.nfaID false = true
  subS : ∀ e ∈ s.stack, S e.nfaID
  subC : ∀ e ∈ s.closure, S e.nfaID
  ord : ∀ k e, s.closure[k]? = some e → ∀ x ∈ childIds N e.nfaID,
    (x ∈ (s.closure.drop (k+1)).map (·.nfaID) ∨ x ∈ s.stack.map (·.nfaID)) ∧ x ∉ (s.closure.take (k+1)).map (·.nfaID)
  flags : flagsOK N false s.closure
  mb : mbAfter N false s.closure = (s.matched && !s.matchEnd)
  mt2 : ∀ e ∈ s.closure, isMatchState N e.nfaID = true →
    s.matched = true ∧ s.matchMask = e.slots ∧ s.matchEnd = e.atEnd
  mt3 : s.matched = true → ∃ e ∈ s.closure, isMatchState N e.nfaID = true
  nr : ∀ e ∈ s.closure, isRune (N.get e.nfaID) = false

/-- `ord` after one more entry has been appended to the closure: the old entries -/
theorem ord_old {N : NFA} {cl : List CEntry} {ce : CEntry} {e : Entry} {st stk' : List Entry} (hce : ce.nfaID = e.nfaID)
    (hsub : ∀ x ∈ st.map (·.nfaID), x ∈ stk'.map (·.nfaID))
    (hord : ∀ k e', cl[k]? = some e' → ∀ x ∈ childIds N e'.nfaID,
      (x ∈ (cl.drop (k+1)).map (·.nfaID) ∨ x ∈ (e :: st).map (·.nfaID)) ∧ x ∉ (cl.take (k+1)).map (·.nfaID))
    {k : Nat} {e' : CEntry} (hk : k < cl.length) (he' : (cl ++ [ce])[k]? = some e') :
    ∀ x ∈ childIds N e'.nfaID,
      (x ∈ ((cl ++ [ce]).drop (k+1)).map (·.nfaID) ∨ x ∈ stk'.map (·.nfaID)) ∧
        x ∉ ((cl ++ [ce]).take (k+1)).map (·.nfaID) := by
  intro x hx
  rw [List.getElem?_append_left hk] at he'
  obtain ⟨h1, h2⟩ := hord k e' he' x hx
  have hd : (cl ++ [ce]).drop (k+1) = cl.drop (k+1) ++ [ce] := by
    rw [List.drop_append_of_le_length (by omega)]
  have ht : (cl ++ [ce]).take (k+1) = cl.take (k+1) := by
    rw [List.take_append_of_le_length (by omega)]
  rw [hd, ht]
  refine ⟨?_, h2⟩
  rcases h1 with h1 | h1
  · left; simp only [List.map_append, List.mem_append]; exact Or.inl h1
  · simp only [List.map_cons, List.mem_cons] at h1
    rcases h1 with h1 | h1
    · left; simp only [List.map_append, List.mem_append, List.map_cons, List.map_nil, List.mem_singleton]
      exact Or.inr (by rw [hce]; exact h1)
    · right; exact hsub x h1

theorem getElem?_append_last {α : Type} (l : List α) (a : α) {k : Nat} {b : α} (hk : ¬ k < l.length)
    (h : (l ++ [a])[k]? = some b) : k = l.length ∧ b = a := by
  rw [List.getElem?_append_right (by omega)] at h
  cases hkl : k - l.length with
  | zero =>
    rw [hkl] at h
    simp only [List.getElem?_cons_zero, Option.some.injEq] at h
    exact ⟨by omega, h.symm⟩
  | succ j => rw [hkl] at h; simp at h

theorem cinv_step {N : NFA} {S : Nat → Prop} (hS : ∀ q, q < N.states.size → S q → ∀ x ∈ succStates (N.get q), S x)
    {s s1 : ClS} {e : Entry} {st : List Entry} (hs : s.stack = e :: st) (inv : CInv N S s)
    (h : stepCl N s e st = some s1) : CInv N S s1 := by
  have helt : e.nfaID < N.states.size := inv.rngS e (by rw [hs]; exact List.mem_cons_self)
  have heseen : s.seen.getD e.nfaID false = true := inv.seenS e (by rw [hs]; exact List.mem_cons_self)
  have heS : S e.nfaID := inv.subS e (by rw [hs]; exact List.mem_cons_self)
  have hst : ∀ x ∈ st, x ∈ s.stack := fun x hx => by rw [hs]; exact List.mem_cons_of_mem _ hx
  obtain ⟨hcl, hnr, hcase⟩ := stepCl_spec h helt
  have hord' : ∀ k e', s.closure[k]? = some e' → ∀ x ∈ childIds N e'.nfaID,
      (x ∈ (s.closure.drop (k+1)).map (·.nfaID) ∨ x ∈ (e :: st).map (·.nfaID)) ∧
        x ∉ (s.closure.take (k+1)).map (·.nfaID) := by
    intro k e' hk x hx
    have := inv.ord k e' hk x hx
    rw [hs] at this
    exact this
  have hmemC : ∀ e' ∈ s.closure ++ [mkC s e], e' ∈ s.closure ∨ e' = mkC s e := by
    intro e' he'
    rcases List.mem_append.mp he' with h1 | h1
    · exact Or.inl h1
    · exact Or.inr (by simpa using h1)
  rcases hcase with ⟨hk, hm0, h1, h2, h3, h4, h5⟩ | ⟨hk, r⟩
  · -- match state
    have hisM : isMatchState N e.nfaID = true := (Pike.isMatchState_iff N e.nfaID).mpr hk
    refine ⟨by rw [h2]; exact inv.ssize, ?_, ?_, ?_, ?_, ?_, ?_, ?_, ?_, ?_, ?_, ?_, ?_⟩
    · intro x hx; rw [h1] at hx; exact inv.rngS x (hst x hx)
    · intro x hx; rw [hcl] at hx
      rcases hmemC x hx with h | rfl
      · exact inv.rngC x h
      · exact helt
    · intro x hx; rw [h1] at hx; rw [h2]; exact inv.seenS x (hst x hx)
    · intro x hx; rw [hcl] at hx; rw [h2]
      rcases hmemC x hx with h | rfl
      · exact inv.seenC x h
      · exact heseen
    · intro x hx; rw [h1] at hx; exact inv.subS x (hst x hx)
    · intro x hx; rw [hcl] at hx
      rcases hmemC x hx with h | rfl
      · exact inv.subC x h
      · exact heS
    · intro k e' he' x hx
      rw [hcl] at he' ⊢
      rw [h1]
      by_cases hkl : k < s.closure.length
      · exact ord_old (ce := mkC s e) rfl (fun y hy => hy) hord' hkl he' x hx
      · obtain ⟨_, rfl⟩ := getElem?_append_last _ _ hkl he'
        simp only [mkC, childIds, hk] at hx
        simp at hx
    · rw [hcl, flagsOK_append]
      exact ⟨inv.flags, by rw [inv.mb]; rfl⟩
    · rw [hcl, mbAfter_append, inv.mb, h3, h5, hm0]
      simp [mkC, hisM]
    · intro x hx hxm
      rw [hcl] at hx
      rcases hmemC x hx with h | rfl
      · have := (inv.mt2 x h hxm).1
        rw [hm0] at this; cases this
      · exact ⟨h3, h4, h5⟩
    · intro _
      exact ⟨mkC s e, by rw [hcl]; simp, hisM⟩
    · intro x hx; rw [hcl] at hx
      rcases hmemC x hx with h | rfl
      · exact inv.nr x h
      · exact hnr
  · -- epsilon-like or terminal state: the children are pushed
    have hnotM : isMatchState N e.nfaID = false := by
      cases hh : isMatchState N e.nfaID with
      | false => rfl
      | true => exact absurd ((Pike.isMatchState_iff N e.nfaID).mp hh) hk
    have hstk : s1.stack = children N e ++ st := by
      have := r.stack
      simp only [List.reverse_reverse, popped] at this
      exact this
    have hclo : s1.closure = s.closure ++ [mkC s e] := hcl
    have hseen : ∀ q, s1.seen.getD q false = true ↔ (s.seen.getD q false = true ∨ q ∈ childIds N e.nfaID) := by
      intro q
      rw [r.seen q, List.map_reverse, List.mem_reverse, children_ids]
      rfl
    have hfresh : ∀ x ∈ childIds N e.nfaID, s.seen.getD x false = false ∧ x < N.states.size := by
      intro x hx
      rw [← children_ids] at hx
      obtain ⟨y, hy, rfl⟩ := List.mem_map.mp hx
      have := r.fresh y (List.mem_reverse.mpr hy)
      simp only [popped] at this
      rw [inv.ssize] at this
      exact this
    have hmemS : ∀ x ∈ s1.stack, x ∈ children N e ∨ x ∈ st := by
      intro x hx; rw [hstk] at hx; exact List.mem_append.mp hx
    have hchild : ∀ x ∈ children N e, x.nfaID ∈ childIds N e.nfaID := by
      intro x hx; rw [← children_ids]; exact List.mem_map.mpr ⟨x, hx, rfl⟩
    refine ⟨by rw [r.size]; exact inv.ssize, ?_, ?_, ?_, ?_, ?_, ?_, ?_, ?_, ?_, ?_, ?_, ?_⟩
    · intro x hx
      rcases hmemS x hx with h1 | h1
      · exact (hfresh _ (hchild x h1)).2
      · exact inv.rngS x (hst x h1)
    · intro x hx; rw [hclo] at hx
      rcases hmemC x hx with h1 | rfl
      · exact inv.rngC x h1
      · exact helt
    · intro x hx
      rw [hseen]
      rcases hmemS x hx with h1 | h1
      · exact Or.inr (hchild x h1)
      · exact Or.inl (inv.seenS x (hst x h1))
    · intro x hx; rw [hclo] at hx
      rw [hseen]
      rcases hmemC x hx with h1 | rfl
      · exact Or.inl (inv.seenC x h1)
      · exact Or.inl heseen
    · intro x hx
      rcases hmemS x hx with h1 | h1
      · exact hS _ helt heS _ (childIds_succ (hchild x h1))
      · exact inv.subS x (hst x h1)
    · intro x hx; rw [hclo] at hx
      rcases hmemC x hx with h1 | rfl
      · exact inv.subC x h1
      · exact heS
    · intro k e' he' x hx
      rw [hclo] at he' ⊢
      by_cases hkl : k < s.closure.length
      · refine ord_old (ce := mkC s e) rfl ?_ hord' hkl he' x hx
        intro y hy
        rw [hstk, List.map_append, List.mem_append]
        exact Or.inr hy
      · obtain ⟨hkeq, rfl⟩ := getElem?_append_last _ _ hkl he'
        have hx' : x ∈ childIds N e.nfaID := hx
        refine ⟨Or.inr ?_, ?_⟩
        · rw [hstk, List.map_append, List.mem_append, children_ids]
          exact Or.inl hx'
        · rw [List.take_of_length_le (by simp; omega)]
          intro hmem
          obtain ⟨y, hy, hyx⟩ := List.mem_map.mp hmem
          have hf := (hfresh x hx').1
          rcases hmemC y hy with h1 | rfl
          · have := inv.seenC y h1
            rw [hyx, hf] at this; cases this
          · have : (mkC s e).nfaID = e.nfaID := rfl
            rw [this] at hyx
            rw [← hyx, heseen] at hf; cases hf
    · rw [hclo, flagsOK_append]
      exact ⟨inv.flags, by rw [inv.mb]; rfl⟩
    · rw [hclo, mbAfter_append, inv.mb, r.matched, r.mend]
      simp [mkC, hnotM, popped]
    · intro x hx hxm
      rw [hclo] at hx
      rw [r.matched, r.mask, r.mend]
      rcases hmemC x hx with h1 | rfl
      · exact inv.mt2 x h1 hxm
      · have : isMatchState N (mkC s e).nfaID = false := hnotM
        rw [this] at hxm; cases hxm
    · intro hm
      rw [r.matched] at hm
      obtain ⟨x, hx, hxm⟩ := inv.mt3 hm
      exact ⟨x, by rw [hclo]; exact List.mem_append_left _ hx, hxm⟩
    · intro x hx; rw [hclo] at hx
      rcases hmemC x hx with h1 | rfl
      · exact inv.nr x h1
      · exact hnr

theorem closureLoop_spec {N : NFA} {S : Nat → Prop}
    (hS : ∀ q, q < N.states.size → S q → ∀ x ∈ succStates (N.get q), S x) :
    ∀ (fuel : Nat) (s s' : ClS), closureLoop N fuel s = some s' → CInv N S s → CInv N S s' ∧ s'.stack = [] := by
  intro fuel
  induction fuel with
  | zero =>
    intro s s' h inv
    cases hst : s.stack with
    | nil =>
      rw [closureLoop_nil N 0 s hst] at h
      simp only [Option.some.injEq] at h
      subst h
      exact ⟨inv, hst⟩
    | cons e st => rw [closureLoop_zero_cons N s e st hst] at h; cases h
  | succ fuel ih =>
    intro s s' h inv
    cases hst : s.stack with
    | nil =>
      rw [closureLoop_nil N _ s hst] at h
      simp only [Option.some.injEq] at h
      subst h
      exact ⟨inv, hst⟩
    | cons e st =>
      rw [closureLoop_succ N fuel s e st hst] at h
      cases h1 : stepCl N s e st with
      | none => rw [h1] at h; cases h
      | some s1 =>
        rw [h1] at h
        simp only [Option.bind_some] at h
        exact ih s1 s' h (cinv_step hS hst inv h1)

/-! ### the finished closure -/

/-- position of the first occurrence -/
def rank (q : Nat) : List Nat → Nat
  | [] => 0
  | a :: t => if a = q then 0 else rank q t + 1

theorem rank_le {q : Nat} : ∀ (l : List Nat) (k : Nat), l[k]? = some q → rank q l ≤ k := by
  intro l
  induction l with
  | nil => intro k h; simp at h
  | cons a t ih =>
    intro k h
    simp only [rank]
    split
    · omega
    · rename_i hne
      cases k with
      | zero => simp only [List.getElem?_cons_zero, Option.some.injEq] at h; exact absurd h hne
      | succ k =>
        simp only [List.getElem?_cons_succ] at h
        have := ih k h
        omega

theorem le_rank {q : Nat} : ∀ (l : List Nat) (n : Nat), q ∉ l.take n → n ≤ l.length → n ≤ rank q l := by
  intro l
  induction l with
  | nil => intro n _ h; simp only [List.length_nil] at h; omega
  | cons a t ih =>
    intro n hq hn
    cases n with
    | zero => omega
    | succ n =>
      simp only [List.take_succ_cons, List.mem_cons, not_or] at hq
      simp only [rank]
      rw [if_neg (fun h => hq.1 h.symm)]
      have := ih n hq.2 (by simpa using hn)
      omega

/-- what `epsilonClosureOnePass(root)` guarantees when it succeeds -/
structure ClosureOK (N : NFA) (S : Nat → Prop) (root : Nat) (c : Closure) : Prop where
  rootlt : root < N.states.size
  rng : ∀ e ∈ c.entries, e.nfaID < N.states.size
  sub : ∀ e ∈ c.entries, S e.nfaID
  ord : ∀ e ∈ c.entries, ∀ x ∈ childIds N e.nfaID,
    x ∈ c.entries.map (·.nfaID) ∧ rank e.nfaID (c.entries.map (·.nfaID)) < rank x (c.entries.map (·.nfaID))
  flags : flagsOK N false c.entries
  live : (∃ e ∈ c.entries, isMatchState N e.nfaID = true ∧ e.atEnd = false) ↔ (c.matched && !c.matchEnd) = true
  mt2 : ∀ e ∈ c.entries, isMatchState N e.nfaID = true →
    c.matched = true ∧ c.matchMask = e.slots ∧ c.matchEnd = e.atEnd
  mt3 : c.matched = true → ∃ e ∈ c.entries, isMatchState N e.nfaID = true
  nr : ∀ e ∈ c.entries, isRune (N.get e.nfaID) = false

/-- the two stages of `epsClosure` -/
theorem epsClosure_run {N : NFA} {root : Nat} {c : Closure} (h : epsClosure N root = some c) :
    ∃ s0 s', push (initClS N) root 0 false = some s0 ∧ closureLoop N (3 * N.states.size + 3) s0 = some s' ∧
      c = ⟨s'.closure, s'.matched, s'.matchEnd, s'.matchMask⟩ := by
  unfold epsClosure at h
  split at h
  · cases h
  · rename_i s0 hp
    split at h
    · cases h
    · rename_i s' hl
      simp only [Option.some.injEq] at h
      exact ⟨s0, s', hp, hl, h.symm⟩

theorem cinv_init {N : NFA} {S : Nat → Prop} {root : Nat} (hr : S root) {s0 : ClS}
    (hp : push (initClS N) root 0 false = some s0) : CInv N S s0 ∧ root < N.states.size ∧ s0.stack = [⟨root, 0, false⟩] ∧
      s0.closure = [] := by
  obtain ⟨_, a2, a3⟩ := push_spec hp
  have hsz : (initClS N).seen.size = N.states.size := by simp [initClS]
  rw [hsz] at a2
  subst a3
  refine ⟨⟨by simp [initClS], ?_, ?_, ?_, ?_, ?_, ?_, ?_, trivial, rfl, ?_, ?_, ?_⟩, a2, rfl, rfl⟩
  · intro e he
    simp only [initClS, List.mem_singleton] at he
    subst he; exact a2
  · intro e he; simp [initClS] at he
  · intro e he
    simp only [initClS, List.mem_singleton] at he
    subst he
    exact getD_set_self' _ _ _ _ (by rw [hsz]; exact a2)
  · intro e he; simp [initClS] at he
  · intro e he
    simp only [initClS, List.mem_singleton] at he
    subst he; exact hr
  · intro e he; simp [initClS] at he
  · intro k e he; simp [initClS] at he
  · intro e he; simp [initClS] at he
  · intro hm; simp [initClS] at hm
  · intro e he; simp [initClS] at he

theorem epsClosure_spec {N : NFA} {S : Nat → Prop}
    (hS : ∀ q, q < N.states.size → S q → ∀ x ∈ succStates (N.get q), S x) {root : Nat} (hr : S root) {c : Closure}
    (h : epsClosure N root = some c) : ClosureOK N S root c := by
  obtain ⟨s0, s', hp, hl, rfl⟩ := epsClosure_run h
  obtain ⟨inv0, hrlt, _, _⟩ := cinv_init hr hp
  obtain ⟨inv, hstk⟩ := closureLoop_spec hS _ s0 s' hl inv0
  refine ⟨hrlt, inv.rngC, inv.subC, ?_, inv.flags, ?_, inv.mt2, inv.mt3, inv.nr⟩
  · intro e he x hx
    simp only at he ⊢
    obtain ⟨k, hk, hke⟩ := List.mem_iff_getElem.mp he
    have hk' : s'.closure[k]? = some e := by rw [List.getElem?_eq_getElem hk, hke]
    obtain ⟨h1, h2⟩ := inv.ord k e hk' x hx
    rw [hstk] at h1
    simp only [List.map_nil, List.not_mem_nil, or_false] at h1
    refine ⟨?_, ?_⟩
    · rw [← List.take_append_drop (k+1) s'.closure, List.map_append, List.mem_append]
      exact Or.inr h1
    · have r1 : rank e.nfaID (s'.closure.map (·.nfaID)) ≤ k :=
        rank_le _ k (by rw [List.getElem?_map, hk']; rfl)
      have r2 : k + 1 ≤ rank x (s'.closure.map (·.nfaID)) :=
        le_rank _ (k+1) (by rw [← List.map_take]; exact h2) (by simp; omega)
      omega
  · simp only
    rw [← inv.mb, mbAfter_true_iff]
    simp

end Cx.Caps.OnePass
