import Cx.Model.Utf8RangePaths
import Cx.Proofs.Nfa
import Cx.Proofs.Utf8Range
/-
  Cx.Proofs.Utf8RangeNfa — ties the sequence-level theorems to the path relation of the dumped NFA (`Cx.Nfa.Accepts`):
  if `pathsOf N = some L` then `N` accepts `h[i:j]` from its anchored start iff `h[i:j]` matches one of the sequences
  of `L`.  Together with `L = classSeqs ranges` (checked per instance by the driver, literally) this gives, for the
  automaton the real compiler emitted, `Accepts N h 0 |h| ↔ h` is the encoding of a rune of the class.
-/
namespace Cx.Utf8Range
open Cx Cx.Nfa Cx.Utf8

theorem slice_nil (h : Bytes) (i j : Nat) (hj : j ≤ i) : slice h i j = [] := by
  unfold slice; rw [Nat.sub_eq_zero_of_le hj]; rfl

theorem slice_cons (h : Bytes) (i j : Nat) (hj : i < j) : slice h i j = h.at i :: slice h (i + 1) j := by
  unfold slice
  have e : j - i = (j - (i + 1)) + 1 := by omega
  rw [e, List.range_succ_eq_map, List.map_cons, List.map_map]
  congr 1
  apply List.map_congr_left
  intro k _
  simp only [Function.comp, Nat.succ_eq_add_one]
  congr 1; omega

theorem slice_eq_nil_iff (h : Bytes) (i j : Nat) : slice h i j = [] ↔ j ≤ i := by
  constructor
  · intro he
    by_cases c : i < j
    · rw [slice_cons h i j c] at he; exact absurd he (by simp)
    · omega
  · exact slice_nil h i j

theorem get_mtch_lt {N : NFA} {q : Nat} (hq : N.get q = .mtch) : q < N.states.size := by
  by_cases c : q < N.states.size
  · exact c
  · rw [get_oob N (by omega)] at hq; cases hq

theorem reaches_unfold {N : NFA} {h : Bytes} {q i j : Nat} :
    Reaches N h q i j ↔
      (N.get q = .mtch ∧ j = i) ∨ ∃ q' i', Step N h (q, i) (q', i') ∧ Reaches N h q' i' j := by
  constructor
  · rintro ⟨m, hs, hm, hlt⟩
    cases hs with
    | refl => exact Or.inl ⟨hm, rfl⟩
    | cons st rest =>
      rename_i b
      obtain ⟨q', i'⟩ := b
      exact Or.inr ⟨q', i', st, m, rest, hm, hlt⟩
  · rintro (⟨hm, rfl⟩ | ⟨q', i', st, r⟩)
    · exact ⟨q, Steps.refl _, hm, get_mtch_lt hm⟩
    · exact reaches_cons st r

/-- a Sparse state whose transitions share their target: a byte is consumed iff some transition covers it -/
theorem firstTrans_sameTarget {ts : List (Nat × Nat × Nat)} {nx : Nat} (hs : sameTarget ts nx = true) (c q' : Nat) :
    firstTrans c ts = some q' ↔ q' = nx ∧ ∃ t, t ∈ ts ∧ t.1 ≤ c ∧ c ≤ t.2.1 := by
  induction ts with
  | nil => simp [firstTrans]
  | cons a t ih =>
    obtain ⟨lo, hi, n⟩ := a
    unfold sameTarget at hs
    rw [List.all_cons, Bool.and_eq_true] at hs
    have hn : n = nx := by simpa using hs.1
    have ih := ih hs.2
    unfold firstTrans
    split
    · rename_i hc
      constructor
      · intro he
        exact ⟨by rw [← hn]; exact (Option.some.inj he).symm, (lo, hi, n), List.mem_cons_self, hc.1, hc.2⟩
      · rintro ⟨rfl, -⟩; rw [hn]
    · rename_i hc
      rw [ih]
      constructor
      · rintro ⟨h1, u, hu, h2, h3⟩; exact ⟨h1, u, List.mem_cons_of_mem _ hu, h2, h3⟩
      · rintro ⟨h1, u, hu, h2, h3⟩
        rcases List.mem_cons.mp hu with rfl | hu
        · exact absurd ⟨h2, h3⟩ hc
        · exact ⟨h1, u, hu, h2, h3⟩

theorem accepts_sparse (ts : List (Nat × Nat × Nat)) (L : List Seq) (bs : List Nat) :
    accepts (ts.flatMap fun t => L.map fun s => (t.1, t.2.1) :: s) bs = true ↔
      ∃ x u, bs = x :: u ∧ (∃ t, t ∈ ts ∧ t.1 ≤ x ∧ x ≤ t.2.1) ∧ accepts L u = true := by
  rw [accepts_flatMap]
  constructor
  · rintro ⟨t, ht, ha⟩
    obtain ⟨x, u, rfl, h1, h2, h3⟩ := (accepts_map_cons _ _ _).mp ha
    exact ⟨x, u, rfl, ⟨t, ht, h1, h2⟩, h3⟩
  · rintro ⟨x, u, rfl, ⟨t, ht, h1, h2⟩, h3⟩
    exact ⟨t, ht, (accepts_map_cons _ _ _).mpr ⟨x, u, rfl, h1, h2, h3⟩⟩

theorem pathsFrom_spec (N : NFA) (h : Bytes) : ∀ (fuel q : Nat) (L : List Seq), pathsFrom N fuel q = some L →
    ∀ i j, i ≤ h.size → (Reaches N h q i j ↔ i ≤ j ∧ j ≤ h.size ∧ accepts L (slice h i j) = true) := by
  intro fuel
  induction fuel with
  | zero => intro q L hp; simp [pathsFrom] at hp
  | succ fuel ih =>
    intro q L hp i j hi
    rw [pathsFrom] at hp
    -- every accepting run stays inside the input
    have hb : Reaches N h q i j → i ≤ j ∧ j ≤ h.size := fun r => reaches_pos_le r hi
    rw [reaches_unfold]
    cases hq : N.get q with
    | mtch =>
      rw [hq] at hp
      cases Option.some.inj hp
      constructor
      · rintro (⟨-, rfl⟩ | ⟨q', i', st, -⟩)
        · refine ⟨Nat.le_refl _, hi, ?_⟩
          rw [slice_nil h j j (Nat.le_refl _)]; rfl
        · have := step_inv st; rw [hq] at this; exact this.elim
      · rintro ⟨h1, h2, h3⟩
        rw [accepts_single] at h3
        have : slice h i j = [] := by
          cases hsl : slice h i j with
          | nil => rfl
          | cons a t => rw [hsl] at h3; simp [matchesSeq] at h3
        have := (slice_eq_nil_iff h i j).mp this
        exact Or.inl ⟨rfl, by omega⟩
    | fail =>
      rw [hq] at hp
      cases Option.some.inj hp
      constructor
      · rintro (⟨hm, -⟩ | ⟨q', i', st, -⟩)
        · cases hm
        · have := step_inv st; rw [hq] at this; exact this.elim
      · rintro ⟨-, -, h3⟩; rw [accepts_nil] at h3; exact absurd h3 (by decide)
    | byteRange lo hi' nx =>
      rw [hq] at hp
      simp only [] at hp
      cases hp' : pathsFrom N fuel nx with
      | none => rw [hp'] at hp; simp at hp
      | some L' =>
        rw [hp'] at hp
        cases Option.some.inj hp
        have ih' := ih nx L' hp'
        constructor
        · rintro (⟨hm, -⟩ | ⟨q', i', st, r⟩)
          · cases hm
          · have hs := step_inv st; rw [hq] at hs
            obtain ⟨h1, h2, h3, rfl, rfl⟩ := hs
            obtain ⟨h4, h5, h6⟩ := (ih' (i + 1) j (by omega)).mp r
            refine ⟨by omega, h5, ?_⟩
            rw [slice_cons h i j (by omega)]
            exact (accepts_map_cons _ _ _).mpr ⟨_, _, rfl, h2, h3, h6⟩
        · rintro ⟨h1, h2, h3⟩
          obtain ⟨x, t, hx, h4, h5, h6⟩ := (accepts_map_cons _ _ _).mp h3
          have hlt : i < j := by
            by_cases c : i < j
            · exact c
            · rw [slice_nil h i j (by omega)] at hx; cases hx
          rw [slice_cons h i j hlt] at hx
          cases hx
          exact Or.inr ⟨nx, i + 1, Step.byteRange hq (by omega) h4 h5,
            (ih' (i + 1) j (by omega)).mpr ⟨by omega, h2, h6⟩⟩
    | sparse ts =>
      rw [hq] at hp
      simp only [] at hp
      match ts, hq, hp with
      | [], hq, hp =>
        cases Option.some.inj hp
        constructor
        · rintro (⟨hm, -⟩ | ⟨q', i', st, -⟩)
          · cases hm
          · have hs := step_inv st; rw [hq] at hs
            simp [firstTrans] at hs
        · rintro ⟨-, -, h3⟩; rw [accepts_nil] at h3; exact absurd h3 (by decide)
      | (lo0, hi0, nx) :: tl, hq, hp =>
        simp only [] at hp
        split at hp
        · rename_i hst
          cases hp' : pathsFrom N fuel nx with
          | none => rw [hp'] at hp; simp at hp
          | some L' =>
            rw [hp'] at hp
            cases Option.some.inj hp
            have ih' := ih nx L' hp'
            constructor
            · rintro (⟨hm, -⟩ | ⟨q', i', st, r⟩)
              · cases hm
              · have hs := step_inv st; rw [hq] at hs
                obtain ⟨h1, h2, rfl⟩ := hs
                obtain ⟨rfl, hex⟩ := (firstTrans_sameTarget hst _ _).mp h2
                obtain ⟨h4, h5, h6⟩ := (ih' (i + 1) j (by omega)).mp r
                refine ⟨by omega, h5, ?_⟩
                rw [slice_cons h i j (by omega)]
                exact (accepts_sparse _ _ _).mpr ⟨_, _, rfl, hex, h6⟩
            · rintro ⟨h1, h2, h3⟩
              obtain ⟨x, t, hx, hex, h6⟩ := (accepts_sparse _ _ _).mp h3
              have hlt : i < j := by
                by_cases c : i < j
                · exact c
                · rw [slice_nil h i j (by omega)] at hx; cases hx
              rw [slice_cons h i j hlt] at hx
              cases hx
              exact Or.inr ⟨nx, i + 1,
                Step.sparse hq (by omega) ((firstTrans_sameTarget hst _ _).mpr ⟨rfl, hex⟩),
                (ih' (i + 1) j (by omega)).mpr ⟨by omega, h2, h6⟩⟩
        · cases hp
    | split l r =>
      rw [hq] at hp
      simp only [] at hp
      cases hl : pathsFrom N fuel l with
      | none => rw [hl] at hp; simp at hp
      | some A =>
        cases hr : pathsFrom N fuel r with
        | none => rw [hl, hr] at hp; simp at hp
        | some B =>
          rw [hl, hr] at hp
          cases Option.some.inj hp
          have ihl := ih l A hl i j hi
          have ihr := ih r B hr i j hi
          rw [accepts_append_iff]
          constructor
          · rintro (⟨hm, -⟩ | ⟨q', i', st, rr⟩)
            · cases hm
            · have hs := step_inv st; rw [hq] at hs
              obtain ⟨h1 | h1, rfl⟩ := hs
              · subst h1
                obtain ⟨a, b, c⟩ := ihl.mp rr
                exact ⟨a, b, Or.inl c⟩
              · subst h1
                obtain ⟨a, b, c⟩ := ihr.mp rr
                exact ⟨a, b, Or.inr c⟩
          · rintro ⟨h1, h2, h3 | h3⟩
            · exact Or.inr ⟨l, i, Step.splitL hq, ihl.mpr ⟨h1, h2, h3⟩⟩
            · exact Or.inr ⟨r, i, Step.splitR hq, ihr.mpr ⟨h1, h2, h3⟩⟩
    | eps nx =>
      rw [hq] at hp
      simp only [] at hp
      have ih' := ih nx L hp i j hi
      constructor
      · rintro (⟨hm, -⟩ | ⟨q', i', st, rr⟩)
        · cases hm
        · have hs := step_inv st; rw [hq] at hs
          obtain ⟨rfl, rfl⟩ := hs
          exact ih'.mp rr
      · intro hx
        exact Or.inr ⟨nx, i, Step.eps hq, ih'.mpr hx⟩
    | cap idx isStart nx =>
      rw [hq] at hp
      simp only [] at hp
      have ih' := ih nx L hp i j hi
      constructor
      · rintro (⟨hm, -⟩ | ⟨q', i', st, rr⟩)
        · cases hm
        · have hs := step_inv st; rw [hq] at hs
          obtain ⟨rfl, rfl⟩ := hs
          exact ih'.mp rr
      · intro hx
        exact Or.inr ⟨nx, i, Step.cap hq, ih'.mpr hx⟩
    | look k nx => rw [hq] at hp; cases hp
    | runeAny nx => rw [hq] at hp; cases hp
    | runeAnyNotNL nx => rw [hq] at hp; cases hp

theorem slice_full (h : Bytes) : slice h 0 h.size = h.toList := by
  unfold slice
  apply List.ext_getElem
  · simp
  · intro k h1 h2
    simp only [List.length_map, List.length_range, Nat.sub_zero] at h1
    have h3 : k < h.size := h1
    simp [Bytes.at, Array.getElem?_eq_getElem h3]

/-- the sequences of the dumped automaton describe its language -/
theorem pathsOf_spec (N : NFA) (L : List Seq) (hp : pathsOf N = some L) (h : Bytes) :
    Accepts N h 0 h.size ↔ accepts L h.toList = true := by
  unfold Accepts
  rw [pathsFrom_spec N h _ _ L hp 0 h.size (Nat.zero_le _), slice_full]
  constructor
  · rintro ⟨-, -, h3⟩; exact h3
  · intro h3; exact ⟨Nat.zero_le _, Nat.le_refl _, h3⟩

/-- **End to end for a dumped automaton**: if the automaton the real compiler emitted for a class has literally the
byte-range sequences of the model (`pathsOf N = some (classSeqs ranges)`, decided per instance by `cxdrv`,
`utf8range nfa`), then it accepts a whole input `h` iff `h` is the UTF-8 encoding of a scalar value of the class —
up to the one deviation of `classSeqs_exact`. -/
theorem nfa_class_exact (N : NFA) (ranges : List (Nat × Nat)) (hwf : wfRanges ranges = true)
    (hp : pathsOf N = some (classSeqs ranges)) (h : Bytes) :
    Accepts N h 0 h.size ↔
      (∃ r, inR r ranges ∧ isScalar r ∧ h.toList = encode r) ∨
      (usesLarge ranges = true ∧ coversAllNonASCII (nonAsciiPart ranges) = true ∧
        ∃ b, 0x80 ≤ b ∧ b ≤ 0xFF ∧ h.toList = [b]) := by
  rw [pathsOf_spec N _ hp h, classSeqs_exact ranges hwf]

theorem nfa_class_exact_of_exactClass (N : NFA) (ranges : List (Nat × Nat)) (hx : exactClass ranges = true)
    (hp : pathsOf N = some (classSeqs ranges)) (h : Bytes) :
    Accepts N h 0 h.size ↔ ∃ r, isScalar r ∧ inR r ranges ∧ h.toList = encode r := by
  rw [pathsOf_spec N _ hp h, classSeqs_exact_of_exactClass ranges hx]

/-- the same for a single range compiled by `compileUTF8Range` -/
theorem nfa_range_exact (N : NFA) (lo hi : Nat) (hp : pathsOf N = some (utf8RangeSeqs lo hi)) (h : Bytes) :
    Accepts N h 0 h.size ↔ ∃ r, lo ≤ r ∧ r ≤ hi ∧ isScalar r ∧ h.toList = encode r := by
  rw [pathsOf_spec N _ hp h, utf8RangeSeqs_exact_scalar]

end Cx.Utf8Range
