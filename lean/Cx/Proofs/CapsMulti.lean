import Cx.Proofs.CapsOrder
/-
  Cx.Proofs.CapsMulti — both sides of the level machine:
   * `seed_thm`     the DFS that shares one visited set among all start positions (`btSharedFrom`) is the
                    level-organised DFS `FG` on (closure of the seed ++ [seeder]);
   * `loopKU_live`  the clean unanchored Pike loop is the generation-wise search `RG` on the same queue
                    (`loopKU_post` once a match is recorded: threads are sorted by start, so every later match of a
                    surviving thread replaces the recorded one and `hasLeftmostCandidate` is "next queue non-empty").
-/
namespace Cx.Caps
open Cx Cx.Nfa
open Cx.Pike (Thread Vis clearVis anchored isMatchState closureFuel isBetter hasLeftmost matchesEmptyAt RuneOK succs
  sparseSuccs SparseDisjoint Rel)

/-- reading the answer off the winning thread -/
def resOf : Option (Nat × QT) → Option Slots
  | some (e, .thr M) => some (withSpan M.start e M.slots)
  | _ => none

/-- the multi-start DFS with one shared visited set = the level-organised DFS on (closure of the seed ++ [seeder]) -/
theorem seed_thm {N : NFA} {h : Bytes} (hd : SparseDisjoint N) (hR : RuneOK N h) (at_ n : Nat) :
    ∀ (k : Nat) (Ms : List Vis), Ms.length = k → ∀ (p : Nat) (V : Array Bool) (W : Vis) (fuel : Nat),
    at_ ≤ p → p + Ms.length = h.size → Rel { N := N, h := h, spanStart := at_ } V p (W :: Ms) →
    V.count false < btFuel N h → Ms.length + 1 ≤ fuel →
    btSharedFrom N h at_ n fuel p V =
      resOf (FQ N h n (Ms.length + 1) p Ms
        ((addThreadK N h p (seedCT N n p) (W, [])).2.map QT.thr ++ [QT.seeder])).1 := by
  intro k
  induction k with
  | zero =>
    intro Ms hk p V W fuel hat hlen hrel hcnt hfuel
    have : Ms = [] := List.eq_nil_of_length_eq_zero hk
    subst this
    obtain ⟨f, rfl⟩ : ∃ f, fuel = f + 1 := ⟨fuel - 1, by simp at hfuel; omega⟩
    have hS := S1K_all (c := { N := N, h := h, spanStart := at_ }) hd hR n (btFuel N h) p N.startAnchored p
      (unset n) V W [] (closureFuel N) hat hlen hrel hcnt
      (by have := count_le_size' hrel.head.1; simp only [closureFuel]; simp only at this; omega)
    obtain ⟨a1, a2⟩ := hS
    rw [btSharedFrom, if_neg (by simp at hlen; omega)]
    unfold FQ at a1 a2 ⊢
    rw [FG_append]
    have hadd : addThreadK N h p (seedCT N n p) (W, []) =
        closureK N h p (closureFuel N) [⟨N.startAnchored, p, unset n⟩] W [] := rfl
    rw [hadd]
    simp only [List.length_nil] at a1 a2 ⊢
    rcases a1 with ⟨b1, b2⟩ | ⟨e, sl, M, b1, b2, hM1, hM2⟩
    · cases hb : btCapsFind { N := N, h := h, spanStart := at_ } (btFuel N h) p N.startAnchored (unset n) V with
      | mk r V' =>
        rw [hb] at b1; simp only at b1; subst b1
        cases hf : FG (stepQ N h n) (isMQ N) (0 + 1) p []
            ((closureK N h p (closureFuel N) [⟨N.startAnchored, p, unset n⟩] W []).2.map QT.thr) with
        | mk rf Mf =>
          rw [hf] at b2; simp only at b2; subst b2
          have hMf : Mf = [] := by
            have := FG_length (stepQ N h n) (isMQ N) (0 + 1) p []
              ((closureK N h p (closureFuel N) [⟨N.startAnchored, p, unset n⟩] W []).2.map QT.thr)
            rw [hf] at this
            exact List.eq_nil_of_length_eq_zero (by simpa using this)
          subst hMf
          simp only [FG, tryAllG, diveG, isMQ, Bool.false_eq_true, ↓reduceIte, resOf]
          cases f with
          | zero => rfl
          | succ f => rw [btSharedFrom, if_pos (by simp at hlen; omega)]
    · cases hb : btCapsFind { N := N, h := h, spanStart := at_ } (btFuel N h) p N.startAnchored (unset n) V with
      | mk r V' =>
        rw [hb] at b1; simp only at b1; subst b1
        cases hf : FG (stepQ N h n) (isMQ N) (0 + 1) p []
            ((closureK N h p (closureFuel N) [⟨N.startAnchored, p, unset n⟩] W []).2.map QT.thr) with
        | mk rf Mf =>
          rw [hf] at b2; simp only at b2; subst b2
          simp only [resOf, hM1, hM2]
  | succ k ih =>
    intro Ms hk p V W fuel hat hlen hrel hcnt hfuel
    obtain ⟨f, rfl⟩ : ∃ f, fuel = f + 1 := ⟨fuel - 1, by omega⟩
    have hS := S1K_all (c := { N := N, h := h, spanStart := at_ }) hd hR n (btFuel N h) p N.startAnchored p
      (unset n) V W Ms (closureFuel N) hat hlen hrel hcnt
      (by have := count_le_size' hrel.head.1; simp only [closureFuel]; simp only at this; omega)
    obtain ⟨a1, a2⟩ := hS
    rw [btSharedFrom, if_neg (by omega)]
    unfold FQ at a1 a2 ⊢
    rw [FG_append]
    have hadd : addThreadK N h p (seedCT N n p) (W, []) =
        closureK N h p (closureFuel N) [⟨N.startAnchored, p, unset n⟩] W [] := rfl
    rw [hadd]
    rcases a1 with ⟨b1, b2⟩ | ⟨e, sl, M, b1, b2, hM1, hM2⟩
    · cases hb : btCapsFind { N := N, h := h, spanStart := at_ } (btFuel N h) p N.startAnchored (unset n) V with
      | mk r V' =>
        rw [hb] at b1 a2; simp only at b1 a2; subst b1
        cases hf : FG (stepQ N h n) (isMQ N) (Ms.length + 1) p Ms
            ((closureK N h p (closureFuel N) [⟨N.startAnchored, p, unset n⟩] W []).2.map QT.thr) with
        | mk rf Mf =>
          rw [hf] at b2 a2; simp only at b2 a2; subst b2
          obtain ⟨c1, c2, c3⟩ := a2 trivial
          have hMfl : Mf.length = Ms.length := by
            have := FG_length (stepQ N h n) (isMQ N) (Ms.length + 1) p Ms
              ((closureK N h p (closureFuel N) [⟨N.startAnchored, p, unset n⟩] W []).2.map QT.thr)
            rw [hf] at this; exact this
          cases Mf with
          | nil => simp at hMfl; omega
          | cons W1 Mf' =>
            have hl' : Mf'.length = k := by simp at hMfl; omega
            have := ih Mf' hl' (p+1) V' W1 f (by omega) (by omega) c1.tail (by omega) (by omega)
            simp only []
            rw [this]
            have hlv : Ms.length = Mf'.length + 1 := by omega
            rw [hlv]
            simp only [FQ, FG, tryAllG, diveG, isMQ, Bool.false_eq_true, ↓reduceIte, stepQ]
            cases (tryAllG (diveG (stepQ N h n) (isMQ N) (FG (stepQ N h n) (isMQ N) Mf'.length (p + 1 + 1)) (p + 1))
              ((addThreadK N h (p + 1) (seedCT N n (p + 1)) (W1, [])).2.map QT.thr ++ [QT.seeder]) Mf').1 <;> rfl
    · cases hb : btCapsFind { N := N, h := h, spanStart := at_ } (btFuel N h) p N.startAnchored (unset n) V with
      | mk r V' =>
        rw [hb] at b1; simp only at b1; subst b1
        cases hf : FG (stepQ N h n) (isMQ N) (Ms.length + 1) p Ms
            ((closureK N h p (closureFuel N) [⟨N.startAnchored, p, unset n⟩] W []).2.map QT.thr) with
        | mk rf Mf =>
          rw [hf] at b2; simp only at b2; subst b2
          simp only [resOf, hM1, hM2]
/-! ### the clean queue loop in closed form -/

def findMK (N : NFA) (Q : List CT) : Option CT := Q.find? (fun t => isMatchState N t.state)

def beforeMK (N : NFA) (Q : List CT) : List CT := Q.takeWhile (fun t => !isMatchState N t.state)

def stepAllK (N : NFA) (h : Bytes) (pos : Nat) : List CT → Vis × List CT → Vis × List CT
  | [], vq => vq
  | t :: ts, vq => stepAllK N h pos ts (stepThreadK N h pos t vq)

theorem stepQueueK_eq (N : NFA) (h : Bytes) (pos : Nat) (Q : List CT) : ∀ (best : Best) (vq : Vis × List CT),
    stepQueueK N h pos Q best vq =
      ((match findMK N Q with
        | some M => recordK best M pos
        | none => best), stepAllK N h pos (beforeMK N Q) vq) := by
  induction Q with
  | nil => intro best vq; rfl
  | cons t ts ih =>
    intro best vq
    cases hm : isMatchState N t.state with
    | true => simp [stepQueueK, findMK, beforeMK, hm, stepAllK]
    | false =>
      simp only [stepQueueK, hm, Bool.false_eq_true, ↓reduceIte]
      rw [ih]
      simp [findMK, beforeMK, hm, stepAllK]

theorem endQueueK_eq (N : NFA) (pos : Nat) (Q : List CT) : ∀ (best : Best),
    endQueueK N pos Q best = match findMK N Q with
      | some M => recordK best M pos
      | none => best := by
  induction Q with
  | nil => intro best; rfl
  | cons t ts ih =>
    intro best
    cases hm : isMatchState N t.state with
    | true => simp [endQueueK, findMK, hm]
    | false =>
      simp only [endQueueK, hm, Bool.false_eq_true, ↓reduceIte]
      rw [ih]
      simp [findMK, hm]

theorem stepAllK_out (N : NFA) (h : Bytes) (pos : Nat) (Q : List CT) : ∀ (W : Vis) (o1 o2 : List CT),
    stepAllK N h pos Q (W, o1 ++ o2) = ((stepAllK N h pos Q (W, o2)).1, o1 ++ (stepAllK N h pos Q (W, o2)).2) := by
  induction Q with
  | nil => intro W o1 o2; rfl
  | cons t ts ih =>
    intro W o1 o2
    simp only [stepAllK]
    rw [stepThreadK_out, ih]

/-- the generic generation step on a queue of real threads is the clean `stepAllK` -/
theorem stepAllG_thr (N : NFA) (h : Bytes) (n pos : Nat) (Q : List CT) : ∀ (W : Vis),
    stepAllG (stepQ N h n) pos (Q.map QT.thr) W =
      ((stepAllK N h pos Q (W, [])).1, (stepAllK N h pos Q (W, [])).2.map QT.thr) := by
  induction Q with
  | nil => intro W; rfl
  | cons t ts ih =>
    intro W
    simp only [List.map_cons, stepAllG, stepQ, stepAllK]
    rw [ih]
    have := stepAllK_out N h pos ts (stepThreadK N h pos t (W, [])).1 (stepThreadK N h pos t (W, [])).2 []
    simp only [List.append_nil] at this
    rw [this]
    simp

theorem findM_thr (N : NFA) (Q : List CT) : findM (isMQ N) (Q.map QT.thr) = (findMK N Q).map QT.thr := by
  induction Q with
  | nil => rfl
  | cons t ts ih =>
    cases hm : isMatchState N t.state with
    | true => simp [findM, findMK, isMQ, hm]
    | false =>
      simp only [findM, findMK, List.map_cons, List.find?, isMQ, hm] at ih ⊢
      exact ih

theorem hereM_thr (N : NFA) (p : Nat) (Q : List CT) :
    hereM (isMQ N) p (Q.map QT.thr) = (findMK N Q).map (fun M => (p, QT.thr M)) := by
  simp [hereM, findM_thr, Option.map_map, Function.comp_def]

theorem beforeM_thr (N : NFA) (Q : List CT) : beforeM (isMQ N) (Q.map QT.thr) = (beforeMK N Q).map QT.thr := by
  induction Q with
  | nil => rfl
  | cons t ts ih =>
    cases hm : isMatchState N t.state with
    | true => simp [beforeM, beforeMK, isMQ, hm]
    | false =>
      simp only [beforeM, beforeMK, List.map_cons, List.takeWhile, isMQ, hm, Bool.not_false] at ih ⊢
      rw [ih]

theorem hereM_seeder (N : NFA) (p : Nat) : hereM (isMQ N) p [QT.seeder] = none := by
  simp [hereM, findM, isMQ]

/-! ### threads are ordered by start position -/

def SortedK (l : List CT) : Prop := l.Pairwise (fun a b => a.start ≤ b.start)

theorem closureK_starts (N : NFA) (h : Bytes) (pos : Nat) (P : Nat → Prop) : ∀ (fuel : Nat) (stack : List CT)
    (vis : Vis) (out : List CT), (∀ fr ∈ stack, P fr.start) → (∀ x ∈ out, P x.start) →
    ∀ x ∈ (closureK N h pos fuel stack vis out).2, P x.start := by
  intro fuel
  induction fuel with
  | zero => intro stack vis out _ ho; simpa [closureK, closureG] using ho
  | succ fuel ih =>
    intro stack vis out hs ho
    cases stack with
    | nil => simpa [closureK_nil] using ho
    | cons fr st =>
      rw [closureK_cons]
      split
      · exact ih st vis out (fun x hx => hs x (List.mem_cons_of_mem _ hx)) ho
      · apply ih
        · intro x hx
          rcases List.mem_append.mp hx with h1 | h1
          · rw [expandK_start h1]; exact hs fr List.mem_cons_self
          · exact hs x (List.mem_cons_of_mem _ h1)
        · intro x hx
          split at hx
          · rcases List.mem_append.mp hx with h1 | h1
            · exact ho x h1
            · simp at h1; subst h1; exact hs _ List.mem_cons_self
          · exact ho x hx

theorem addThreadK_new (N : NFA) (h : Bytes) (pos : Nat) (t : CT) (W : Vis) (out : List CT) :
    (addThreadK N h pos t (W, out)).2 = out ++ (addThreadK N h pos t (W, [])).2 ∧
    ∀ x ∈ (addThreadK N h pos t (W, [])).2, x.start = t.start := by
  refine ⟨?_, ?_⟩
  · have := addThreadK_out N h pos t W out []
    simp only [List.append_nil] at this
    rw [this]
  · exact closureK_starts N h pos (· = t.start) _ _ _ _ (by simp) (by simp)

theorem addAllK_starts (N : NFA) (h : Bytes) (pos : Nat) (P : Nat → Prop) (L : List CT) : ∀ (vq : Vis × List CT),
    (∀ t ∈ L, P t.start) → (∀ x ∈ vq.2, P x.start) → ∀ x ∈ (addAllK N h pos L vq).2, P x.start := by
  induction L with
  | nil => intro vq _ ho; exact ho
  | cons a L ih =>
    intro vq hL ho
    rw [addAllK_cons]
    apply ih _ (fun t ht => hL t (List.mem_cons_of_mem _ ht))
    exact closureK_starts N h pos P _ _ _ _ (by intro fr hfr; simp at hfr; subst hfr; exact hL _ List.mem_cons_self) ho

theorem stepThreadK_new (N : NFA) (h : Bytes) (pos : Nat) (t : CT) (W : Vis) (out : List CT) :
    (stepThreadK N h pos t (W, out)).2 = out ++ (stepThreadK N h pos t (W, [])).2 ∧
    ∀ x ∈ (stepThreadK N h pos t (W, [])).2, x.start = t.start := by
  refine ⟨?_, ?_⟩
  · have := stepThreadK_out N h pos t W out []
    simp only [List.append_nil] at this
    rw [this]
  · unfold stepThreadK
    apply addAllK_starts N h (pos+1) (· = t.start)
    · intro x hx; simp only [List.mem_map] at hx; obtain ⟨y, _, rfl⟩ := hx; rfl
    · simp

theorem stepAllK_spec (N : NFA) (h : Bytes) (pos : Nat) (Q : List CT) : ∀ (vq : Vis × List CT),
    SortedK Q → SortedK vq.2 → (∀ a ∈ vq.2, ∀ t ∈ Q, a.start ≤ t.start) →
    SortedK (stepAllK N h pos Q vq).2 ∧
    ∀ x ∈ (stepAllK N h pos Q vq).2, x ∈ vq.2 ∨ ∃ t ∈ Q, x.start = t.start := by
  induction Q with
  | nil => intro vq _ hs _; exact ⟨hs, fun x hx => Or.inl hx⟩
  | cons t ts ih =>
    intro vq hs1 hs2 hb
    simp only [stepAllK]
    obtain ⟨W, out⟩ := vq
    obtain ⟨e1, p1⟩ := stepThreadK_new N h pos t W out
    have hs1' := List.pairwise_cons.mp hs1
    have hsorted1 : SortedK (stepThreadK N h pos t (W, out)).2 := by
      rw [e1]
      unfold SortedK
      rw [List.pairwise_append]
      refine ⟨hs2, ?_, ?_⟩
      · rw [List.pairwise_iff_forall_sublist]
        intro a b hab
        have ha := p1 a (hab.subset (by simp))
        have hb' := p1 b (hab.subset (by simp))
        omega
      · intro a ha b hb'
        have := hb a ha t List.mem_cons_self
        have := p1 b hb'
        omega
    have hb1 : ∀ a ∈ (stepThreadK N h pos t (W, out)).2, ∀ t' ∈ ts, a.start ≤ t'.start := by
      intro a ha t' ht'
      rw [e1] at ha
      rcases List.mem_append.mp ha with h1 | h1
      · exact hb a h1 t' (List.mem_cons_of_mem _ ht')
      · have := p1 a h1
        have := hs1'.1 t' ht'
        omega
    obtain ⟨s2, m2⟩ := ih _ hs1'.2 hsorted1 hb1
    refine ⟨s2, ?_⟩
    intro x hx
    rcases m2 x hx with h1 | ⟨t', h1, h2⟩
    · rw [e1] at h1
      rcases List.mem_append.mp h1 with h3 | h3
      · exact Or.inl h3
      · exact Or.inr ⟨t, List.mem_cons_self, p1 x h3⟩
    · exact Or.inr ⟨t', List.mem_cons_of_mem _ h1, h2⟩

theorem findMK_mem {N : NFA} {Q : List CT} {M : CT} (hf : findMK N Q = some M) :
    M ∈ Q ∧ isMatchState N M.state = true := by
  refine ⟨List.mem_of_find?_eq_some hf, ?_⟩
  have := List.find?_some hf
  simpa using this

/-- in a sorted queue every thread before the first match state starts no later than it -/
theorem beforeMK_le {N : NFA} {Q : List CT} (hs : SortedK Q) {M : CT} (hf : findMK N Q = some M) :
    ∀ t ∈ beforeMK N Q, t.start ≤ M.start := by
  induction Q with
  | nil => simp [findMK] at hf
  | cons a Q ih =>
    have hs' := List.pairwise_cons.mp hs
    cases hm : isMatchState N a.state with
    | true => simp [beforeMK, hm]
    | false =>
      have hf' : findMK N Q = some M := by simpa [findMK, hm] using hf
      intro t ht
      simp only [beforeMK, List.takeWhile, hm, Bool.not_false, List.mem_cons] at ht
      rcases ht with rfl | ht
      · exact hs'.1 M (findMK_mem hf').1
      · exact ih hs'.2 hf' t ht

theorem beforeMK_sub {N : NFA} {Q : List CT} : ∀ t ∈ beforeMK N Q, t ∈ Q :=
  fun _ ht => (List.takeWhile_sublist _).subset ht

theorem sortedK_beforeMK {N : NFA} {Q : List CT} (hs : SortedK Q) : SortedK (beforeMK N Q) :=
  List.Pairwise.sublist (List.takeWhile_sublist _) hs

theorem beforeMK_of_none {N : NFA} {Q : List CT} (hf : findMK N Q = none) : beforeMK N Q = Q := by
  induction Q with
  | nil => rfl
  | cons a Q ih =>
    cases hm : isMatchState N a.state with
    | true => simp [findMK, hm] at hf
    | false =>
      have hf' : findMK N Q = none := by simpa [findMK, hm] using hf
      simp only [beforeMK, List.takeWhile, hm, Bool.not_false]
      have := ih hf'
      simp only [beforeMK] at this
      rw [this]


/-! ### the clean unanchored loop is the generation-wise search -/

/-- the recorded match a winning thread stands for (the seeder never wins; its value here is irrelevant) -/
def bestOf : Nat × QT → (Nat × Nat) × Slots
  | (e, .thr M) => ((M.start, e), M.slots)
  | (e, .seeder) => ((0, e), [])

abbrev RQ (N : NFA) (h : Bytes) (n : Nat) := RG (stepQ N h n) (isMQ N)

theorem map_or {α β : Type} (f : α → β) (a b : Option α) : (a.or b).map f = (a.map f).or (b.map f) := by
  cases a <;> simp

theorem or_some_or' {α : Type} (x : Option α) (y : α) (z : Option α) : (x.or (some y)).or z = x.or (some y) := by
  cases x <;> simp

theorem hasLeftmostK_false {next : List CT} {bs : Nat} (hall : ∀ t ∈ next, t.start ≤ bs)
    (hn : ¬ (hasLeftmostK next bs = true)) : next = [] := by
  cases next with
  | nil => rfl
  | cons a l =>
    exfalso
    apply hn
    simp only [hasLeftmostK, List.any_cons, Bool.or_eq_true, decide_eq_true_eq]
    exact Or.inl (hall a List.mem_cons_self)

theorem recordK_better {best : Best} {M : CT} {pos : Nat}
    (hb : ∀ bs be bsl, best = some ((bs, be), bsl) → M.start ≤ bs ∧ be < pos) :
    recordK best M pos = some ((M.start, pos), M.slots) := by
  unfold recordK
  cases best with
  | none => simp [bestSpan, isBetter]
  | some b =>
    obtain ⟨⟨bs, be⟩, bsl⟩ := b
    obtain ⟨h1, h2⟩ := hb bs be bsl rfl
    have : isBetter (bestSpan (some ((bs, be), bsl))) M.start pos = true := by
      simp only [bestSpan, Option.map_some, isBetter]
      split
      · rfl
      · split
        · omega
        · simp; omega
    rw [if_pos this]

theorem replicate_succ' (N : NFA) {k : Nat} (hk : 0 < k) :
    List.replicate k (clearVis N) = clearVis N :: List.replicate (k - 1) (clearVis N) := by
  obtain ⟨j, rfl⟩ : ∃ j, k = j + 1 := ⟨k - 1, by omega⟩
  simp [List.replicate_succ]

/-- after the first match: no more seeds; every later match of the remaining threads replaces the recorded one -/
theorem loopKU_post (N : NFA) (h : Bytes) (n : Nat) : ∀ (fuel pos : Nat) (Q : List CT) (vis : Vis)
    (bs be : Nat) (bsl : Slots), fuel = h.size + 1 - pos → pos ≤ h.size → SortedK Q → (∀ t ∈ Q, t.start ≤ bs) →
    be < pos →
    loopKU N h n fuel pos Q vis (some ((bs, be), bsl)) =
      ((RQ N h n (List.replicate (h.size - pos) (clearVis N)) pos (Q.map QT.thr)).1.map bestOf).or
        (some ((bs, be), bsl)) := by
  intro fuel
  induction fuel with
  | zero => intro pos Q vis bs be bsl hf hp; omega
  | succ fuel ih =>
    intro pos Q vis bs be bsl hf hp hsort hall hbe
    rw [loopKU]
    simp only [Option.isNone_some, Bool.false_eq_true, ↓reduceIte]
    by_cases hlt : pos < h.size
    · rw [if_pos hlt, stepQueueK_eq]
      simp only []
      rw [replicate_succ' N (by omega : 0 < h.size - pos)]
      have hk : h.size - pos - 1 = h.size - (pos + 1) := by omega
      rw [hk]
      unfold RQ
      simp only [RG]
      rw [beforeM_thr, stepAllG_thr, hereM_thr]
      simp only []
      obtain ⟨hs', hm'⟩ := stepAllK_spec N h pos (beforeMK N Q) (clearVis N, []) (sortedK_beforeMK hsort)
        List.Pairwise.nil (by simp)
      cases hf' : findMK N Q with
      | none =>
        simp only [Option.map_none, Option.or_none]
        have hnext : ∀ t ∈ (stepAllK N h pos (beforeMK N Q) (clearVis N, [])).2, t.start ≤ bs := by
          intro t ht
          rcases hm' t ht with h1 | ⟨t', h1, h2⟩
          · simp at h1
          · rw [h2]; exact hall t' (beforeMK_sub t' h1)
        split
        · exact ih (pos+1) _ _ bs be bsl (by omega) (by omega) hs' hnext (by omega)
        · rename_i hn
          rw [hasLeftmostK_false hnext hn]
          simp [RG_nil]
      | some M =>
        obtain ⟨hMmem, _⟩ := findMK_mem hf'
        have hrec := recordK_better (best := some ((bs, be), bsl)) (M := M) (pos := pos)
          (by intro a b d he; simp only [Option.some.injEq, Prod.mk.injEq] at he
              obtain ⟨⟨rfl, rfl⟩, _⟩ := he; exact ⟨hall M hMmem, hbe⟩)
        simp only [hrec, Option.map_some]
        have hnext : ∀ t ∈ (stepAllK N h pos (beforeMK N Q) (clearVis N, [])).2, t.start ≤ M.start := by
          intro t ht
          rcases hm' t ht with h1 | ⟨t', h1, h2⟩
          · simp at h1
          · rw [h2]; exact beforeMK_le hsort hf' t' h1
        rw [map_or]
        simp only [Option.map_some, bestOf, or_some_or']
        split
        · exact ih (pos+1) _ _ M.start pos M.slots (by omega) (by omega) hs' hnext (by omega)
        · rename_i hn
          rw [hasLeftmostK_false hnext hn]
          simp [RG_nil]
    · rw [if_neg hlt, endQueueK_eq]
      have hz : h.size - pos = 0 := by omega
      rw [hz]
      unfold RQ
      simp only [List.replicate_zero, RG, hereM_thr]
      cases hf' : findMK N Q with
      | none => simp
      | some M =>
        obtain ⟨hMmem, _⟩ := findMK_mem hf'
        have hrec := recordK_better (best := some ((bs, be), bsl)) (M := M) (pos := pos)
          (by intro a b d he; simp only [Option.some.injEq, Prod.mk.injEq] at he
              obtain ⟨⟨rfl, rfl⟩, _⟩ := he; exact ⟨hall M hMmem, hbe⟩)
        simp [hrec, bestOf]


theorem beforeM_seeder (N : NFA) : beforeM (isMQ N) [QT.seeder] = [QT.seeder] := by
  simp [beforeM, isMQ]

/-- while no match has been recorded: the queue is followed by the seeder -/
theorem loopKU_live (N : NFA) (h : Bytes) (n : Nat) : ∀ (fuel pos : Nat) (Q : List CT) (vis : Vis),
    fuel = h.size + 1 - pos → pos ≤ h.size → SortedK Q → (∀ t ∈ Q, t.start ≤ pos) →
    loopKU N h n fuel pos Q vis none =
      (RQ N h n (List.replicate (h.size - pos) (clearVis N)) pos
        ((addThreadK N h pos (seedCT N n pos) (vis, Q)).2.map QT.thr ++ [QT.seeder])).1.map bestOf := by
  intro fuel
  induction fuel with
  | zero => intro pos Q vis hf hp; omega
  | succ fuel ih =>
    intro pos Q vis hf hp hsort hall
    rw [loopKU]
    simp only [Option.isNone_none, ↓reduceIte]
    have hseed : (⟨N.startAnchored, pos, unset n⟩ : CT) = seedCT N n pos := rfl
    rw [hseed]
    obtain ⟨e1, p1⟩ := addThreadK_new N h pos (seedCT N n pos) vis Q
    have hsort1 : SortedK (addThreadK N h pos (seedCT N n pos) (vis, Q)).2 := by
      rw [e1]
      unfold SortedK
      rw [List.pairwise_append]
      refine ⟨hsort, ?_, ?_⟩
      · rw [List.pairwise_iff_forall_sublist]
        intro a b hab
        have ha := p1 a (hab.subset (by simp))
        have hb' := p1 b (hab.subset (by simp))
        omega
      · intro a ha b hb'
        have := hall a ha
        have := p1 b hb'
        simp only [seedCT] at this
        omega
    have hall1 : ∀ t ∈ (addThreadK N h pos (seedCT N n pos) (vis, Q)).2, t.start ≤ pos := by
      intro t ht
      rw [e1] at ht
      rcases List.mem_append.mp ht with h1 | h1
      · exact hall t h1
      · have := p1 t h1; simp only [seedCT] at this; omega
    generalize (addThreadK N h pos (seedCT N n pos) (vis, Q)).2 = Q1 at hsort1 hall1 ⊢
    by_cases hlt : pos < h.size
    · rw [if_pos hlt, stepQueueK_eq]
      simp only []
      rw [replicate_succ' N (by omega : 0 < h.size - pos)]
      have hk : h.size - pos - 1 = h.size - (pos + 1) := by omega
      rw [hk]
      unfold RQ
      simp only [RG]
      cases hf' : findMK N Q1 with
      | none =>
        have hnone : hereM (isMQ N) pos (Q1.map QT.thr) = none := by rw [hereM_thr, hf']; rfl
        rw [hereM_append, hnone, hereM_seeder, beforeM_append_of_none (isMQ N) hnone, beforeM_seeder,
          stepAllG_append, stepAllG_thr, beforeMK_of_none hf']
        simp only [Option.or_none, stepAllG, stepQ, List.append_nil]
        obtain ⟨hs', hm'⟩ := stepAllK_spec N h pos Q1 (clearVis N, []) hsort1 List.Pairwise.nil (by simp)
        have hnext : ∀ t ∈ (stepAllK N h pos Q1 (clearVis N, [])).2, t.start ≤ pos + 1 := by
          intro t ht
          rcases hm' t ht with h1 | ⟨t', h1, h2⟩
          · simp at h1
          · rw [h2]; have := hall1 t' h1; omega
        have := ih (pos+1) (stepAllK N h pos Q1 (clearVis N, [])).2 (stepAllK N h pos Q1 (clearVis N, [])).1
          (by omega) (by omega) hs' hnext
        rw [this]
        obtain ⟨e2, _⟩ := addThreadK_new N h (pos+1) (seedCT N n (pos+1)) (stepAllK N h pos Q1 (clearVis N, [])).1
          (stepAllK N h pos Q1 (clearVis N, [])).2
        rw [e2]
        simp only [RQ, List.map_append, List.append_assoc]
      | some M =>
        obtain ⟨hMmem, _⟩ := findMK_mem hf'
        have hsome : hereM (isMQ N) pos (Q1.map QT.thr) = some (pos, QT.thr M) := by rw [hereM_thr, hf']; rfl
        rw [hereM_append, hsome, beforeM_append_of_some (isMQ N) (p := pos) (by rw [hsome]; rfl), beforeM_thr,
          stepAllG_thr]
        have hrec := recordK_better (best := none) (M := M) (pos := pos) (by intro a b d he; cases he)
        simp only [hrec, Option.some_or]
        obtain ⟨hs', hm'⟩ := stepAllK_spec N h pos (beforeMK N Q1) (clearVis N, []) (sortedK_beforeMK hsort1)
          List.Pairwise.nil (by simp)
        have hnext : ∀ t ∈ (stepAllK N h pos (beforeMK N Q1) (clearVis N, [])).2, t.start ≤ M.start := by
          intro t ht
          rcases hm' t ht with h1 | ⟨t', h1, h2⟩
          · simp at h1
          · rw [h2]; exact beforeMK_le hsort1 hf' t' h1
        rw [map_or]
        simp only [Option.map_some, bestOf]
        split
        · exact loopKU_post N h n fuel (pos+1) _ _ M.start pos M.slots (by omega) (by omega) hs' hnext (by omega)
        · rename_i hn
          rw [hasLeftmostK_false hnext hn]
          simp [RG_nil]
    · rw [if_neg hlt, endQueueK_eq]
      have hz : h.size - pos = 0 := by omega
      rw [hz]
      unfold RQ
      simp only [List.replicate_zero, RG, hereM_append, hereM_seeder, Option.or_none, hereM_thr]
      cases hf' : findMK N Q1 with
      | none => simp
      | some M =>
        have hrec := recordK_better (best := none) (M := M) (pos := pos) (by intro a b d he; cases he)
        simp [hrec, bestOf]

end Cx.Caps
