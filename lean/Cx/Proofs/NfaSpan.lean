import Cx.Model.ClassCheck
import Cx.Proofs.Nfa
/-
  Cx.Proofs.NfaSpan — the span deciders used by the C15 class checker against the path relation:
    * `btSpan` / `acceptsSpan` (memoised DFS, a match state only counts at offset `e`): sound and complete,
    * `walkSpan` (depth-bounded DFS without visited set): whatever it answers is right (`none` says nothing),
    * `accWhole` (walk first, memoised DFS as fallback): decides `Accepts N bs 0 bs.size`.
  The visited-set argument is the one of `Cx/Proofs/Nfa.lean` (`btFind_none`), with "is not a match state" replaced by
  "is not a match state AT OFFSET e" in the invariant.
-/
namespace Cx.Nfa
open Cx

/-! ### what `Reaches` means state by state -/

theorem steps_inv {N : NFA} {h : Bytes} {a b : Nat × Nat} (s : Steps N h a b) :
    a = b ∨ ∃ m, Step N h a m ∧ Steps N h m b := by
  cases s with
  | refl => exact Or.inl rfl
  | cons st r => exact Or.inr ⟨_, st, r⟩

/-- from a match state there is no step: it is reached exactly at the current offset -/
theorem reaches_mtch {N : NFA} {h : Bytes} {q i j : Nat} (hk : N.get q = .mtch) :
    Reaches N h q i j ↔ (i = j ∧ q < N.states.size) := by
  constructor
  · intro ⟨m, hs, hm, hlt⟩
    cases steps_inv hs with
    | inl he => cases he; exact ⟨rfl, hlt⟩
    | inr hx =>
      obtain ⟨⟨q', p'⟩, st, _⟩ := hx
      have := step_inv st
      simp only [hk] at this
  · intro ⟨he, hlt⟩
    subst he
    exact ⟨q, Steps.refl _, hk, hlt⟩

/-- from a non-match state a match is reached through one of the successors -/
theorem reaches_step {N : NFA} {h : Bytes} {q i j : Nat} (hk : N.get q ≠ .mtch) :
    Reaches N h q i j ↔ ∃ q' i', Step N h (q, i) (q', i') ∧ Reaches N h q' i' j := by
  constructor
  · intro ⟨m, hs, hm, hlt⟩
    cases steps_inv hs with
    | inl he => cases he; exact absurd hm hk
    | inr hx =>
      obtain ⟨⟨q', p'⟩, st, r⟩ := hx
      exact ⟨q', p', st, m, r, hm, hlt⟩
  · intro ⟨q', i', st, r⟩
    exact reaches_cons st r

/-! ### `btSpan`: soundness -/

theorem btSpan_sound (c : BTCtx) (e fuel pos q : Nat) (vis vis' : Array Bool)
    (hr : btSpan c e fuel pos q vis = (true, vis')) : Reaches c.N c.h q pos e := by
  induction fuel generalizing pos q vis vis' with
  | zero => simp [btSpan] at hr
  | succ fuel ih =>
    rw [btSpan] at hr
    split at hr
    · simp at hr
    · split at hr
      · simp at hr
      · rename_i hq hv
        simp only [] at hr
        split at hr
        · -- mtch
          rename_i hk
          simp only [Prod.mk.injEq, decide_eq_true_eq] at hr
          obtain ⟨rfl, _⟩ := hr
          exact ⟨q, Steps.refl _, hk, by omega⟩
        · -- byteRange
          rename_i lo hi nx hk
          split at hr
          · rename_i hc
            exact reaches_cons (Step.byteRange hk hc.1 hc.2.1 hc.2.2) (ih _ _ _ _ hr)
          · simp at hr
        · -- sparse
          rename_i ts hk
          split at hr
          · simp at hr
          · rename_i hp
            split at hr
            · rename_i nx hf
              exact reaches_cons (Step.sparse hk (by omega) hf) (ih _ _ _ _ hr)
            · simp at hr
        · -- split
          rename_i l r hk
          split at hr
          · rename_i h1
            exact reaches_cons (Step.splitL hk) (ih _ _ _ _ (Prod.ext h1 rfl))
          · exact reaches_cons (Step.splitR hk) (ih _ _ _ _ hr)
        · rename_i nx hk
          exact reaches_cons (Step.eps hk) (ih _ _ _ _ hr)
        · rename_i idx st nx hk
          exact reaches_cons (Step.cap hk) (ih _ _ _ _ hr)
        · rename_i k nx hk
          split at hr
          · rename_i hl
            exact reaches_cons (Step.look hk hl) (ih _ _ _ _ hr)
          · simp at hr
        · rename_i nx hk
          split at hr
          · rename_i hc
            exact reaches_cons (Step.runeAny hk hc.1 hc.2) (ih _ _ _ _ hr)
          · simp at hr
        · rename_i nx hk
          split at hr
          · rename_i hc
            exact reaches_cons (Step.runeAnyNotNL hk hc.1 hc.2.1 hc.2.2) (ih _ _ _ _ hr)
          · simp at hr
        · simp at hr

/-! ### `btSpan`: completeness (visited ⇒ explored without reaching a match state at `e`, or still on the stack) -/

/-- every marked configuration that is not on the recursion stack `S` is not a match state at offset `e` and has only
    pruned successors -/
def InvE (c : BTCtx) (e : Nat) (vis : Array Bool) (S : Nat → Nat → Prop) : Prop :=
  ∀ q p, q < c.N.states.size → c.spanStart ≤ p → p ≤ c.h.size → vis.getD (c.idx q p) true = true → ¬ S q p →
    (c.N.get q = .mtch → p ≠ e) ∧ ∀ q' p', Step c.N c.h (q, p) (q', p') → Pruned c vis q' p'

theorem invE_push {c : BTCtx} {e : Nat} {vis : Array Bool} {S : Nat → Nat → Prop} {q pos : Nat}
    (hinv : InvE c e vis S) (hq : q < c.N.states.size) (hpos : c.spanStart ≤ pos) :
    InvE c e (vis.setIfInBounds (c.idx q pos) true) (fun a b => S a b ∨ (a = q ∧ b = pos)) := by
  intro a b ha hb hb2 hm hns
  have hne : c.idx q pos ≠ c.idx a b := by
    intro he
    obtain ⟨h1, h2⟩ := idx_inj c hq ha hpos hb he
    exact hns (Or.inr ⟨h1.symm, h2.symm⟩)
  rw [getD_set_other hne] at hm
  obtain ⟨h1, h2⟩ := hinv a b ha hb hb2 hm (fun h => hns (Or.inl h))
  exact ⟨h1, fun q' p' st => (h2 q' p' st).mono (fun _ h => getD_set_mono h)⟩

theorem invE_pop {c : BTCtx} {e : Nat} {vis' : Array Bool} {S : Nat → Nat → Prop} {q pos : Nat}
    (hinv : InvE c e vis' (fun a b => S a b ∨ (a = q ∧ b = pos)))
    (hm : c.N.get q = .mtch → pos ≠ e) (hs : ∀ q' p', Step c.N c.h (q, pos) (q', p') → Pruned c vis' q' p') :
    InvE c e vis' S := by
  intro a b ha hb hb2 hmk hns
  by_cases he : a = q ∧ b = pos
  · obtain ⟨rfl, rfl⟩ := he
    exact ⟨hm, hs⟩
  · exact hinv a b ha hb hb2 hmk (fun h => h.elim hns he)

theorem btSpan_false (c : BTCtx) (e fuel pos q : Nat) (vis vis' : Array Bool) (S : Nat → Nat → Prop)
    (hr : btSpan c e fuel pos q vis = (false, vis')) (hf : vis.count false < fuel) (hpos : c.spanStart ≤ pos)
    (hinv : InvE c e vis S) :
    InvE c e vis' S ∧ Pruned c vis' q pos ∧ Mono vis vis' ∧ vis'.count false ≤ vis.count false := by
  induction fuel generalizing pos q vis vis' S with
  | zero => omega
  | succ fuel ih =>
    rw [btSpan] at hr
    split at hr
    · rename_i hq
      simp only [Prod.mk.injEq, true_and] at hr
      subst hr
      exact ⟨hinv, Or.inl hq, Mono.refl _, Nat.le_refl _⟩
    · split at hr
      · rename_i hq hv
        simp only [Prod.mk.injEq, true_and] at hr
        subst hr
        exact ⟨hinv, Or.inr hv, Mono.refl _, Nat.le_refl _⟩
      · rename_i hq hv
        have hq : q < c.N.states.size := by omega
        have hv : vis.getD (c.idx q pos) true = false := by simpa using hv
        have hself := getD_set_self hv
        have hcnt := count_set_lt hv
        have hm1 : Mono vis (vis.setIfInBounds (c.idx q pos) true) := fun _ h => getD_set_mono h
        have hinv1 := invE_push (e := e) hinv hq hpos
        have hf1 : (vis.setIfInBounds (c.idx q pos) true).count false < fuel := by omega
        -- closing argument shared by all cases
        have fin : ∀ v, InvE c e v (fun a b => S a b ∨ (a = q ∧ b = pos)) →
            Mono (vis.setIfInBounds (c.idx q pos) true) v →
            v.count false ≤ (vis.setIfInBounds (c.idx q pos) true).count false →
            (c.N.get q = .mtch → pos ≠ e) → (∀ q' p', Step c.N c.h (q, pos) (q', p') → Pruned c v q' p') →
            InvE c e v S ∧ Pruned c v q pos ∧ Mono vis v ∧ v.count false ≤ vis.count false := by
          intro v hi hmv hcv hnm hsucc
          exact ⟨invE_pop hi hnm hsucc, Or.inr (hmv _ hself), hm1.trans hmv, by omega⟩
        simp only [] at hr
        split at hr
        · -- mtch: the answer is `pos = e`
          rename_i hk
          simp only [Prod.mk.injEq, decide_eq_false_iff_not] at hr
          obtain ⟨hne, rfl⟩ := hr
          refine fin _ hinv1 (Mono.refl _) (Nat.le_refl _) (fun _ => hne) ?_
          intro q' p' st
          have := step_inv st
          simp only [hk] at this
        · -- byteRange
          rename_i lo hi nx hk
          split at hr
          · obtain ⟨h1, h2, h3, h4⟩ := ih _ _ _ _ _ hr hf1 (by omega) hinv1
            refine fin _ h1 h3 h4 (by simp [hk]) ?_
            intro q' p' st
            have := step_inv st
            simp only [hk] at this
            obtain ⟨_, _, _, rfl, rfl⟩ := this
            exact h2
          · rename_i hc
            simp only [Prod.mk.injEq, true_and] at hr
            subst hr
            refine fin _ hinv1 (Mono.refl _) (Nat.le_refl _) (by simp [hk]) ?_
            intro q' p' st
            have := step_inv st
            simp only [hk] at this
            exact absurd ⟨this.1, this.2.1, this.2.2.1⟩ hc
        · -- sparse
          rename_i ts hk
          split at hr
          · rename_i hc
            simp only [Prod.mk.injEq, true_and] at hr
            subst hr
            refine fin _ hinv1 (Mono.refl _) (Nat.le_refl _) (by simp [hk]) ?_
            intro q' p' st
            have := step_inv st
            simp only [hk] at this
            omega
          · split at hr
            · rename_i nx hft
              obtain ⟨h1, h2, h3, h4⟩ := ih _ _ _ _ _ hr hf1 (by omega) hinv1
              refine fin _ h1 h3 h4 (by simp [hk]) ?_
              intro q' p' st
              have := step_inv st
              simp only [hk] at this
              obtain ⟨_, h5, rfl⟩ := this
              rw [hft] at h5
              cases h5
              exact h2
            · rename_i hft
              simp only [Prod.mk.injEq, true_and] at hr
              subst hr
              refine fin _ hinv1 (Mono.refl _) (Nat.le_refl _) (by simp [hk]) ?_
              intro q' p' st
              have := step_inv st
              simp only [hk] at this
              rw [hft] at this
              exact nomatch this.2.1
        · -- split
          rename_i l r hk
          split at hr
          · simp at hr
          · rename_i hok
            have hl : btSpan c e fuel pos l (vis.setIfInBounds (c.idx q pos) true) =
                (false, (btSpan c e fuel pos l (vis.setIfInBounds (c.idx q pos) true)).2) :=
              Prod.ext (by simpa using hok) rfl
            obtain ⟨h1, h2, h3, h4⟩ := ih _ _ _ _ _ hl hf1 hpos hinv1
            obtain ⟨g1, g2, g3, g4⟩ := ih _ _ _ _ _ hr (by omega) hpos h1
            refine fin _ g1 (h3.trans g3) (by omega) (by simp [hk]) ?_
            intro q' p' st
            have := step_inv st
            simp only [hk] at this
            obtain ⟨h5, rfl⟩ := this
            cases h5 with
            | inl h5 => subst h5; exact h2.mono g3
            | inr h5 => subst h5; exact g2
        · -- eps
          rename_i nx hk
          obtain ⟨h1, h2, h3, h4⟩ := ih _ _ _ _ _ hr hf1 hpos hinv1
          refine fin _ h1 h3 h4 (by simp [hk]) ?_
          intro q' p' st
          have := step_inv st
          simp only [hk] at this
          obtain ⟨rfl, rfl⟩ := this
          exact h2
        · -- cap
          rename_i ci cs nx hk
          obtain ⟨h1, h2, h3, h4⟩ := ih _ _ _ _ _ hr hf1 hpos hinv1
          refine fin _ h1 h3 h4 (by simp [hk]) ?_
          intro q' p' st
          have := step_inv st
          simp only [hk] at this
          obtain ⟨rfl, rfl⟩ := this
          exact h2
        · -- look
          rename_i k nx hk
          split at hr
          · obtain ⟨h1, h2, h3, h4⟩ := ih _ _ _ _ _ hr hf1 hpos hinv1
            refine fin _ h1 h3 h4 (by simp [hk]) ?_
            intro q' p' st
            have := step_inv st
            simp only [hk] at this
            obtain ⟨_, rfl, rfl⟩ := this
            exact h2
          · rename_i hc
            simp only [Prod.mk.injEq, true_and] at hr
            subst hr
            refine fin _ hinv1 (Mono.refl _) (Nat.le_refl _) (by simp [hk]) ?_
            intro q' p' st
            have := step_inv st
            simp only [hk] at this
            exact absurd this.1 hc
        · -- runeAny
          rename_i nx hk
          split at hr
          · obtain ⟨h1, h2, h3, h4⟩ := ih _ _ _ _ _ hr hf1 (by omega) hinv1
            refine fin _ h1 h3 h4 (by simp [hk]) ?_
            intro q' p' st
            have := step_inv st
            simp only [hk] at this
            obtain ⟨_, _, rfl, rfl⟩ := this
            exact h2
          · rename_i hc
            simp only [Prod.mk.injEq, true_and] at hr
            subst hr
            refine fin _ hinv1 (Mono.refl _) (Nat.le_refl _) (by simp [hk]) ?_
            intro q' p' st
            have := step_inv st
            simp only [hk] at this
            exact absurd ⟨this.1, this.2.1⟩ hc
        · -- runeAnyNotNL
          rename_i nx hk
          split at hr
          · obtain ⟨h1, h2, h3, h4⟩ := ih _ _ _ _ _ hr hf1 (by omega) hinv1
            refine fin _ h1 h3 h4 (by simp [hk]) ?_
            intro q' p' st
            have := step_inv st
            simp only [hk] at this
            obtain ⟨_, _, _, rfl, rfl⟩ := this
            exact h2
          · rename_i hc
            simp only [Prod.mk.injEq, true_and] at hr
            subst hr
            refine fin _ hinv1 (Mono.refl _) (Nat.le_refl _) (by simp [hk]) ?_
            intro q' p' st
            have := step_inv st
            simp only [hk] at this
            exact absurd ⟨this.1, this.2.1, this.2.2.1⟩ hc
        · -- fail
          rename_i hk
          simp only [Prod.mk.injEq, true_and] at hr
          subst hr
          refine fin _ hinv1 (Mono.refl _) (Nat.le_refl _) (by simp [hk]) ?_
          intro q' p' st
          have := step_inv st
          simp only [hk] at this

/-- a stack-free invariant makes the pruned set closed under `Step` and free of match states at offset `e` -/
theorem closedE_no_reach {c : BTCtx} {e : Nat} {vis : Array Bool} (hinv : InvE c e vis (fun _ _ => False))
    {a b : Nat × Nat} (hs : Steps c.N c.h a b) (hp : Pruned c vis a.1 a.2) (h1 : c.spanStart ≤ a.2)
    (h2 : a.2 ≤ c.h.size) : ¬ (c.N.get b.1 = .mtch ∧ b.1 < c.N.states.size ∧ b.2 = e) := by
  induction hs with
  | refl x =>
    intro ⟨hm, hlt, he⟩
    cases hp with
    | inl h => omega
    | inr h => exact (hinv _ _ hlt h1 h2 h (fun f => f)).1 hm he
  | @cons x y z st _ ih =>
    obtain ⟨q, p⟩ := x
    obtain ⟨q', p'⟩ := y
    have hpl := step_pos_le st h2
    cases hp with
    | inl h =>
      have := step_inv st
      simp only [get_oob c.N h] at this
    | inr h =>
      have hq : q < c.N.states.size := by
        cases Nat.lt_or_ge q c.N.states.size with
        | inl h => exact h
        | inr h' =>
          have := step_inv st
          simp only [get_oob c.N h'] at this
      exact ih ((hinv _ _ hq h1 h2 h (fun f => f)).2 _ _ st) (by simp only; omega) hpl.2

theorem prunedE_no_reach {c : BTCtx} {e : Nat} {vis : Array Bool} (hinv : InvE c e vis (fun _ _ => False)) {q p : Nat}
    (hp : Pruned c vis q p) (h1 : c.spanStart ≤ p) (h2 : p ≤ c.h.size) : ¬ Reaches c.N c.h q p e := by
  intro ⟨m, hs, hm, hlt⟩
  exact closedE_no_reach hinv hs hp h1 h2 ⟨hm, hlt, rfl⟩

theorem freshVis_invE (c : BTCtx) (e : Nat) : InvE c e (freshVis c.N c.h) (fun _ _ => False) := by
  intro q p hq _ hp hm
  rw [freshVis_getD c.N c.h (idx_lt c hq hp)] at hm
  cases hm

/-! ### `acceptsSpan` -/

theorem acceptsSpan_sound (N : NFA) (h : Bytes) (s e : Nat) (hr : acceptsSpan N h s e = true) : Accepts N h s e := by
  unfold acceptsSpan at hr
  exact btSpan_sound { N := N, h := h, spanStart := 0 } e _ _ _ _ _ (Prod.ext hr rfl)

theorem acceptsSpan_complete (N : NFA) (h : Bytes) (s e : Nat) (hs : s ≤ h.size) (ha : Accepts N h s e) :
    acceptsSpan N h s e = true := by
  cases hb : acceptsSpan N h s e with
  | true => rfl
  | false =>
    unfold acceptsSpan at hb
    have := btSpan_false { N := N, h := h, spanStart := 0 } e (btFuel N h) s N.startAnchored (freshVis N h) _
      (fun _ _ => False) (Prod.ext hb rfl) (freshVis_fuel N h) (Nat.zero_le _) (freshVis_invE _ e)
    exact absurd ha (prunedE_no_reach this.1 this.2.1 (Nat.zero_le _) hs)

/-- `acceptsSpan` decides `Accepts`.  The side condition `s ≤ h.size` is needed: the visited table has
    `numStates * (h.size + 1)` entries, a start offset past the end of the input indexes outside it and the search answers
    `false` at once, while `Accepts N h s s` holds for any `s` when the start state is (or reaches by ε-moves) a match
    state (`acceptsSpan_needs_start_le` below).  Nothing is needed on `e`: `Accepts` forces `s ≤ e ≤ h.size`
    (`accepts_span_le`). -/
theorem acceptsSpan_iff (N : NFA) (h : Bytes) (s e : Nat) (hs : s ≤ h.size) :
    acceptsSpan N h s e = true ↔ Accepts N h s e :=
  ⟨acceptsSpan_sound N h s e, acceptsSpan_complete N h s e hs⟩

theorem accepts_span_le {N : NFA} {h : Bytes} {s e : Nat} (hs : s ≤ h.size) (ha : Accepts N h s e) :
    s ≤ e ∧ e ≤ h.size := reaches_pos_le ha hs

/-- the side condition of `acceptsSpan_iff` cannot be dropped -/
theorem acceptsSpan_needs_start_le :
    Accepts { states := #[.mtch], startAnchored := 0, startUnanchored := 0 } #[] 1 1 ∧
    acceptsSpan { states := #[.mtch], startAnchored := 0, startUnanchored := 0 } #[] 1 1 = false :=
  ⟨⟨0, Steps.refl _, rfl, by decide⟩, by decide⟩

/-! ### `walkSpan` -/

/-- whatever the depth-bounded walk answers is right.  No hypothesis is needed: `Step` takes the FIRST matching transition
    of a `sparse` state (`firstTrans`), exactly as the walk does, so no disjointness of sparse ranges is involved; a match
    state with an index outside the state array cannot occur (`NFA.get` yields `fail` there), the walk checks it anyway. -/
theorem walkSpan_sound (N : NFA) (h : Bytes) (e fuel pos q : Nat) (b : Bool)
    (hr : walkSpan N h e fuel pos q = some b) : b = true ↔ Reaches N h q pos e := by
  induction fuel generalizing pos q b with
  | zero => simp [walkSpan] at hr
  | succ fuel ih =>
    rw [walkSpan] at hr
    split at hr
    · -- mtch
      rename_i hk
      simp only [Option.some.injEq] at hr
      subst hr
      rw [reaches_mtch hk]
      simp
    · -- byteRange
      rename_i lo hi nx hk
      rw [reaches_step (by simp [hk])]
      split at hr
      · rename_i hc
        rw [ih _ _ _ hr]
        constructor
        · intro hre
          exact ⟨_, _, Step.byteRange hk hc.1 hc.2.1 hc.2.2, hre⟩
        · intro ⟨q', i', st, hre⟩
          have := step_inv st
          simp only [hk] at this
          obtain ⟨_, _, _, rfl, rfl⟩ := this
          exact hre
      · rename_i hc
        simp only [Option.some.injEq] at hr
        subst hr
        simp only [Bool.false_eq_true, false_iff]
        intro ⟨q', i', st, _⟩
        have := step_inv st
        simp only [hk] at this
        exact hc ⟨this.1, this.2.1, this.2.2.1⟩
    · -- sparse
      rename_i ts hk
      rw [reaches_step (by simp [hk])]
      split at hr
      · rename_i hc
        simp only [Option.some.injEq] at hr
        subst hr
        simp only [Bool.false_eq_true, false_iff]
        intro ⟨q', i', st, _⟩
        have := step_inv st
        simp only [hk] at this
        omega
      · rename_i hc
        split at hr
        · rename_i nx hft
          rw [ih _ _ _ hr]
          constructor
          · intro hre
            exact ⟨_, _, Step.sparse hk (by omega) hft, hre⟩
          · intro ⟨q', i', st, hre⟩
            have := step_inv st
            simp only [hk] at this
            obtain ⟨_, h5, rfl⟩ := this
            rw [hft] at h5
            cases h5
            exact hre
        · rename_i hft
          simp only [Option.some.injEq] at hr
          subst hr
          simp only [Bool.false_eq_true, false_iff]
          intro ⟨q', i', st, _⟩
          have := step_inv st
          simp only [hk] at this
          rw [hft] at this
          exact nomatch this.2.1
    · -- split
      rename_i l r hk
      rw [reaches_step (by simp [hk])]
      split at hr
      · rename_i hl
        simp only [Option.some.injEq] at hr
        subst hr
        simp only [true_iff]
        exact ⟨_, _, Step.splitL hk, (ih _ _ _ hl).mp rfl⟩
      · rename_i hl
        have hnl : ¬ Reaches N h l pos e := fun hre => by
          have := (ih _ _ _ hl).mpr hre
          cases this
        rw [ih _ _ _ hr]
        constructor
        · intro hre
          exact ⟨_, _, Step.splitR hk, hre⟩
        · intro ⟨q', i', st, hre⟩
          have := step_inv st
          simp only [hk] at this
          obtain ⟨h5, rfl⟩ := this
          cases h5 with
          | inl h5 => subst h5; exact absurd hre hnl
          | inr h5 => subst h5; exact hre
      · simp at hr
    · -- eps
      rename_i nx hk
      rw [reaches_step (by simp [hk]), ih _ _ _ hr]
      constructor
      · intro hre
        exact ⟨_, _, Step.eps hk, hre⟩
      · intro ⟨q', i', st, hre⟩
        have := step_inv st
        simp only [hk] at this
        obtain ⟨rfl, rfl⟩ := this
        exact hre
    · -- cap
      rename_i ci cs nx hk
      rw [reaches_step (by simp [hk]), ih _ _ _ hr]
      constructor
      · intro hre
        exact ⟨_, _, Step.cap hk, hre⟩
      · intro ⟨q', i', st, hre⟩
        have := step_inv st
        simp only [hk] at this
        obtain ⟨rfl, rfl⟩ := this
        exact hre
    · -- look
      rename_i k nx hk
      rw [reaches_step (by simp [hk])]
      split at hr
      · rename_i hc
        rw [ih _ _ _ hr]
        constructor
        · intro hre
          exact ⟨_, _, Step.look hk hc, hre⟩
        · intro ⟨q', i', st, hre⟩
          have := step_inv st
          simp only [hk] at this
          obtain ⟨_, rfl, rfl⟩ := this
          exact hre
      · rename_i hc
        simp only [Option.some.injEq] at hr
        subst hr
        simp only [Bool.false_eq_true, false_iff]
        intro ⟨q', i', st, _⟩
        have := step_inv st
        simp only [hk] at this
        exact hc this.1
    · -- runeAny
      rename_i nx hk
      rw [reaches_step (by simp [hk])]
      split at hr
      · rename_i hc
        rw [ih _ _ _ hr]
        constructor
        · intro hre
          exact ⟨_, _, Step.runeAny hk hc.1 hc.2, hre⟩
        · intro ⟨q', i', st, hre⟩
          have := step_inv st
          simp only [hk] at this
          obtain ⟨_, _, rfl, rfl⟩ := this
          exact hre
      · rename_i hc
        simp only [Option.some.injEq] at hr
        subst hr
        simp only [Bool.false_eq_true, false_iff]
        intro ⟨q', i', st, _⟩
        have := step_inv st
        simp only [hk] at this
        exact hc ⟨this.1, this.2.1⟩
    · -- runeAnyNotNL
      rename_i nx hk
      rw [reaches_step (by simp [hk])]
      split at hr
      · rename_i hc
        rw [ih _ _ _ hr]
        constructor
        · intro hre
          exact ⟨_, _, Step.runeAnyNotNL hk hc.1 hc.2.1 hc.2.2, hre⟩
        · intro ⟨q', i', st, hre⟩
          have := step_inv st
          simp only [hk] at this
          obtain ⟨_, _, _, rfl, rfl⟩ := this
          exact hre
      · rename_i hc
        simp only [Option.some.injEq] at hr
        subst hr
        simp only [Bool.false_eq_true, false_iff]
        intro ⟨q', i', st, _⟩
        have := step_inv st
        simp only [hk] at this
        exact hc ⟨this.1, this.2.1, this.2.2.1⟩
    · -- fail
      rename_i hk
      simp only [Option.some.injEq] at hr
      subst hr
      rw [reaches_step (by simp [hk])]
      simp only [Bool.false_eq_true, false_iff]
      intro ⟨q', i', st, _⟩
      have := step_inv st
      simp only [hk] at this

theorem walkSpan_true (N : NFA) (h : Bytes) (e fuel pos q : Nat) (hr : walkSpan N h e fuel pos q = some true) :
    Reaches N h q pos e := (walkSpan_sound N h e fuel pos q true hr).mp rfl

theorem walkSpan_false (N : NFA) (h : Bytes) (e fuel pos q : Nat) (hr : walkSpan N h e fuel pos q = some false) :
    ¬ Reaches N h q pos e := fun hre => by
  have := (walkSpan_sound N h e fuel pos q false hr).mpr hre
  cases this

/-! ### `accWhole` -/

/-- the class checker's acceptance test decides whole-string acceptance from the anchored start, for every automaton and
    every byte string (no side condition: the start offset 0 is always inside the input) -/
theorem accWhole_iff (N : NFA) (bs : Bytes) : accWhole N bs = true ↔ Accepts N bs 0 bs.size := by
  unfold accWhole
  split
  · rename_i b hw
    exact walkSpan_sound N bs bs.size _ 0 N.startAnchored b hw
  · exact acceptsSpan_iff N bs 0 bs.size (Nat.zero_le _)

end Cx.Nfa
