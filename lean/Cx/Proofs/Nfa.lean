import Cx.Model.Nfa
/-
  Cx.Proofs.Nfa — the bounded backtracker against the path relation of the same NFA (C14/C01/C02/C07).
  Soundness: whatever it reports is an accepting path.  Completeness: the visited set only ever prunes
  configurations that were fully explored without reaching a match ("visited ⇒ failed or still on the stack"),
  also when the set is shared by all start positions (IsMatch).
-/
namespace Cx.Nfa
open Cx

theorem runeWidth_le (h : Bytes) (p : Nat) (hp : p ≤ h.size) : p + runeWidth h p ≤ h.size := by
  unfold runeWidth
  split
  · omega
  · simp only []
    split
    · omega
    · split
      · omega
      · split
        · omega
        · split <;> omega

theorem step_inv {N : NFA} {h : Bytes} {q p q' p' : Nat} (s : Step N h (q, p) (q', p')) :
    match N.get q with
    | .mtch => False
    | .fail => False
    | .byteRange lo hi nx => p < h.size ∧ lo ≤ h.at p ∧ h.at p ≤ hi ∧ q' = nx ∧ p' = p + 1
    | .sparse ts => p < h.size ∧ firstTrans (h.at p) ts = some q' ∧ p' = p + 1
    | .split l r => (q' = l ∨ q' = r) ∧ p' = p
    | .eps nx => q' = nx ∧ p' = p
    | .cap _ _ nx => q' = nx ∧ p' = p
    | .look k nx => lookOK k h p = true ∧ q' = nx ∧ p' = p
    | .runeAny nx => p < h.size ∧ 0 < runeWidth h p ∧ q' = nx ∧ p' = p + runeWidth h p
    | .runeAnyNotNL nx => p < h.size ∧ h.at p ≠ 10 ∧ 0 < runeWidth h p ∧ q' = nx ∧ p' = p + runeWidth h p := by
  cases s <;> simp [*]

/-- positions never run past the input -/
theorem step_pos_le {N : NFA} {h : Bytes} {q i q' i' : Nat} (s : Step N h (q, i) (q', i')) (hi : i ≤ h.size) :
    i ≤ i' ∧ i' ≤ h.size := by
  have hw := runeWidth_le h i hi
  cases s <;> omega

theorem steps_pos_le {N : NFA} {h : Bytes} {a b : Nat × Nat} (s : Steps N h a b) (hi : a.2 ≤ h.size) :
    a.2 ≤ b.2 ∧ b.2 ≤ h.size := by
  induction s with
  | refl c => exact ⟨Nat.le_refl _, hi⟩
  | cons st _ ih =>
    rename_i a b c
    obtain ⟨q, i⟩ := a
    obtain ⟨q', i'⟩ := b
    have := step_pos_le st hi
    have := ih this.2
    simp only at *
    omega

theorem reaches_pos_le {N : NFA} {h : Bytes} {q i j : Nat} (r : Reaches N h q i j) (hi : i ≤ h.size) :
    i ≤ j ∧ j ≤ h.size := by
  obtain ⟨m, hs, _, _⟩ := r
  exact steps_pos_le hs hi

theorem reaches_cons {N : NFA} {h : Bytes} {q i q' i' j : Nat} (s : Step N h (q, i) (q', i'))
    (r : Reaches N h q' i' j) : Reaches N h q i j := by
  obtain ⟨m, hs, hm, hlt⟩ := r
  exact ⟨m, Steps.cons s hs, hm, hlt⟩

theorem btFind_sound (c : BTCtx) (fuel pos q : Nat) (vis vis' : Array Bool) (e : Nat)
    (hr : btFind c fuel pos q vis = (some e, vis')) : Reaches c.N c.h q pos e := by
  induction fuel generalizing pos q vis vis' with
  | zero => simp [btFind] at hr
  | succ fuel ih =>
    rw [btFind] at hr
    split at hr
    · simp at hr
    · split at hr
      · simp at hr
      · rename_i hq hv
        simp only [] at hr
        split at hr
        · -- mtch
          rename_i hk
          simp only [Prod.mk.injEq, Option.some.injEq] at hr
          obtain ⟨rfl, _⟩ := hr
          exact ⟨q, Steps.refl _, hk, by omega⟩
        · -- byteRange
          rename_i lo hi nx hk
          split at hr
          · rename_i hc
            exact reaches_cons (Step.byteRange hk hc.1 hc.2.1 hc.2.2) (ih _ _ _ _ hr)
          · simp at hr
        · -- sparse
          rename_i ts hk
          split at hr
          · simp at hr
          · rename_i hp
            split at hr
            · rename_i nx hf
              exact reaches_cons (Step.sparse hk (by omega) hf) (ih _ _ _ _ hr)
            · simp at hr
        · -- split
          rename_i l r hk
          split at hr
          · rename_i e1 v1 h1
            simp only [Prod.mk.injEq, Option.some.injEq] at hr
            obtain ⟨rfl, _⟩ := hr
            exact reaches_cons (Step.splitL hk) (ih _ _ _ _ h1)
          · exact reaches_cons (Step.splitR hk) (ih _ _ _ _ hr)
        · rename_i nx hk
          exact reaches_cons (Step.eps hk) (ih _ _ _ _ hr)
        · rename_i idx st nx hk
          exact reaches_cons (Step.cap hk) (ih _ _ _ _ hr)
        · rename_i k nx hk
          split at hr
          · rename_i hl
            exact reaches_cons (Step.look hk hl) (ih _ _ _ _ hr)
          · simp at hr
        · rename_i nx hk
          split at hr
          · rename_i hc
            exact reaches_cons (Step.runeAny hk hc.1 hc.2) (ih _ _ _ _ hr)
          · simp at hr
        · rename_i nx hk
          split at hr
          · rename_i hc
            exact reaches_cons (Step.runeAnyNotNL hk hc.1 hc.2.1 hc.2.2) (ih _ _ _ _ hr)
          · simp at hr
        · simp at hr

theorem btMatch_eq_btFind (c : BTCtx) (fuel pos q : Nat) (vis : Array Bool) :
    btMatch c fuel pos q vis = ((btFind c fuel pos q vis).1.isSome, (btFind c fuel pos q vis).2) := by
  induction fuel generalizing pos q vis with
  | zero => simp [btMatch, btFind]
  | succ fuel ih =>
    rw [btMatch, btFind]
    split
    · simp
    · split
      · simp
      · simp only []
        split
        · simp
        · split
          · exact ih _ _ _
          · simp
        · split
          · simp
          · split
            · exact ih _ _ _
            · simp
        · rw [ih]
          rename_i l r hk
          cases hb : btFind c fuel pos l (vis.setIfInBounds (c.idx q pos) true) with
          | mk r1 v1 =>
            cases r1 with
            | none => simp [ih]
            | some e1 => simp
        · exact ih _ _ _
        · exact ih _ _ _
        · split
          · exact ih _ _ _
          · simp
        · split
          · exact ih _ _ _
          · simp
        · split
          · exact ih _ _ _
          · simp
        · simp

/-- soundness of the boolean search from a configuration, for every fuel and every visited set -/
theorem btMatch_sound (c : BTCtx) (fuel pos q : Nat) (vis vis' : Array Bool)
    (hr : btMatch c fuel pos q vis = (true, vis')) : ∃ j, Reaches c.N c.h q pos j := by
  rw [btMatch_eq_btFind] at hr
  cases hb : btFind c fuel pos q vis with
  | mk r v =>
    rw [hb] at hr
    cases r with
    | none => simp at hr
    | some e => exact ⟨e, btFind_sound c fuel pos q vis v e hb⟩

theorem btIsMatchFrom_sound (c : BTCtx) (fuel start : Nat) (vis : Array Bool)
    (hr : btIsMatchFrom c fuel start vis = true) :
    ∃ i j, i ≤ c.h.size ∧ Reaches c.N c.h c.N.startAnchored i j := by
  induction fuel generalizing start vis with
  | zero => simp [btIsMatchFrom] at hr
  | succ fuel ih =>
    rw [btIsMatchFrom] at hr
    split at hr
    · simp at hr
    · rename_i hs
      cases hb : btMatch c (btFuel c.N c.h) start c.N.startAnchored vis with
      | mk ok v =>
        rw [hb] at hr
        simp only [] at hr
        cases ok with
        | true =>
          obtain ⟨j, hj⟩ := btMatch_sound _ _ _ _ _ _ hb
          exact ⟨start, j, by omega, hj⟩
        | false =>
          simp only [Bool.false_eq_true, ↓reduceIte] at hr
          exact ih _ _ hr

/-- C14/C01 (backtracker, boolean): `true` only if some substring is accepted -/
theorem btIsMatch_sound (N : NFA) (h : Bytes) (hr : btIsMatch N h = true) :
    ∃ i j, i ≤ h.size ∧ Accepts N h i j :=
  btIsMatchFrom_sound { N := N, h := h, spanStart := 0 } _ _ _ hr

theorem btSearchFrom_sound (N : NFA) (h : Bytes) (at_ fuel start s e : Nat)
    (hr : btSearchFrom N h at_ fuel start = some (s, e)) :
    start ≤ s ∧ s ≤ h.size ∧ Accepts N h s e := by
  induction fuel generalizing start with
  | zero => simp [btSearchFrom] at hr
  | succ fuel ih =>
    rw [btSearchFrom] at hr
    split at hr
    · simp at hr
    · rename_i hs
      simp only [] at hr
      split at hr
      · rename_i e1 h1
        simp only [Option.some.injEq, Prod.mk.injEq] at hr
        obtain ⟨rfl, rfl⟩ := hr
        refine ⟨Nat.le_refl _, by omega, ?_⟩
        exact btFind_sound { N := N, h := h, spanStart := at_ } _ _ _ _ _ _ (Prod.ext h1 rfl)
      · obtain ⟨h1, h2, h3⟩ := ih _ hr
        exact ⟨by omega, h2, h3⟩

/-- C14/C02/C07 (backtracker, span): the reported span is an accepting path, starts at or after `at`,
    is ordered and lies inside the input -/
theorem btSearchAt_sound (N : NFA) (h : Bytes) (at_ s e : Nat) (hr : btSearchAt N h at_ = some (s, e)) :
    at_ ≤ s ∧ s ≤ e ∧ e ≤ h.size ∧ Accepts N h s e := by
  obtain ⟨h1, h2, h3⟩ := btSearchFrom_sound N h at_ _ _ s e hr
  have := reaches_pos_le h3 h2
  exact ⟨h1, this.1, this.2, h3⟩


theorem getD_false_lt {vis : Array Bool} {i : Nat} (hv : vis.getD i true = false) : i < vis.size := by
  rw [Array.getD_eq_getD_getElem?] at hv
  cases Nat.lt_or_ge i vis.size with
  | inl h => exact h
  | inr h => simp [Array.getElem?_eq_none h] at hv

theorem getD_set_self {vis : Array Bool} {i : Nat} (hv : vis.getD i true = false) :
    (vis.setIfInBounds i true).getD i true = true := by
  have := getD_false_lt hv
  simp [Array.getD_eq_getD_getElem?, this]

theorem getD_set_other {vis : Array Bool} {i j : Nat} (hne : i ≠ j) :
    (vis.setIfInBounds i true).getD j true = vis.getD j true := by
  simp [Array.getD_eq_getD_getElem?, hne]

theorem getD_set_mono {vis : Array Bool} {i j : Nat} (hv : vis.getD j true = true) :
    (vis.setIfInBounds i true).getD j true = true := by
  by_cases hij : i = j
  · subst hij
    simp [Array.getD_eq_getD_getElem?, Array.getElem?_setIfInBounds]
    split <;> simp
  · rw [getD_set_other hij]; exact hv

theorem count_set_lt {vis : Array Bool} {i : Nat} (hv : vis.getD i true = false) :
    (vis.setIfInBounds i true).count false + 1 = vis.count false := by
  have hlt := getD_false_lt hv
  have hvi : vis[i] = false := by
    simpa [Array.getD_eq_getD_getElem?, Array.getElem?_eq_getElem hlt] using hv
  have hpos : 0 < vis.count false := Array.count_pos_iff.mpr (hvi ▸ Array.getElem_mem hlt)
  simp only [Array.setIfInBounds, hlt, ↓reduceDIte]
  rw [Array.count_set]
  simp [hvi]
  omega


theorem idx_inj (c : BTCtx) {q p q2 p2 : Nat} (hq : q < c.N.states.size) (hq2 : q2 < c.N.states.size)
    (hp : c.spanStart ≤ p) (hp2 : c.spanStart ≤ p2) (he : c.idx q p = c.idx q2 p2) : q = q2 ∧ p = p2 := by
  unfold BTCtx.idx at he
  have hn : 0 < c.N.states.size := by omega
  have h1 := congrArg (· % c.N.states.size) he
  have h2 := congrArg (· / c.N.states.size) he
  simp only [Nat.mul_add_mod_self_right, Nat.mod_eq_of_lt hq, Nat.mod_eq_of_lt hq2] at h1
  simp only [Nat.mul_add_div hn, Nat.mul_comm _ c.N.states.size, Nat.div_eq_of_lt hq, Nat.div_eq_of_lt hq2] at h2
  omega

theorem idx_lt (c : BTCtx) {q p : Nat} (hq : q < c.N.states.size) (hp : p ≤ c.h.size) :
    c.idx q p < c.N.states.size * (c.h.size + 1) := by
  unfold BTCtx.idx
  have h1 : (p - c.spanStart) * c.N.states.size ≤ c.h.size * c.N.states.size :=
    Nat.mul_le_mul_right _ (by omega)
  rw [Nat.mul_add, Nat.mul_comm c.N.states.size c.h.size]
  omega

theorem get_oob (N : NFA) {q : Nat} (hq : N.states.size ≤ q) : N.get q = .fail := by
  simp [NFA.get, Array.getD_eq_getD_getElem?, Array.getElem?_eq_none hq]


/-- the call from `(q,p)` returns at once -/
def Pruned (c : BTCtx) (vis : Array Bool) (q p : Nat) : Prop :=
  c.N.states.size ≤ q ∨ vis.getD (c.idx q p) true = true

/-- every marked configuration that is not on the recursion stack `S` is not a match state and has only
    pruned successors -/
def Inv (c : BTCtx) (vis : Array Bool) (S : Nat → Nat → Prop) : Prop :=
  ∀ q p, q < c.N.states.size → c.spanStart ≤ p → p ≤ c.h.size → vis.getD (c.idx q p) true = true → ¬ S q p →
    c.N.get q ≠ .mtch ∧ ∀ q' p', Step c.N c.h (q, p) (q', p') → Pruned c vis q' p'

def Mono (vis vis' : Array Bool) : Prop := ∀ i, vis.getD i true = true → vis'.getD i true = true

theorem Mono.refl (vis : Array Bool) : Mono vis vis := fun _ h => h
theorem Mono.trans {a b d : Array Bool} (h1 : Mono a b) (h2 : Mono b d) : Mono a d := fun i h => h2 i (h1 i h)

theorem Pruned.mono {c : BTCtx} {vis vis' : Array Bool} {q p : Nat} (hm : Mono vis vis') (h : Pruned c vis q p) :
    Pruned c vis' q p := h.elim Or.inl (fun h => Or.inr (hm _ h))

/-- marking `(q,pos)` and pushing it on the stack keeps the invariant -/
theorem inv_push {c : BTCtx} {vis : Array Bool} {S : Nat → Nat → Prop} {q pos : Nat}
    (hinv : Inv c vis S) (hq : q < c.N.states.size) (hpos : c.spanStart ≤ pos) :
    Inv c (vis.setIfInBounds (c.idx q pos) true) (fun a b => S a b ∨ (a = q ∧ b = pos)) := by
  intro a b ha hb hb2 hm hns
  have hne : c.idx q pos ≠ c.idx a b := by
    intro he
    obtain ⟨h1, h2⟩ := idx_inj c hq ha hpos hb he
    exact hns (Or.inr ⟨h1.symm, h2.symm⟩)
  rw [getD_set_other hne] at hm
  obtain ⟨h1, h2⟩ := hinv a b ha hb hb2 hm (fun h => hns (Or.inl h))
  exact ⟨h1, fun q' p' st => (h2 q' p' st).mono (fun _ h => getD_set_mono h)⟩

/-- popping `(q,pos)` once all its successors are pruned -/
theorem inv_pop {c : BTCtx} {vis' : Array Bool} {S : Nat → Nat → Prop} {q pos : Nat}
    (hinv : Inv c vis' (fun a b => S a b ∨ (a = q ∧ b = pos)))
    (hm : c.N.get q ≠ .mtch) (hs : ∀ q' p', Step c.N c.h (q, pos) (q', p') → Pruned c vis' q' p') :
    Inv c vis' S := by
  intro a b ha hb hb2 hmk hns
  by_cases he : a = q ∧ b = pos
  · obtain ⟨rfl, rfl⟩ := he
    exact ⟨hm, hs⟩
  · exact hinv a b ha hb hb2 hmk (fun h => h.elim hns he)

theorem btFind_none (c : BTCtx) (fuel pos q : Nat) (vis vis' : Array Bool) (S : Nat → Nat → Prop)
    (hr : btFind c fuel pos q vis = (none, vis')) (hf : vis.count false < fuel) (hpos : c.spanStart ≤ pos)
    (hinv : Inv c vis S) :
    Inv c vis' S ∧ Pruned c vis' q pos ∧ Mono vis vis' ∧ vis'.count false ≤ vis.count false := by
  induction fuel generalizing pos q vis vis' S with
  | zero => omega
  | succ fuel ih =>
    rw [btFind] at hr
    split at hr
    · rename_i hq
      simp only [Prod.mk.injEq, true_and] at hr
      subst hr
      exact ⟨hinv, Or.inl hq, Mono.refl _, Nat.le_refl _⟩
    · split at hr
      · rename_i hq hv
        simp only [Prod.mk.injEq, true_and] at hr
        subst hr
        exact ⟨hinv, Or.inr hv, Mono.refl _, Nat.le_refl _⟩
      · rename_i hq hv
        have hq : q < c.N.states.size := by omega
        have hv : vis.getD (c.idx q pos) true = false := by simpa using hv
        have hself := getD_set_self hv
        have hcnt := count_set_lt hv
        have hm1 : Mono vis (vis.setIfInBounds (c.idx q pos) true) := fun _ h => getD_set_mono h
        have hinv1 := inv_push hinv hq hpos
        have hf1 : (vis.setIfInBounds (c.idx q pos) true).count false < fuel := by omega
        -- closing argument shared by all cases
        have fin : ∀ v, Inv c v (fun a b => S a b ∨ (a = q ∧ b = pos)) →
            Mono (vis.setIfInBounds (c.idx q pos) true) v →
            v.count false ≤ (vis.setIfInBounds (c.idx q pos) true).count false →
            c.N.get q ≠ .mtch → (∀ q' p', Step c.N c.h (q, pos) (q', p') → Pruned c v q' p') →
            Inv c v S ∧ Pruned c v q pos ∧ Mono vis v ∧ v.count false ≤ vis.count false := by
          intro v hi hmv hcv hnm hsucc
          exact ⟨inv_pop hi hnm hsucc, Or.inr (hmv _ hself), hm1.trans hmv, by omega⟩
        simp only [] at hr
        split at hr
        · simp at hr
        · -- byteRange
          rename_i lo hi nx hk
          split at hr
          · obtain ⟨h1, h2, h3, h4⟩ := ih _ _ _ _ _ hr hf1 (by omega) hinv1
            refine fin _ h1 h3 h4 (by simp [hk]) ?_
            intro q' p' st
            have := step_inv st
            simp only [hk] at this
            obtain ⟨_, _, _, rfl, rfl⟩ := this
            exact h2
          · rename_i hc
            simp only [Prod.mk.injEq, true_and] at hr
            subst hr
            refine fin _ hinv1 (Mono.refl _) (Nat.le_refl _) (by simp [hk]) ?_
            intro q' p' st
            have := step_inv st
            simp only [hk] at this
            exact absurd ⟨this.1, this.2.1, this.2.2.1⟩ hc
        · -- sparse
          rename_i ts hk
          split at hr
          · rename_i hc
            simp only [Prod.mk.injEq, true_and] at hr
            subst hr
            refine fin _ hinv1 (Mono.refl _) (Nat.le_refl _) (by simp [hk]) ?_
            intro q' p' st
            have := step_inv st
            simp only [hk] at this
            omega
          · split at hr
            · rename_i nx hft
              obtain ⟨h1, h2, h3, h4⟩ := ih _ _ _ _ _ hr hf1 (by omega) hinv1
              refine fin _ h1 h3 h4 (by simp [hk]) ?_
              intro q' p' st
              have := step_inv st
              simp only [hk] at this
              obtain ⟨_, h5, rfl⟩ := this
              rw [hft] at h5
              cases h5
              exact h2
            · rename_i hft
              simp only [Prod.mk.injEq, true_and] at hr
              subst hr
              refine fin _ hinv1 (Mono.refl _) (Nat.le_refl _) (by simp [hk]) ?_
              intro q' p' st
              have := step_inv st
              simp only [hk] at this
              rw [hft] at this
              exact nomatch this.2.1
        · -- split
          rename_i l r hk
          split at hr
          · simp at hr
          · rename_i v1 hl
            obtain ⟨h1, h2, h3, h4⟩ := ih _ _ _ _ _ hl hf1 hpos hinv1
            obtain ⟨g1, g2, g3, g4⟩ := ih _ _ _ _ _ hr (by omega) hpos h1
            refine fin _ g1 (h3.trans g3) (by omega) (by simp [hk]) ?_
            intro q' p' st
            have := step_inv st
            simp only [hk] at this
            obtain ⟨h5, rfl⟩ := this
            cases h5 with
            | inl h5 => subst h5; exact h2.mono g3
            | inr h5 => subst h5; exact g2
        · -- eps
          rename_i nx hk
          obtain ⟨h1, h2, h3, h4⟩ := ih _ _ _ _ _ hr hf1 hpos hinv1
          refine fin _ h1 h3 h4 (by simp [hk]) ?_
          intro q' p' st
          have := step_inv st
          simp only [hk] at this
          obtain ⟨rfl, rfl⟩ := this
          exact h2
        · -- cap
          rename_i ci cs nx hk
          obtain ⟨h1, h2, h3, h4⟩ := ih _ _ _ _ _ hr hf1 hpos hinv1
          refine fin _ h1 h3 h4 (by simp [hk]) ?_
          intro q' p' st
          have := step_inv st
          simp only [hk] at this
          obtain ⟨rfl, rfl⟩ := this
          exact h2
        · -- look
          rename_i k nx hk
          split at hr
          · obtain ⟨h1, h2, h3, h4⟩ := ih _ _ _ _ _ hr hf1 hpos hinv1
            refine fin _ h1 h3 h4 (by simp [hk]) ?_
            intro q' p' st
            have := step_inv st
            simp only [hk] at this
            obtain ⟨_, rfl, rfl⟩ := this
            exact h2
          · rename_i hc
            simp only [Prod.mk.injEq, true_and] at hr
            subst hr
            refine fin _ hinv1 (Mono.refl _) (Nat.le_refl _) (by simp [hk]) ?_
            intro q' p' st
            have := step_inv st
            simp only [hk] at this
            exact absurd this.1 hc
        · -- runeAny
          rename_i nx hk
          split at hr
          · obtain ⟨h1, h2, h3, h4⟩ := ih _ _ _ _ _ hr hf1 (by omega) hinv1
            refine fin _ h1 h3 h4 (by simp [hk]) ?_
            intro q' p' st
            have := step_inv st
            simp only [hk] at this
            obtain ⟨_, _, rfl, rfl⟩ := this
            exact h2
          · rename_i hc
            simp only [Prod.mk.injEq, true_and] at hr
            subst hr
            refine fin _ hinv1 (Mono.refl _) (Nat.le_refl _) (by simp [hk]) ?_
            intro q' p' st
            have := step_inv st
            simp only [hk] at this
            exact absurd ⟨this.1, this.2.1⟩ hc
        · -- runeAnyNotNL
          rename_i nx hk
          split at hr
          · obtain ⟨h1, h2, h3, h4⟩ := ih _ _ _ _ _ hr hf1 (by omega) hinv1
            refine fin _ h1 h3 h4 (by simp [hk]) ?_
            intro q' p' st
            have := step_inv st
            simp only [hk] at this
            obtain ⟨_, _, _, rfl, rfl⟩ := this
            exact h2
          · rename_i hc
            simp only [Prod.mk.injEq, true_and] at hr
            subst hr
            refine fin _ hinv1 (Mono.refl _) (Nat.le_refl _) (by simp [hk]) ?_
            intro q' p' st
            have := step_inv st
            simp only [hk] at this
            exact absurd ⟨this.1, this.2.1, this.2.2.1⟩ hc
        · -- fail
          rename_i hk
          simp only [Prod.mk.injEq, true_and] at hr
          subst hr
          refine fin _ hinv1 (Mono.refl _) (Nat.le_refl _) (by simp [hk]) ?_
          intro q' p' st
          have := step_inv st
          simp only [hk] at this

/-- a stack-free invariant makes the pruned set closed under `Step` and free of match states -/
theorem closed_no_reach {c : BTCtx} {vis : Array Bool} (hinv : Inv c vis (fun _ _ => False))
    {a b : Nat × Nat} (hs : Steps c.N c.h a b) (hp : Pruned c vis a.1 a.2) (h1 : c.spanStart ≤ a.2)
    (h2 : a.2 ≤ c.h.size) : ¬ (c.N.get b.1 = .mtch ∧ b.1 < c.N.states.size) := by
  induction hs with
  | refl x =>
    intro ⟨hm, hlt⟩
    cases hp with
    | inl h => omega
    | inr h => exact (hinv _ _ hlt h1 h2 h (fun f => f)).1 hm
  | @cons x y z st _ ih =>
    obtain ⟨q, p⟩ := x
    obtain ⟨q', p'⟩ := y
    have hpl := step_pos_le st h2
    cases hp with
    | inl h =>
      have := step_inv st
      simp only [get_oob c.N h] at this
    | inr h =>
      have hq : q < c.N.states.size := by
        cases Nat.lt_or_ge q c.N.states.size with
        | inl h => exact h
        | inr h' =>
          have := step_inv st
          simp only [get_oob c.N h'] at this
      exact ih ((hinv _ _ hq h1 h2 h (fun f => f)).2 _ _ st) (by simp only; omega) hpl.2

theorem pruned_no_reach {c : BTCtx} {vis : Array Bool} (hinv : Inv c vis (fun _ _ => False)) {q p : Nat}
    (hp : Pruned c vis q p) (h1 : c.spanStart ≤ p) (h2 : p ≤ c.h.size) : ¬ ∃ j, Reaches c.N c.h q p j := by
  intro ⟨j, m, hs, hm, hlt⟩
  exact closed_no_reach hinv hs hp h1 h2 ⟨hm, hlt⟩

theorem freshVis_getD (N : NFA) (h : Bytes) {i : Nat} (hi : i < N.states.size * (h.size + 1)) :
    (freshVis N h).getD i true = false := by
  simp [freshVis, Array.getD_eq_getD_getElem?, hi]

theorem freshVis_count (N : NFA) (h : Bytes) : (freshVis N h).count false = N.states.size * (h.size + 1) := by
  simp [freshVis]

theorem freshVis_inv (c : BTCtx) : Inv c (freshVis c.N c.h) (fun _ _ => False) := by
  intro q p hq _ hp hm
  rw [freshVis_getD c.N c.h (idx_lt c hq hp)] at hm
  cases hm

theorem freshVis_fuel (N : NFA) (h : Bytes) : (freshVis N h).count false < btFuel N h := by
  rw [freshVis_count, btFuel, Nat.mul_add, Nat.mul_add]
  omega

/-- completeness from a fresh visited set: `none` means no accepting path from that configuration -/
theorem btFind_complete (N : NFA) (h : Bytes) (at_ start : Nat) (hs : at_ ≤ start) (hl : start ≤ h.size)
    (hr : (btFind { N := N, h := h, spanStart := at_ } (btFuel N h) start N.startAnchored (freshVis N h)).1 = none) :
    ¬ ∃ j, Accepts N h start j := by
  have hb := btFind_none { N := N, h := h, spanStart := at_ } (btFuel N h) start N.startAnchored (freshVis N h) _
    (fun _ _ => False) (Prod.ext hr rfl) (freshVis_fuel N h) hs (freshVis_inv _)
  exact pruned_no_reach hb.1 hb.2.1 hs hl

theorem btSearchFrom_leftmost (N : NFA) (h : Bytes) (at_ fuel start : Nat) (hs : at_ ≤ start)
    (hf : h.size + 1 ≤ start + fuel) :
    (∀ s e, btSearchFrom N h at_ fuel start = some (s, e) → ∀ i j, start ≤ i → i < s → ¬ Accepts N h i j) ∧
    (btSearchFrom N h at_ fuel start = none → ∀ i j, start ≤ i → i ≤ h.size → ¬ Accepts N h i j) := by
  induction fuel generalizing start with
  | zero =>
    refine ⟨?_, ?_⟩
    · intro s e hr; simp [btSearchFrom] at hr
    · intro _ i j h1 h2; omega
  | succ fuel ih =>
    rw [btSearchFrom]
    split
    · refine ⟨?_, ?_⟩
      · intro s e hr; simp at hr
      · intro _ i j h1 h2; omega
    · rename_i hle
      simp only []
      split
      · rename_i e1 h1
        refine ⟨?_, ?_⟩
        · intro s e hr i j h2 h3
          simp only [Option.some.injEq, Prod.mk.injEq] at hr
          omega
        · intro hr; simp at hr
      · rename_i h1
        have hno := btFind_complete N h at_ start hs (by omega) h1
        obtain ⟨ih1, ih2⟩ := ih (start + 1) (by omega) (by omega)
        refine ⟨?_, ?_⟩
        · intro s e hr i j h2 h3
          by_cases he : i = start
          · subst he; exact fun ha => hno ⟨j, ha⟩
          · exact ih1 s e hr i j (by omega) h3
        · intro hr i j h2 h3
          by_cases he : i = start
          · subst he; exact fun ha => hno ⟨j, ha⟩
          · exact ih2 hr i j (by omega) h3

/-- C02 (backtracker): the reported start is the leftmost start with a match, and `none` means there is none -/
theorem btSearchAt_leftmost (N : NFA) (h : Bytes) (at_ : Nat) (hat : at_ ≤ h.size) :
    (∀ s e, btSearchAt N h at_ = some (s, e) → ∀ i j, at_ ≤ i → i < s → ¬ Accepts N h i j) ∧
    (btSearchAt N h at_ = none → ∀ i j, at_ ≤ i → i ≤ h.size → ¬ Accepts N h i j) :=
  btSearchFrom_leftmost N h at_ _ at_ (Nat.le_refl _) (by omega)

theorem btIsMatchFrom_complete (c : BTCtx) (hc : c.spanStart = 0) (fuel start : Nat) (vis : Array Bool)
    (i j : Nat) (hsi : start ≤ i) (hi : i ≤ c.h.size) (ha : Reaches c.N c.h c.N.startAnchored i j)
    (hf : c.h.size + 1 ≤ start + fuel) (hinv : Inv c vis (fun _ _ => False))
    (hcnt : vis.count false < btFuel c.N c.h) : btIsMatchFrom c fuel start vis = true := by
  induction fuel generalizing start vis with
  | zero => omega
  | succ fuel ih =>
    rw [btIsMatchFrom]
    split
    · omega
    · rw [btMatch_eq_btFind]
      simp only []
      cases hb : btFind c (btFuel c.N c.h) start c.N.startAnchored vis with
      | mk r v =>
        cases r with
        | some e => simp
        | none =>
          simp only [Option.isSome_none, Bool.false_eq_true, ↓reduceIte]
          obtain ⟨h1, h2, h3, h4⟩ := btFind_none c _ _ _ _ _ _ hb hcnt (by omega) hinv
          by_cases he : start = i
          · subst he
            exact absurd ⟨j, ha⟩ (pruned_no_reach h1 h2 (by omega) hi)
          · exact ih (start + 1) v (by omega) (by omega) h1 (by omega)

/-- C01/C14 (backtracker, boolean), completeness with the visited set SHARED by all start positions -/
theorem btIsMatch_complete (N : NFA) (h : Bytes) (i j : Nat) (hi : i ≤ h.size) (ha : Accepts N h i j) :
    btIsMatch N h = true :=
  btIsMatchFrom_complete { N := N, h := h, spanStart := 0 } rfl (h.size + 1) 0 (freshVis N h) i j
    (Nat.zero_le _) hi ha (by simp) (freshVis_inv _) (freshVis_fuel N h)

end Cx.Nfa
