import Cx.Model.Nfa
/-
  Cx.Proofs.Nfa — the bounded backtracker against the path relation of the same NFA (C14/C01/C02/C07).
  Soundness: whatever it reports is an accepting path.  Completeness: the visited set only ever prunes
  configurations that were fully explored without reaching a match ("visited ⇒ failed or still on the stack"),
  also when the set is shared by all start positions (IsMatch).
-/
namespace Cx.Nfa
open Cx

/-- positions never run past the input -/
theorem step_pos_le {N : NFA} {h : Bytes} {q i q' i' : Nat} (s : Step N h (q, i) (q', i')) (hi : i ≤ h.size) :
    i ≤ i' ∧ i' ≤ h.size := by
  sorry

theorem reaches_pos_le {N : NFA} {h : Bytes} {q i j : Nat} (r : Reaches N h q i j) (hi : i ≤ h.size) :
    i ≤ j ∧ j ≤ h.size := by
  sorry

/-- soundness of the boolean search from a configuration, for every fuel and every visited set -/
theorem btMatch_sound (c : BTCtx) (fuel pos q : Nat) (vis vis' : Array Bool)
    (hr : btMatch c fuel pos q vis = (true, vis')) : ∃ j, Reaches c.N c.h q pos j := by
  sorry

theorem btFind_sound (c : BTCtx) (fuel pos q : Nat) (vis vis' : Array Bool) (e : Nat)
    (hr : btFind c fuel pos q vis = (some e, vis')) : Reaches c.N c.h q pos e := by
  sorry

/-- C14/C01 (backtracker, boolean): `true` only if some substring is accepted -/
theorem btIsMatch_sound (N : NFA) (h : Bytes) (hr : btIsMatch N h = true) :
    ∃ i j, i ≤ h.size ∧ Accepts N h i j := by
  sorry

/-- C14/C02/C07 (backtracker, span): the reported span is an accepting path, starts at or after `at`,
    is ordered and lies inside the input -/
theorem btSearchAt_sound (N : NFA) (h : Bytes) (at_ s e : Nat) (hr : btSearchAt N h at_ = some (s, e)) :
    at_ ≤ s ∧ s ≤ e ∧ e ≤ h.size ∧ Accepts N h s e := by
  sorry

/-- completeness from a fresh visited set: `none` means no accepting path from that configuration -/
theorem btFind_complete (N : NFA) (h : Bytes) (at_ start : Nat) (hs : at_ ≤ start) (hl : start ≤ h.size)
    (hr : (btFind { N := N, h := h, spanStart := at_ } (btFuel N h) start N.startAnchored (freshVis N h)).1 = none) :
    ¬ ∃ j, Accepts N h start j := by
  sorry

/-- C02 (backtracker): the reported start is the leftmost start with a match, and `none` means there is none -/
theorem btSearchAt_leftmost (N : NFA) (h : Bytes) (at_ : Nat) (hat : at_ ≤ h.size) :
    (∀ s e, btSearchAt N h at_ = some (s, e) → ∀ i j, at_ ≤ i → i < s → ¬ Accepts N h i j) ∧
    (btSearchAt N h at_ = none → ∀ i j, at_ ≤ i → i ≤ h.size → ¬ Accepts N h i j) := by
  sorry

/-- C01/C14 (backtracker, boolean), completeness with the visited set SHARED by all start positions -/
theorem btIsMatch_complete (N : NFA) (h : Bytes) (i j : Nat) (hi : i ≤ h.size) (ha : Accepts N h i j) :
    btIsMatch N h = true := by
  sorry

end Cx.Nfa
