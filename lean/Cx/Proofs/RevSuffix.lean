import Cx.Model.RevSuffix
/-
  Cx.Proofs.RevSuffix — the reverse-suffix strategy (`meta/reverse_suffix.go`, model `Cx.Model.RevSuffix`) returns exactly
  what the reference search returns, RELATIVE to the contracts of its components.

  `Mt h s e` is an abstract match relation ("the pattern matches `h[s:e)` in the context of `h`"; instantiated with
  `Accepts N` in `Cx.Proofs.RevSuffixInst`), `ref h at` an abstract reference search (instantiated with `btSearchAt N`).

  Component contracts (`Spec`, all for the haystack at hand):
    RefSpec   ref is sound, its start is the leftmost start of any match from `at`, `none` means no match      (btSearchAt_sound/_leftmost)
    PfSpec    `pfFind h st` = the least occurrence of the suffix literal at or after `st`                       (prefilter.Find)
    necessity every match ends with the suffix literal                                          (LitCheck: checkSuffix_sound)
    revL_*    `revLimited h lo e m` = found s: s is the least start ≥ lo of a match ending at e; none: there is no such
              start; cutOff: no information (the caller re-runs the query with the forward DFA)       (SearchReverseLimited)
    revF_some `revFull h lo e` = some s: the same; none: no information (the caller runs the Pike VM)        (SearchReverse)
    fwd       `fwdEnd h at` = END of `ref h at`                                       (SearchAt; C14_dfa_search_eq_reference…)
    pike      `pike h at` = `ref h at`                                                     (C14_pike_search_eq_reference)
    lb_*      only if `lineBounded`: no match contains '\n' (what `!canMatchNewline(re)` must guarantee), and `ref` is a scan
              over start positions (`ref h at = some (s,e)`, `at ≤ a ≤ s` → `ref h a = some (s,e)`)

  Theorems:
    findIndicesAt_eq_ref   findIndicesAt O P h at = ref h at        (matchStartZero = false, at ≤ |h|)
    isMatch_eq_ref         isMatch O P h = (ref h 0).isSome
    dotStar_eq_ref         the byte-search shortcut for `.*literal` (matchStartZero = true), under `DotStarSpec`
    findIndicesAtT_fst / isMatchT_fst      the instrumented functions compute the same answers
    limited_chained        the windows of the SearchReverseLimited calls are consecutive and disjoint: minStart is monotone
    revCost_le             all reverse scans of one FindIndicesAt together read ≤ 2·(|h| - at) bytes; pfCalls ≤ |h| - at
    isMatch_revCost_le     all reverse scans of one IsMatch together read ≤ |h| bytes
  The cost theorems need next to nothing about the oracles (`pfFind h st = some p → st ≤ p`, `fwdEnd h a = some e → e ≤ |h|`).
-/
namespace Cx.RevSuffix
open Cx

/-! ### byte-search helpers -/

/-- `suf` occurs in `h` at offset `p` -/
def Occ (h suf : Bytes) (p : Nat) : Prop := p + suf.size ≤ h.size ∧ ∀ k, k < suf.size → h.at (p + k) = suf.at k

theorem occursAt_iff (h suf : Bytes) (p : Nat) : occursAt h suf p = true ↔ Occ h suf p := by
  unfold occursAt Occ
  simp only [Bool.and_eq_true, decide_eq_true_eq, List.all_eq_true, List.mem_range, beq_iff_eq]

theorem findFirst_some {p : Nat → Bool} : ∀ {n lo i : Nat}, findFirst p lo n = some i →
    lo ≤ i ∧ i < lo + n ∧ p i = true ∧ ∀ j, lo ≤ j → j < i → p j = false := by
  intro n
  induction n with
  | zero => intro lo i hf; simp [findFirst] at hf
  | succ n ih =>
    intro lo i hf
    rw [findFirst] at hf
    split at hf
    · rename_i hp
      cases hf
      exact ⟨Nat.le_refl _, by omega, hp, fun j h1 h2 => by omega⟩
    · rename_i hp
      obtain ⟨h1, h2, h3, h4⟩ := ih hf
      refine ⟨by omega, by omega, h3, ?_⟩
      intro j hj1 hj2
      by_cases hj : j = lo
      · subst hj; simpa using hp
      · exact h4 j (by omega) hj2

theorem findFirst_none {p : Nat → Bool} : ∀ {n lo : Nat}, findFirst p lo n = none →
    ∀ j, lo ≤ j → j < lo + n → p j = false := by
  intro n
  induction n with
  | zero => intro lo _ j h1 h2; omega
  | succ n ih =>
    intro lo hf j h1 h2
    rw [findFirst] at hf
    split at hf
    · cases hf
    · rename_i hp
      by_cases hj : j = lo
      · subst hj; simpa using hp
      · exact ih hf j (by omega) (by omega)

theorem findLast_some {p : Nat → Bool} {lo : Nat} : ∀ {n i : Nat}, findLast p lo n = some i →
    lo ≤ i ∧ i < lo + n ∧ p i = true ∧ ∀ j, i < j → j < lo + n → p j = false := by
  intro n
  induction n with
  | zero => intro i hf; simp [findLast] at hf
  | succ n ih =>
    intro i hf
    rw [findLast] at hf
    split at hf
    · rename_i hp
      cases hf
      exact ⟨by omega, by omega, hp, fun j h1 h2 => by omega⟩
    · rename_i hp
      obtain ⟨h1, h2, h3, h4⟩ := ih hf
      refine ⟨h1, by omega, h3, ?_⟩
      intro j hj1 hj2
      by_cases hj : j = lo + n
      · subst hj; simpa using hp
      · exact h4 j hj1 (by omega)

theorem findLast_none {p : Nat → Bool} {lo : Nat} : ∀ {n : Nat}, findLast p lo n = none →
    ∀ j, lo ≤ j → j < lo + n → p j = false := by
  intro n
  induction n with
  | zero => intro _ j h1 h2; omega
  | succ n ih =>
    intro hf j h1 h2
    rw [findLast] at hf
    split at hf
    · cases hf
    · rename_i hp
      by_cases hj : j = lo + n
      · subst hj; simpa using hp
      · exact ih hf j h1 (by omega)

/-- `lineStartBefore`: the position after the last '\n' of `h[at:pos)`, or `at` -/
theorem lineStartBefore_spec (h : Bytes) {at_ pos : Nat} (hap : at_ ≤ pos) :
    at_ ≤ lineStartBefore h at_ pos ∧ lineStartBefore h at_ pos ≤ pos ∧
    (∀ i, lineStartBefore h at_ pos ≤ i → i < pos → h.at i ≠ 10) ∧
    (lineStartBefore h at_ pos = at_ ∨ (at_ < lineStartBefore h at_ pos ∧ h.at (lineStartBefore h at_ pos - 1) = 10)) := by
  unfold lineStartBefore
  split
  · exact ⟨Nat.le_refl _, hap, fun i h1 h2 => by omega, Or.inl rfl⟩
  · rename_i hlt
    split
    · rename_i i hf
      obtain ⟨h1, h2, h3, h4⟩ := findLast_some hf
      refine ⟨by omega, by omega, ?_, Or.inr ⟨by omega, ?_⟩⟩
      · intro j hj1 hj2 hc
        have := h4 j (by omega) (by omega)
        simp [hc] at this
      · simpa using h3
    · rename_i hf
      refine ⟨Nat.le_refl _, hap, ?_, Or.inl rfl⟩
      intro j hj1 hj2 hc
      have := findLast_none hf j hj1 (by omega)
      simp [hc] at this

theorem refPfFind_some {suf h : Bytes} {st p : Nat} (hf : refPfFind suf h st = some p) :
    st ≤ p ∧ Occ h suf p ∧ ∀ q, st ≤ q → q < p → ¬ Occ h suf q := by
  obtain ⟨h1, _, h3, h4⟩ := findFirst_some hf
  refine ⟨h1, (occursAt_iff h suf p).mp h3, ?_⟩
  intro q hq1 hq2 ho
  have := h4 q hq1 hq2
  rw [(occursAt_iff h suf q).mpr ho] at this
  cases this

theorem refPfFind_none {suf h : Bytes} {st : Nat} (hf : refPfFind suf h st = none) :
    ∀ q, st ≤ q → ¬ Occ h suf q := by
  intro q hq ho
  have := findFirst_none hf q hq (by have := ho.1; omega)
  rw [(occursAt_iff h suf q).mpr ho] at this
  cases this

/-! ### component contracts -/

/-- the reference search: sound, leftmost start, complete -/
structure RefSpec (Mt : Bytes → Nat → Nat → Prop) (ref : Bytes → Nat → Option (Nat × Nat)) (h : Bytes) : Prop where
  ref_sound : ∀ a s e, a ≤ h.size → ref h a = some (s, e) → a ≤ s ∧ s ≤ h.size ∧ Mt h s e
  ref_leftmost : ∀ a s e, a ≤ h.size → ref h a = some (s, e) → ∀ s' e', a ≤ s' → Mt h s' e' → s ≤ s'
  ref_none : ∀ a, a ≤ h.size → ref h a = none → ∀ s e, a ≤ s → s ≤ h.size → ¬ Mt h s e

/-- `prefilter.Find(h, st)`: the least occurrence of the literal at or after `st` -/
structure PfSpec (O : Oracles) (P : Params) (h : Bytes) : Prop where
  suf_pos : 0 < P.suffix.size
  pf_some : ∀ st p, st ≤ h.size → O.pfFind h st = some p →
    st ≤ p ∧ Occ h P.suffix p ∧ ∀ q, st ≤ q → q < p → ¬ Occ h P.suffix q
  pf_none : ∀ st, st ≤ h.size → O.pfFind h st = none → ∀ q, st ≤ q → ¬ Occ h P.suffix q

/-- all component contracts -/
structure Spec (O : Oracles) (P : Params) (Mt : Bytes → Nat → Nat → Prop) (ref : Bytes → Nat → Option (Nat × Nat))
    (h : Bytes) : Prop extends RefSpec Mt ref h, PfSpec O P h where
  /-- literal necessity: every match ends with the suffix literal -/
  necessity : ∀ s e, s ≤ h.size → Mt h s e → s + P.suffix.size ≤ e ∧ Occ h P.suffix (e - P.suffix.size)
  revL_found : ∀ lo e m s, lo < e → e ≤ h.size → O.revLimited h lo e m = .found s →
    lo ≤ s ∧ s ≤ e ∧ Mt h s e ∧ ∀ s', lo ≤ s' → Mt h s' e → s ≤ s'
  revL_none : ∀ lo e m, lo < e → e ≤ h.size → O.revLimited h lo e m = .none → ∀ s', lo ≤ s' → s' ≤ h.size → ¬ Mt h s' e
  revF_some : ∀ lo e s, lo ≤ e → e ≤ h.size → O.revFull h lo e = some s →
    lo ≤ s ∧ Mt h s e ∧ ∀ s', lo ≤ s' → s' ≤ h.size → Mt h s' e → s ≤ s'
  fwd : ∀ a, a ≤ h.size → O.fwdEnd h a = (ref h a).map (·.2)
  pike : ∀ a, a ≤ h.size → O.pike h a = ref h a
  /-- `SetLineBounded(true)`: no match contains '\n' -/
  lb_nl : P.lineBounded = true → ∀ s e, s ≤ h.size → Mt h s e → ∀ i, s ≤ i → i < e → h.at i ≠ 10
  /-- `ref` scans the start positions in order: restarting it anywhere before the match start changes nothing -/
  lb_restart : P.lineBounded = true → ∀ a a' s e, a ≤ h.size → ref h a = some (s, e) → a ≤ a' → a' ≤ s → ref h a' = some (s, e)

section
variable {O : Oracles} {P : Params} {Mt : Bytes → Nat → Nat → Prop} {ref : Bytes → Nat → Option (Nat × Nat)} {h : Bytes}

theorem RefSpec.none_of (R : RefSpec Mt ref h) {a : Nat} (ha : a ≤ h.size)
    (hno : ∀ s e, a ≤ s → s ≤ h.size → ¬ Mt h s e) : ref h a = none := by
  cases hr : ref h a with
  | none => rfl
  | some se =>
    obtain ⟨s, e⟩ := se
    obtain ⟨h1, h2, h3⟩ := R.ref_sound a s e ha hr
    exact absurd h3 (hno s e h1 h2)

theorem RefSpec.some_of (R : RefSpec Mt ref h) {a s e : Nat} (ha : a ≤ h.size) (has : a ≤ s) (hs : s ≤ h.size)
    (hm : Mt h s e) : ∃ s' e', ref h a = some (s', e') := by
  cases hr : ref h a with
  | none => exact absurd hm (R.ref_none a ha hr s e has hs)
  | some se => exact ⟨se.1, se.2, rfl⟩

/-- matches lie inside the haystack -/
theorem Spec.match_le (S : Spec O P Mt ref h) {s e : Nat} (hs : s ≤ h.size) (hm : Mt h s e) : e ≤ h.size := by
  obtain ⟨h1, h2, _⟩ := S.necessity s e hs hm
  omega

/-- `searchSpan` is the reference search from `from`, provided `knownStart = from` only if a match starts at `from` -/
theorem searchSpan_eq (S : Spec O P Mt ref h) {from_ : Nat} (hf : from_ ≤ h.size) (ks : Option Nat)
    (hk : ks = some from_ → ∃ e, Mt h from_ e) : searchSpan O h from_ ks = ref h from_ := by
  unfold searchSpan
  rw [S.fwd from_ hf]
  cases hr : ref h from_ with
  | none => rfl
  | some se =>
    obtain ⟨s, e⟩ := se
    obtain ⟨h1, h2, h3⟩ := S.ref_sound from_ s e hf hr
    have he := S.match_le h2 h3
    have hse : s + P.suffix.size ≤ e := (S.necessity s e h2 h3).1
    simp only [Option.map_some]
    split
    · rename_i hks
      obtain ⟨e', hm'⟩ := hk hks
      have := S.ref_leftmost from_ s e hf hr from_ e' (Nat.le_refl _) hm'
      have : s = from_ := by omega
      rw [this]
    · split
      · rw [S.pike from_ hf, hr]
      · rename_i s' hrev
        obtain ⟨g1, g2, g3⟩ := S.revF_some from_ e s' (by omega) he hrev
        have a1 := g3 s h1 h2 h3
        have a2 := S.ref_leftmost from_ s e hf hr s' e g1 g2
        have : s' = s := by omega
        rw [this]

/-- the loop invariant: no match from `at` ends at a candidate before `ss` -/
def NoEndBefore (P : Params) (Mt : Bytes → Nat → Nat → Prop) (h : Bytes) (at_ ss : Nat) : Prop :=
  ∀ s e, at_ ≤ s → s ≤ h.size → Mt h s e → ss + P.suffix.size ≤ e

theorem noEndBefore_init (S : Spec O P Mt ref h) (at_ : Nat) : NoEndBefore P Mt h at_ at_ := by
  intro s e h1 h2 h3
  have := (S.necessity s e h2 h3).1
  omega

/-- no candidate left: no match -/
theorem no_match_of_pf_none (S : Spec O P Mt ref h) {at_ ss : Nat} (hss : ss ≤ h.size)
    (hinv : NoEndBefore P Mt h at_ ss) (hpf : O.pfFind h ss = none) : ∀ s e, at_ ≤ s → s ≤ h.size → ¬ Mt h s e := by
  intro s e h1 h2 h3
  have hn := S.necessity s e h2 h3
  have := hinv s e h1 h2 h3
  exact S.pf_none ss hss hpf (e - P.suffix.size) (by omega) hn.2

/-- every match from `at` ends at or after the candidate the prefilter reports -/
theorem end_ge_candidate (S : Spec O P Mt ref h) {at_ ss pos : Nat} (hss : ss ≤ h.size)
    (hinv : NoEndBefore P Mt h at_ ss) (hpf : O.pfFind h ss = some pos) :
    ∀ s e, at_ ≤ s → s ≤ h.size → Mt h s e → pos + P.suffix.size ≤ e := by
  intro s e h1 h2 h3
  have hn := S.necessity s e h2 h3
  have := hinv s e h1 h2 h3
  obtain ⟨_, _, g3⟩ := S.pf_some ss pos hss hpf
  have : ¬ (e - P.suffix.size < pos) := fun hlt => g3 (e - P.suffix.size) (by omega) hlt hn.2
  omega

/-- the candidate holds no match end: the invariant moves past it -/
theorem noEndBefore_step (S : Spec O P Mt ref h) {at_ ss pos : Nat} (hss : ss ≤ h.size)
    (hinv : NoEndBefore P Mt h at_ ss) (hpf : O.pfFind h ss = some pos)
    (hno : ∀ s', at_ ≤ s' → s' ≤ h.size → ¬ Mt h s' (pos + P.suffix.size)) : NoEndBefore P Mt h at_ (pos + 1) := by
  intro s e h1 h2 h3
  have := end_ge_candidate S hss hinv hpf s e h1 h2 h3
  have hne : e ≠ pos + P.suffix.size := fun heq => hno s h1 h2 (heq ▸ h3)
  omega

theorem findLoop_eq (S : Spec O P Mt ref h) (hmz : P.matchStartZero = false) {at_ : Nat} (hat : at_ < h.size) :
    ∀ (fuel ss ms : Nat), at_ ≤ ss → ss < h.size → h.size - ss ≤ fuel → NoEndBefore P Mt h at_ ss →
      findLoop O P h at_ fuel ss ms = ref h at_ := by
  intro fuel
  induction fuel with
  | zero => intro ss ms _ h2 h3; omega
  | succ fuel ih =>
    intro ss ms h1 h2 h3 hinv
    rw [findLoop]
    cases hpf : O.pfFind h ss with
    | none =>
      simp only []
      exact (S.toRefSpec.none_of (by omega) (no_match_of_pf_none S (by omega) hinv hpf)).symm
    | some pos =>
      simp only []
      obtain ⟨p1, p2, p3⟩ := S.pf_some ss pos (by omega) hpf
      have hE : (if pos + P.suffix.size > h.size then h.size else pos + P.suffix.size) = pos + P.suffix.size :=
        if_neg (by have := p2.1; omega)
      rw [hE, hmz]
      simp only [Bool.false_eq_true, if_false]
      have hL := S.suf_pos
      have hends := end_ge_candidate S (by omega) hinv hpf
      cases hrl : O.revLimited h at_ (pos + P.suffix.size) ms with
      | cutOff =>
        simp only []
        exact searchSpan_eq S (by omega) none (fun hc => by cases hc)
      | none =>
        simp only []
        have hno := S.revL_none at_ (pos + P.suffix.size) ms (by omega) p2.1 hrl
        have hinv' := noEndBefore_step S (by omega) hinv hpf hno
        split
        · rename_i hge
          refine (S.toRefSpec.none_of (by omega) ?_).symm
          intro s e g1 g2 g3
          have := hinv' s e g1 g2 g3
          have := S.match_le g2 g3
          omega
        · rename_i hlt
          exact ih (pos + 1) (pos + P.suffix.size) (by omega) (by omega) (by omega) hinv'
      | found mst =>
        simp only []
        obtain ⟨f1, f2, f3, f4⟩ := S.revL_found at_ (pos + P.suffix.size) ms mst (by omega) p2.1 hrl
        have hmsz : mst ≤ h.size := by have := p2.1; omega
        cases hlb : P.lineBounded with
        | false =>
          simp only [Bool.false_eq_true, if_false]
          refine searchSpan_eq S (by omega) _ ?_
          intro hk
          cases hk
          exact ⟨_, f3⟩
        | true =>
          simp only [if_true]
          obtain ⟨l1, l2, l3, l4⟩ := lineStartBefore_spec h (show at_ ≤ pos by omega)
          obtain ⟨s0, e0, hr0⟩ := S.toRefSpec.some_of (a := at_) (by omega) f1 hmsz f3
          obtain ⟨r1, r2, r3⟩ := S.ref_sound at_ s0 e0 (by omega) hr0
          have hE0 := hends s0 e0 r1 r2 r3
          -- the match start is on the candidate's line
          have hfs : lineStartBefore h at_ pos ≤ s0 := by
            rcases l4 with l4 | ⟨l4, l5⟩
            · omega
            · apply Classical.byContradiction
              intro hlt
              exact S.lb_nl hlb s0 e0 r2 r3 (lineStartBefore h at_ pos - 1) (by omega) (by omega) l5
          have hrest := S.lb_restart hlb at_ (lineStartBefore h at_ pos) s0 e0 (by omega) hr0 l1 hfs
          rw [hr0, ← hrest]
          refine searchSpan_eq S (by omega) _ ?_
          intro hk
          have : mst = lineStartBefore h at_ pos := by injection hk
          exact ⟨_, this ▸ f3⟩

/-- **the strategy is exact**: `FindIndicesAt` returns the reference's leftmost-first span, `none` iff there is no match -/
theorem findIndicesAt_eq_ref (S : Spec O P Mt ref h) (hmz : P.matchStartZero = false) {at_ : Nat} (hat : at_ ≤ h.size) :
    findIndicesAt O P h at_ = ref h at_ := by
  unfold findIndicesAt
  split
  · rename_i hge
    have : at_ = h.size := by omega
    subst this
    refine (S.toRefSpec.none_of (Nat.le_refl _) ?_).symm
    intro s e g1 g2 g3
    have := (S.necessity s e g2 g3).1
    have := S.match_le g2 g3
    have := S.suf_pos
    omega
  · rename_i hlt
    exact findLoop_eq S hmz (by omega) _ _ _ (Nat.le_refl _) (by omega) (Nat.le_refl _) (noEndBefore_init S at_)

theorem isMatchLoop_eq (S : Spec O P Mt ref h) :
    ∀ (fuel ss ms : Nat), ss < h.size → h.size - ss ≤ fuel → NoEndBefore P Mt h 0 ss →
      isMatchLoop O P h fuel ss ms = (ref h 0).isSome := by
  intro fuel
  induction fuel with
  | zero => intro ss ms h2 h3; omega
  | succ fuel ih =>
    intro ss ms h2 h3 hinv
    rw [isMatchLoop]
    cases hpf : O.pfFind h ss with
    | none =>
      simp only []
      rw [S.toRefSpec.none_of (Nat.zero_le _) (no_match_of_pf_none S (by omega) hinv hpf)]
      rfl
    | some pos =>
      simp only []
      obtain ⟨p1, p2, p3⟩ := S.pf_some ss pos (by omega) hpf
      have hE : (if pos + P.suffix.size > h.size then h.size else pos + P.suffix.size) = pos + P.suffix.size :=
        if_neg (by have := p2.1; omega)
      rw [hE]
      have hL := S.suf_pos
      cases hrl : O.revLimited h 0 (pos + P.suffix.size) ms with
      | cutOff =>
        simp only []
        rw [S.pike 0 (Nat.zero_le _)]
      | found mst =>
        simp only []
        obtain ⟨f1, f2, f3, f4⟩ := S.revL_found 0 (pos + P.suffix.size) ms mst (by omega) p2.1 hrl
        obtain ⟨s0, e0, hr0⟩ := S.toRefSpec.some_of (a := 0) (Nat.zero_le _) f1 (by have := p2.1; omega) f3
        rw [hr0]
        rfl
      | none =>
        simp only []
        have hno := S.revL_none 0 (pos + P.suffix.size) ms (by omega) p2.1 hrl
        have hinv' := noEndBefore_step S (by omega) hinv hpf hno
        split
        · rename_i hge
          rw [S.toRefSpec.none_of (Nat.zero_le _) ?_]
          · rfl
          · intro s e g1 g2 g3
            have := hinv' s e g1 g2 g3
            have := S.match_le g2 g3
            omega
        · rename_i hlt
          exact ih (pos + 1) (pos + P.suffix.size) (by omega) (by omega) hinv'

/-- **`IsMatch` is exact**: true iff the reference finds a match (for either value of `matchStartZero`) -/
theorem isMatch_eq_ref (S : Spec O P Mt ref h) : isMatch O P h = (ref h 0).isSome := by
  unfold isMatch
  split
  · rename_i h0
    rw [S.toRefSpec.none_of (Nat.zero_le _) ?_]
    · rfl
    · intro s e g1 g2 g3
      have := (S.necessity s e g2 g3).1
      have := S.match_le g2 g3
      have := S.suf_pos
      omega
  · rename_i h0
    exact isMatchLoop_eq S _ _ _ (by omega) (by omega) (noEndBefore_init S 0)

end

/-! ### the instrumented functions compute the same answers -/

section
variable (O : Oracles) (P : Params) (h : Bytes)

theorem searchSpanT_fst (from_ : Nat) (ks : Option Nat) (t : Trace) :
    (searchSpanT O h from_ ks t).1 = searchSpan O h from_ ks := by
  unfold searchSpanT searchSpan
  cases O.fwdEnd h from_ with
  | none => rfl
  | some e =>
    simp only []
    split
    · rfl
    · cases O.revFull h from_ e <;> rfl

theorem findLoopT_fst (at_ : Nat) : ∀ (fuel ss ms : Nat) (t : Trace),
    (findLoopT O P h at_ fuel ss ms t).1 = findLoop O P h at_ fuel ss ms := by
  intro fuel
  induction fuel with
  | zero => intro ss ms t; rfl
  | succ fuel ih =>
    intro ss ms t
    rw [findLoopT, findLoop]
    cases O.pfFind h ss with
    | none => rfl
    | some pos =>
      simp only []
      split
      · rfl
      · cases O.revLimited h at_ (if pos + P.suffix.size > h.size then h.size else pos + P.suffix.size) ms with
        | cutOff => exact searchSpanT_fst O h _ _ _
        | found s => exact searchSpanT_fst O h _ _ _
        | none =>
          simp only []
          split
          · rfl
          · exact ih _ _ _

theorem findIndicesAtT_fst (at_ : Nat) : (findIndicesAtT O P h at_).1 = findIndicesAt O P h at_ := by
  unfold findIndicesAtT findIndicesAt
  split
  · rfl
  · exact findLoopT_fst O P h at_ _ _ _ _

theorem isMatchLoopT_fst : ∀ (fuel ss ms : Nat) (t : Trace),
    (isMatchLoopT O P h fuel ss ms t).1 = isMatchLoop O P h fuel ss ms := by
  intro fuel
  induction fuel with
  | zero => intro ss ms t; rfl
  | succ fuel ih =>
    intro ss ms t
    rw [isMatchLoopT, isMatchLoop]
    cases O.pfFind h ss with
    | none => rfl
    | some pos =>
      simp only []
      cases O.revLimited h 0 (if pos + P.suffix.size > h.size then h.size else pos + P.suffix.size) ms with
      | cutOff => rfl
      | found s => rfl
      | none =>
        simp only []
        split
        · rfl
        · exact ih _ _ _

theorem isMatchT_fst : (isMatchT O P h).1 = isMatch O P h := by
  unfold isMatchT isMatch
  split
  · rfl
  · exact isMatchLoopT_fst O P h _ _ _ _

end

/-! ### the anti-quadratic guard: the reverse scans read disjoint windows -/

/-- the windows are consecutive: each starts at or after the end of the one before; all lie in `[lo, hi]` -/
def Chained : Nat → List (Nat × Nat) → Nat → Prop
  | lo, [], hi => lo ≤ hi
  | lo, w :: ws, hi => lo ≤ w.1 ∧ w.1 ≤ w.2 ∧ Chained w.2 ws hi

theorem chained_cost : ∀ {ws : List (Nat × Nat)} {lo hi : Nat}, Chained lo ws hi → lo ≤ hi ∧ windowsCost ws ≤ hi - lo := by
  intro ws
  induction ws with
  | nil => intro lo hi hc; exact ⟨hc, by simp [windowsCost]⟩
  | cons w ws ih =>
    intro lo hi hc
    obtain ⟨h1, h2, h3⟩ := hc
    obtain ⟨g1, g2⟩ := ih h3
    refine ⟨by omega, ?_⟩
    have : windowsCost (w :: ws) = (w.2 - w.1) + windowsCost ws := by simp [windowsCost]
    omega

theorem chained_snoc : ∀ {ws : List (Nat × Nat)} {lo m a b : Nat}, Chained lo ws m → m ≤ a → a ≤ b →
    Chained lo (ws ++ [(a, b)]) b := by
  intro ws
  induction ws with
  | nil => intro lo m a b hc h1 h2; exact ⟨by have : lo ≤ m := hc; omega, h2, Nat.le_refl _⟩
  | cons w ws ih =>
    intro lo m a b hc h1 h2
    obtain ⟨g1, g2, g3⟩ := hc
    exact ⟨g1, g2, ih g3 h1 h2⟩

theorem chained_mono : ∀ {ws : List (Nat × Nat)} {lo m hi : Nat}, Chained lo ws m → m ≤ hi → Chained lo ws hi := by
  intro ws
  induction ws with
  | nil => intro lo m hi hc h1; have : lo ≤ m := hc; exact Nat.le_trans this h1
  | cons w ws ih =>
    intro lo m hi hc h1
    obtain ⟨g1, g2, g3⟩ := hc
    exact ⟨g1, g2, ih g3 h1⟩

/-- pairwise disjointness, spelled out: of two windows of a chain, the earlier ends before the later starts -/
theorem chained_disjoint : ∀ {ws : List (Nat × Nat)} {lo hi : Nat}, Chained lo ws hi →
    ∀ i j (hi' : i < j) (hj : j < ws.length), (ws[i]'(by omega)).2 ≤ (ws[j]'hj).1 := by
  intro ws
  induction ws with
  | nil => intro lo hi _ i j _ hj; simp at hj
  | cons w ws ih =>
    intro lo hi hc i j hij hj
    obtain ⟨g1, g2, g3⟩ := hc
    cases j with
    | zero => omega
    | succ j =>
      cases i with
      | zero =>
        simp only [List.getElem_cons_zero, List.getElem_cons_succ]
        -- every window of the tail starts at or after w.2
        have : ∀ {ws : List (Nat × Nat)} {lo hi : Nat}, Chained lo ws hi → ∀ k (hk : k < ws.length), lo ≤ (ws[k]'hk).1 := by
          intro ws
          induction ws with
          | nil => intro lo hi _ k hk; simp at hk
          | cons v vs ihv =>
            intro lo hi hc k hk
            obtain ⟨a1, a2, a3⟩ := hc
            cases k with
            | zero => exact a1
            | succ k =>
              simp only [List.getElem_cons_succ]
              have := ihv a3 k (by simpa using hk)
              omega
        exact this g3 j (by simpa using hj)
      | succ i =>
        simp only [List.getElem_cons_succ]
        exact ih g3 i j (by omega) (by simpa using hj)

structure TraceOK (h : Bytes) (at_ : Nat) (t : Trace) : Prop where
  chained : Chained at_ t.limited h.size
  full_in : ∀ w, t.full = some w → at_ ≤ w.1 ∧ w.2 ≤ h.size

theorem TraceOK.revCost_le {h : Bytes} {at_ : Nat} {t : Trace} (T : TraceOK h at_ t) : t.revCost ≤ 2 * (h.size - at_) := by
  obtain ⟨c1, c2⟩ := chained_cost T.chained
  unfold Trace.revCost
  cases hf : t.full with
  | none => simp only []; omega
  | some w =>
    obtain ⟨f1, f2⟩ := T.full_in w hf
    simp only []
    omega

section
variable {O : Oracles} {P : Params} {h : Bytes}

theorem searchSpanT_ok (hfwd : ∀ a e, O.fwdEnd h a = some e → e ≤ h.size) {at_ from_ : Nat} (hfa : at_ ≤ from_)
    (ks : Option Nat) {t : Trace} (hc : Chained at_ t.limited h.size) (ht : t.full = none) :
    TraceOK h at_ (searchSpanT O h from_ ks t).2 ∧ (searchSpanT O h from_ ks t).2.pfCalls = t.pfCalls := by
  unfold searchSpanT
  cases hfe : O.fwdEnd h from_ with
  | none => exact ⟨⟨hc, fun w hw => by simp only [] at hw; rw [ht] at hw; cases hw⟩, rfl⟩
  | some e =>
    simp only []
    split
    · exact ⟨⟨hc, fun w hw => by simp only [] at hw; rw [ht] at hw; cases hw⟩, rfl⟩
    · have he := hfwd from_ e hfe
      cases O.revFull h from_ e with
      | none =>
        refine ⟨⟨hc, ?_⟩, rfl⟩
        intro w hw
        simp only [Option.some.injEq] at hw
        subst hw
        exact ⟨hfa, he⟩
      | some s =>
        refine ⟨⟨hc, ?_⟩, rfl⟩
        intro w hw
        simp only [Option.some.injEq] at hw
        subst hw
        exact ⟨hfa, he⟩

theorem cap_eq (x L n : Nat) : (if x + L > n then n else x + L) = min (x + L) n := by
  split <;> omega

theorem findLoopT_ok (hpf : ∀ st p, O.pfFind h st = some p → st ≤ p)
    (hfwd : ∀ a e, O.fwdEnd h a = some e → e ≤ h.size) {at_ : Nat} (hat : at_ ≤ h.size) :
    ∀ (fuel ss ms : Nat) (t : Trace), at_ ≤ ss → ms ≤ min (ss + P.suffix.size) h.size → t.full = none →
      Chained at_ t.limited (max at_ ms) →
      TraceOK h at_ (findLoopT O P h at_ fuel ss ms t).2 ∧ (findLoopT O P h at_ fuel ss ms t).2.pfCalls ≤ t.pfCalls + fuel := by
  intro fuel
  induction fuel with
  | zero =>
    intro ss ms t h1 h2 h3 h4
    exact ⟨⟨chained_mono h4 (by omega), fun w hw => by rw [findLoopT, h3] at hw; cases hw⟩, Nat.le_refl _⟩
  | succ fuel ih =>
    intro ss ms t h1 h2 h3 h4
    rw [findLoopT]
    cases hp : O.pfFind h ss with
    | none =>
      exact ⟨⟨chained_mono h4 (by omega), fun w hw => by simp only [] at hw; rw [h3] at hw; cases hw⟩, by simp only []; omega⟩
    | some pos =>
      have hpos := hpf ss pos hp
      simp only []
      rw [cap_eq]
      split
      · exact ⟨⟨chained_mono h4 (by omega), fun w hw => by simp only [] at hw; rw [h3] at hw; cases hw⟩, by simp only []; omega⟩
      · have hc' : Chained at_ (t.limited ++ [(max at_ ms, min (pos + P.suffix.size) h.size)]) (min (pos + P.suffix.size) h.size) :=
          chained_snoc h4 (Nat.le_refl _) (by omega)
        cases O.revLimited h at_ (min (pos + P.suffix.size) h.size) ms with
        | cutOff =>
          simp only []
          obtain ⟨a1, a2⟩ := searchSpanT_ok hfwd (Nat.le_refl at_) none
            (t := { t with pfCalls := t.pfCalls + 1, limited := t.limited ++ [(max at_ ms, min (pos + P.suffix.size) h.size)] })
            (chained_mono hc' (by omega)) h3
          exact ⟨a1, by rw [a2]; simp only []; omega⟩
        | found mst =>
          simp only []
          have hfa : at_ ≤ (if P.lineBounded = true then lineStartBefore h at_ pos else at_) := by
            split
            · exact (lineStartBefore_spec h (show at_ ≤ pos by omega)).1
            · exact Nat.le_refl _
          obtain ⟨a1, a2⟩ := searchSpanT_ok hfwd hfa (some mst)
            (t := { t with pfCalls := t.pfCalls + 1, limited := t.limited ++ [(max at_ ms, min (pos + P.suffix.size) h.size)] })
            (chained_mono hc' (by omega)) h3
          exact ⟨a1, by rw [a2]; simp only []; omega⟩
        | none =>
          simp only []
          split
          · exact ⟨⟨chained_mono hc' (by omega), fun w hw => by simp only [] at hw; rw [h3] at hw; cases hw⟩, by simp only []; omega⟩
          · have hm : max at_ (min (pos + P.suffix.size) h.size) = min (pos + P.suffix.size) h.size := by omega
            obtain ⟨a1, a2⟩ := ih (pos + 1) (min (pos + P.suffix.size) h.size)
              { t with pfCalls := t.pfCalls + 1, limited := t.limited ++ [(max at_ ms, min (pos + P.suffix.size) h.size)] }
              (by omega) (by omega) h3 (by rw [hm]; exact hc')
            exact ⟨a1, by simp only [] at a2; omega⟩

/-- **minStart is monotone**: the `SearchReverseLimited` windows of one call are consecutive, pairwise disjoint (`chained_disjoint`)
    and lie in `[at, |h|]`; the one `SearchReverse` window lies there too -/
theorem findIndicesAtT_ok (hpf : ∀ st p, O.pfFind h st = some p → st ≤ p)
    (hfwd : ∀ a e, O.fwdEnd h a = some e → e ≤ h.size) {at_ : Nat} (hat : at_ ≤ h.size) :
    TraceOK h at_ (findIndicesAtT O P h at_).2 ∧ (findIndicesAtT O P h at_).2.pfCalls ≤ h.size - at_ := by
  unfold findIndicesAtT
  split
  · exact ⟨⟨hat, fun w hw => by cases hw⟩, Nat.zero_le _⟩
  · have := findLoopT_ok (P := P) hpf hfwd hat (h.size - at_) at_ at_ {} (Nat.le_refl _) (by omega) rfl
      (show at_ ≤ max at_ at_ by omega)
    exact ⟨this.1, by have := this.2; simp only [] at this; omega⟩

theorem limited_chained (hpf : ∀ st p, O.pfFind h st = some p → st ≤ p)
    (hfwd : ∀ a e, O.fwdEnd h a = some e → e ≤ h.size) {at_ : Nat} (hat : at_ ≤ h.size) :
    Chained at_ (findIndicesAtT O P h at_).2.limited h.size := (findIndicesAtT_ok hpf hfwd hat).1.chained

/-- **anti-quadratic bound**: all reverse scans of one `FindIndicesAt` together read at most `2·(|h| - at)` bytes (the limited scans
    at most `|h| - at`, the one full scan of `searchSpan` at most `|h| - at`); the prefilter is called at most `|h| - at` times;
    there is at most one forward scan (`Trace.fwd` is an `Option`) -/
theorem revCost_le (hpf : ∀ st p, O.pfFind h st = some p → st ≤ p)
    (hfwd : ∀ a e, O.fwdEnd h a = some e → e ≤ h.size) {at_ : Nat} (hat : at_ ≤ h.size) :
    (findIndicesAtT O P h at_).2.revCost ≤ 2 * (h.size - at_) ∧ (findIndicesAtT O P h at_).2.pfCalls ≤ h.size - at_ :=
  ⟨(findIndicesAtT_ok hpf hfwd hat).1.revCost_le, (findIndicesAtT_ok hpf hfwd hat).2⟩

theorem isMatchLoopT_ok (hpf : ∀ st p, O.pfFind h st = some p → st ≤ p) :
    ∀ (fuel ss ms : Nat) (t : Trace), ms ≤ min (ss + P.suffix.size) h.size → t.full = none →
      Chained 0 t.limited ms → TraceOK h 0 (isMatchLoopT O P h fuel ss ms t).2 := by
  intro fuel
  induction fuel with
  | zero =>
    intro ss ms t h2 h3 h4
    exact ⟨chained_mono h4 (by omega), fun w hw => by rw [isMatchLoopT, h3] at hw; cases hw⟩
  | succ fuel ih =>
    intro ss ms t h2 h3 h4
    rw [isMatchLoopT]
    cases hp : O.pfFind h ss with
    | none => exact ⟨chained_mono h4 (by omega), fun w hw => by simp only [] at hw; rw [h3] at hw; cases hw⟩
    | some pos =>
      have hpos := hpf ss pos hp
      simp only []
      rw [cap_eq]
      have hc' : Chained 0 (t.limited ++ [(max 0 ms, min (pos + P.suffix.size) h.size)]) (min (pos + P.suffix.size) h.size) :=
        chained_snoc h4 (by omega) (by omega)
      cases O.revLimited h 0 (min (pos + P.suffix.size) h.size) ms with
      | cutOff => exact ⟨chained_mono hc' (by omega), fun w hw => by simp only [] at hw; rw [h3] at hw; cases hw⟩
      | found s => exact ⟨chained_mono hc' (by omega), fun w hw => by simp only [] at hw; rw [h3] at hw; cases hw⟩
      | none =>
        simp only []
        split
        · exact ⟨chained_mono hc' (by omega), fun w hw => by simp only [] at hw; rw [h3] at hw; cases hw⟩
        · exact ih (pos + 1) (min (pos + P.suffix.size) h.size)
            { t with pfCalls := t.pfCalls + 1, limited := t.limited ++ [(max 0 ms, min (pos + P.suffix.size) h.size)] }
            (by omega) h3 hc'

/-- all reverse scans of one `IsMatch` together read at most `|h|` bytes -/
theorem isMatch_revCost_le (hpf : ∀ st p, O.pfFind h st = some p → st ≤ p) : (isMatchT O P h).2.revCost ≤ h.size := by
  have T : TraceOK h 0 (isMatchT O P h).2 ∧ (isMatchT O P h).2.full = none := by
    unfold isMatchT
    split
    · exact ⟨⟨Nat.zero_le _, fun w hw => by cases hw⟩, rfl⟩
    · have := isMatchLoopT_ok (P := P) hpf h.size 0 0 {} (by omega) rfl (show (0:Nat) ≤ 0 from Nat.le_refl _)
      refine ⟨this, ?_⟩
      cases hf : (isMatchLoopT O P h h.size 0 0 {}).2.full with
      | none => rfl
      | some w => exact absurd hf (by
          -- `IsMatch` never calls `SearchReverse`
          have key : ∀ (fuel ss ms : Nat) (t : Trace), t.full = none → (isMatchLoopT O P h fuel ss ms t).2.full = none := by
            intro fuel
            induction fuel with
            | zero => intro ss ms t ht; rw [isMatchLoopT]; exact ht
            | succ fuel ih =>
              intro ss ms t ht
              rw [isMatchLoopT]
              cases O.pfFind h ss with
              | none => exact ht
              | some pos =>
                simp only []
                cases O.revLimited h 0 (if pos + P.suffix.size > h.size then h.size else pos + P.suffix.size) ms with
                | cutOff => exact ht
                | found s => exact ht
                | none =>
                  simp only []
                  split
                  · exact ht
                  · exact ih _ _ _ ht
          rw [key _ _ _ _ rfl]
          intro hc; cases hc)
  obtain ⟨c1, c2⟩ := chained_cost T.1.chained
  unfold Trace.revCost
  rw [T.2]
  simp only []
  omega

end

/-! ### `matchStartZero`: the byte-search shortcut for `.*literal` -/

/-- what `isDotStarLiteral` must guarantee: the pattern is a greedy `.*` (no '\n') followed by the literal — its matches are
    the spans that end with the literal and have no '\n' before it; the literal has no '\n'; and, `.*` being greedy, the
    reference's match is the LONGEST one at its start -/
structure DotStarSpec (O : Oracles) (P : Params) (Mt : Bytes → Nat → Nat → Prop) (ref : Bytes → Nat → Option (Nat × Nat))
    (h : Bytes) : Prop extends RefSpec Mt ref h, PfSpec O P h where
  suf_nonl : ∀ k, k < P.suffix.size → P.suffix.at k ≠ 10
  mt_iff : ∀ s e, s ≤ h.size → (Mt h s e ↔
    s + P.suffix.size ≤ e ∧ Occ h P.suffix (e - P.suffix.size) ∧ ∀ i, s ≤ i → i + P.suffix.size < e → h.at i ≠ 10)
  ref_longest : ∀ a s e, a ≤ h.size → ref h a = some (s, e) → ∀ e', Mt h s e' → e' ≤ e

theorem nlFrom_some {h : Bytes} {pos nl : Nat} (hf : nlFrom h pos = some nl) :
    pos ≤ nl ∧ nl < h.size ∧ h.at nl = 10 ∧ ∀ j, pos ≤ j → j < nl → h.at j ≠ 10 := by
  obtain ⟨h1, h2, h3, h4⟩ := findFirst_some hf
  refine ⟨h1, by omega, by simpa using h3, ?_⟩
  intro j hj1 hj2 hc
  have := h4 j hj1 hj2
  simp [hc] at this

theorem nlFrom_none {h : Bytes} {pos : Nat} (hf : nlFrom h pos = none) : ∀ j, pos ≤ j → j < h.size → h.at j ≠ 10 := by
  intro j hj1 hj2 hc
  have := findFirst_none hf j hj1 (by omega)
  simp [hc] at this

section
variable {O : Oracles} {P : Params} {Mt : Bytes → Nat → Nat → Prop} {ref : Bytes → Nat → Option (Nat × Nat)} {h : Bytes}

/-- the end of the candidate's line -/
theorem lineEnd_spec (D : DotStarSpec O P Mt ref h) {pos : Nat} (ho : Occ h P.suffix pos) :
    ∃ lineEnd, lineEndAt h pos = lineEnd ∧ pos + P.suffix.size ≤ lineEnd ∧
      lineEnd ≤ h.size ∧ (∀ j, pos ≤ j → j < lineEnd → h.at j ≠ 10) ∧ (lineEnd = h.size ∨ h.at lineEnd = 10) := by
  unfold lineEndAt
  cases hnl : nlFrom h pos with
  | none => exact ⟨h.size, rfl, ho.1, Nat.le_refl _, nlFrom_none hnl, Or.inl rfl⟩
  | some nl =>
    obtain ⟨h1, h2, h3, h4⟩ := nlFrom_some hnl
    refine ⟨nl, rfl, ?_, by omega, h4, Or.inr h3⟩
    apply Classical.byContradiction
    intro hlt
    have := ho.2 (nl - pos) (by omega)
    rw [show pos + (nl - pos) = nl by omega, h3] at this
    exact D.suf_nonl (nl - pos) (by omega) this.symm

theorem dotStarSpan_eq (D : DotStarSpec O P Mt ref h) {at_ pos : Nat} (hat : at_ ≤ h.size)
    (hpf : O.pfFind h at_ = some pos) : ref h at_ = some (dotStarSpan P h at_ pos (pos + P.suffix.size)) := by
  obtain ⟨p1, p2, p3⟩ := D.pf_some at_ pos hat hpf
  obtain ⟨l1, l2, l3, l4⟩ := lineStartBefore_spec h p1
  obtain ⟨lineEnd, e0, e1, e2, e3, e4⟩ := lineEnd_spec D p2
  have hL := D.suf_pos
  -- the last occurrence on the line
  have hpred : (occursAt h P.suffix pos && decide (pos + P.suffix.size ≤ lineEnd)) = true := by
    simp only [Bool.and_eq_true, decide_eq_true_eq]
    exact ⟨(occursAt_iff _ _ _).mpr p2, e1⟩
  obtain ⟨p, hfl⟩ : ∃ p, findLast (fun p => occursAt h P.suffix p && decide (p + P.suffix.size ≤ lineEnd)) pos
      (lineEnd + 1 - (pos + P.suffix.size)) = some p := by
    cases hfl : findLast (fun p => occursAt h P.suffix p && decide (p + P.suffix.size ≤ lineEnd)) pos
        (lineEnd + 1 - (pos + P.suffix.size)) with
    | some p => exact ⟨p, rfl⟩
    | none =>
      have := findLast_none hfl pos (Nat.le_refl _) (by omega)
      rw [hpred] at this
      cases this
  obtain ⟨q1, q2, q3, q4⟩ := findLast_some hfl
  simp only [Bool.and_eq_true, decide_eq_true_eq] at q3
  have hpo : Occ h P.suffix p := (occursAt_iff _ _ _).mp q3.1
  have hspan : dotStarSpan P h at_ pos (pos + P.suffix.size) = (lineStartBefore h at_ pos, p + P.suffix.size) := by
    unfold dotStarSpan
    simp only [e0]
    unfold lastIndexIn
    rw [hfl]
    simp only [Option.map_some]
    congr 1
    by_cases hp0 : p - pos > 0
    · rw [if_pos hp0]; omega
    · rw [if_neg hp0]; omega
  rw [hspan]
  -- facts about arbitrary matches from `at`
  have hcand : ∀ s e, at_ ≤ s → s ≤ h.size → Mt h s e → pos ≤ e - P.suffix.size := by
    intro s e g1 g2 g3
    obtain ⟨m1, m2, m3⟩ := (D.mt_iff s e g2).mp g3
    apply Classical.byContradiction
    intro hlt
    exact p3 (e - P.suffix.size) (by omega) (by omega) m2
  have hstart : ∀ s e, at_ ≤ s → s ≤ h.size → Mt h s e → lineStartBefore h at_ pos ≤ s := by
    intro s e g1 g2 g3
    have hc := hcand s e g1 g2 g3
    obtain ⟨m1, m2, m3⟩ := (D.mt_iff s e g2).mp g3
    rcases l4 with l4 | ⟨l4, l5⟩
    · omega
    · apply Classical.byContradiction
      intro hlt
      exact m3 (lineStartBefore h at_ pos - 1) (by omega) (by omega) l5
  have hls : lineStartBefore h at_ pos ≤ h.size := by have := p2.1; omega
  have hmatch : Mt h (lineStartBefore h at_ pos) (p + P.suffix.size) := by
    refine (D.mt_iff _ _ hls).mpr ⟨by omega, ?_, ?_⟩
    · rw [show p + P.suffix.size - P.suffix.size = p by omega]; exact hpo
    · intro i i1 i2
      by_cases hi : i < pos
      · exact l3 i i1 hi
      · exact e3 i (by omega) (by omega)
  have hlongest : ∀ e', Mt h (lineStartBefore h at_ pos) e' → e' ≤ p + P.suffix.size := by
    intro e' hm
    have hc := hcand _ e' l1 hls hm
    obtain ⟨m1, m2, m3⟩ := (D.mt_iff _ e' hls).mp hm
    -- the occurrence lies on the line
    have hin : e' ≤ lineEnd := by
      rcases e4 with e4 | e4
      · have := m2.1; omega
      · apply Classical.byContradiction
        intro hgt
        by_cases hq : lineEnd + P.suffix.size < e'
        · exact m3 lineEnd (by omega) hq e4
        · have := m2.2 (lineEnd - (e' - P.suffix.size)) (by omega)
          rw [show e' - P.suffix.size + (lineEnd - (e' - P.suffix.size)) = lineEnd by omega, e4] at this
          exact D.suf_nonl _ (by omega) this.symm
    apply Classical.byContradiction
    intro hgt
    have := q4 (e' - P.suffix.size) (by omega) (by omega)
    simp only [Bool.and_eq_false_iff, decide_eq_false_iff_not] at this
    rcases this with this | this
    · rw [(occursAt_iff _ _ _).mpr m2] at this; cases this
    · omega
  obtain ⟨s0, e0', hr0⟩ := D.toRefSpec.some_of (a := at_) hat l1 hls hmatch
  obtain ⟨r1, r2, r3⟩ := D.ref_sound at_ s0 e0' hat hr0
  have a1 := D.ref_leftmost at_ s0 e0' hat hr0 _ _ l1 hmatch
  have a2 := hstart s0 e0' r1 r2 r3
  have hs : s0 = lineStartBefore h at_ pos := by omega
  subst hs
  have b1 := hlongest e0' r3
  have b2 := D.ref_longest at_ _ e0' hat hr0 _ hmatch
  have he : e0' = p + P.suffix.size := by omega
  rw [hr0, he]

/-- **the shortcut is exact** for the shape it is meant for -/
theorem dotStar_eq_ref (D : DotStarSpec O P Mt ref h) (hmz : P.matchStartZero = true) {at_ : Nat} (hat : at_ ≤ h.size) :
    findIndicesAt O P h at_ = ref h at_ := by
  have hL := D.suf_pos
  have hnone : (∀ q, at_ ≤ q → ¬ Occ h P.suffix q) → ref h at_ = none := by
    intro hno
    refine D.toRefSpec.none_of hat ?_
    intro s e g1 g2 g3
    obtain ⟨m1, m2, _⟩ := (D.mt_iff s e g2).mp g3
    exact hno (e - P.suffix.size) (by omega) m2
  unfold findIndicesAt
  split
  · rename_i hge
    refine (hnone ?_).symm
    intro q hq ho
    have := ho.1
    omega
  · rename_i hlt
    obtain ⟨n, hn⟩ : ∃ n, h.size - at_ = n + 1 := ⟨h.size - at_ - 1, by omega⟩
    rw [hn, findLoop]
    cases hpf : O.pfFind h at_ with
    | none => exact (hnone (D.pf_none at_ hat hpf)).symm
    | some pos =>
      simp only []
      obtain ⟨p1, p2, p3⟩ := D.pf_some at_ pos hat hpf
      rw [hmz, if_neg (show ¬ (pos + P.suffix.size > h.size) by have := p2.1; omega)]
      simp only [if_true]
      exact (dotStarSpan_eq D hat hpf).symm

end

/-- `IsMatch` reads only the suffix length -/
theorem isMatch_congr (O : Oracles) {P P' : Params} (hs : P.suffix = P'.suffix) (h : Bytes) : isMatch O P h = isMatch O P' h := by
  have key : ∀ (fuel ss ms : Nat), isMatchLoop O P h fuel ss ms = isMatchLoop O P' h fuel ss ms := by
    intro fuel
    induction fuel with
    | zero => intro ss ms; rfl
    | succ fuel ih =>
      intro ss ms
      rw [isMatchLoop, isMatchLoop]
      cases O.pfFind h ss with
      | none => rfl
      | some pos =>
        simp only []
        rw [hs]
        cases O.revLimited h 0 (if pos + P'.suffix.size > h.size then h.size else pos + P'.suffix.size) ms with
        | cutOff => rfl
        | found s => rfl
        | none =>
          simp only []
          split
          · rfl
          · exact ih _ _
  unfold isMatch
  split
  · rfl
  · exact key _ _ _

/-! ### the contracts are satisfiable: brute-force oracles (what the fidelity driver runs the model with) -/

theorem bruteOracles_spec {suf : Bytes} {mt : Nat → Nat → Bool} {rf : Nat → Option (Nat × Nat)} (cutMode : Nat) (giveUp : Bool)
    {P : Params} (hP : P.suffix = suf) {h : Bytes} (hL : 0 < suf.size)
    (R : RefSpec (fun _ s e => mt s e = true) (fun _ a => rf a) h)
    (hnec : ∀ s e, s ≤ h.size → mt s e = true → s + suf.size ≤ e ∧ Occ h suf (e - suf.size))
    (hlb1 : P.lineBounded = true → ∀ s e, s ≤ h.size → mt s e = true → ∀ i, s ≤ i → i < e → h.at i ≠ 10)
    (hlb2 : P.lineBounded = true → ∀ a a' s e, a ≤ h.size → rf a = some (s, e) → a ≤ a' → a' ≤ s → rf a' = some (s, e)) :
    Spec (bruteOracles suf mt rf cutMode giveUp) P (fun _ s e => mt s e = true) (fun _ a => rf a) h where
  toRefSpec := R
  suf_pos := by rw [hP]; exact hL
  pf_some := by
    intro st p _ hf
    rw [hP]
    exact refPfFind_some hf
  pf_none := by
    intro st _ hf
    rw [hP]
    exact refPfFind_none hf
  necessity := by
    intro s e hs hm
    rw [hP]
    exact hnec s e hs hm
  revL_found := by
    intro lo e m s hlo he hr
    simp only [bruteOracles] at hr
    split at hr
    · cases hr
    · split at hr
      · rename_i s1 hf
        cases hr
        obtain ⟨f1, f2, f3, f4⟩ := findFirst_some hf
        refine ⟨f1, by omega, f3, ?_⟩
        intro s' g1 g2
        apply Classical.byContradiction
        intro hlt
        have := f4 s' g1 (by omega)
        rw [g2] at this
        cases this
      · cases hr
  revL_none := by
    intro lo e m hlo he hr s' g1 g2 g3
    simp only [bruteOracles] at hr
    split at hr
    · cases hr
    · split at hr
      · cases hr
      · rename_i hf
        by_cases hs : s' ≤ e
        · have := findFirst_none hf s' g1 (by omega)
          rw [g3] at this
          cases this
        · have := (hnec s' e g2 g3).1
          omega
  revF_some := by
    intro lo e s hlo he hr
    simp only [bruteOracles] at hr
    split at hr
    · cases hr
    · obtain ⟨f1, f2, f3, f4⟩ := findFirst_some hr
      refine ⟨f1, f3, ?_⟩
      intro s' g1 _ g3
      apply Classical.byContradiction
      intro hlt
      have := f4 s' g1 (by omega)
      rw [g3] at this
      cases this
  fwd := fun _ _ => rfl
  pike := fun _ _ => rfl
  lb_nl := hlb1
  lb_restart := hlb2

/-! ### why the flags need their hypotheses: counter-models (brute-force oracles over explicit tables)

`(?s).+z` on "\nz" (matches: [0,2)), told `lineBounded`: the forward search starts after the '\n' and finds nothing.
`[a-z]+xy` on "xy" (no match), told `matchStartZero`: the shortcut reports the candidate's line. -/

example :
    findIndicesAt (bruteOracles #[122] (fun s e => s == 0 && e == 2) (fun a => if a = 0 then some (0, 2) else none) 0 false)
      { suffix := #[122], lineBounded := true } #[10, 122] 0 = none ∧
    findIndicesAt (bruteOracles #[122] (fun s e => s == 0 && e == 2) (fun a => if a = 0 then some (0, 2) else none) 0 false)
      { suffix := #[122], lineBounded := false } #[10, 122] 0 = some (0, 2) := by decide

example :
    findIndicesAt (bruteOracles #[120, 121] (fun _ _ => false) (fun _ => none) 0 false)
      { suffix := #[120, 121], matchStartZero := true } #[120, 121] 0 = some (0, 2) ∧
    findIndicesAt (bruteOracles #[120, 121] (fun _ _ => false) (fun _ => none) 0 false)
      { suffix := #[120, 121], matchStartZero := false } #[120, 121] 0 = none := by decide

/-- the three answers of `SearchReverseLimited` lead to the same result (here: `a.z.z` style input with a failed first
    candidate, then exact answer vs. cutOff vs. a reverse scan that gives up) -/
example :
    let mt : Nat → Nat → Bool := fun s e => (s == 2 && e == 4) || (s == 2 && e == 5) || (s == 3 && e == 5)
    let rf : Nat → Option (Nat × Nat) := fun a => if a ≤ 2 then some (2, 5) else if a = 3 then some (3, 5) else none
    let h : Bytes := #[122, 48, 97, 122, 122]
    (findIndicesAt (bruteOracles #[122] mt rf 0 false) { suffix := #[122] } h 0 = some (2, 5)) ∧
    (findIndicesAt (bruteOracles #[122] mt rf 1 false) { suffix := #[122] } h 0 = some (2, 5)) ∧
    (findIndicesAt (bruteOracles #[122] mt rf 1 true) { suffix := #[122] } h 0 = some (2, 5)) ∧
    ((findIndicesAtT (bruteOracles #[122] mt rf 0 false) { suffix := #[122] } h 0).2.limited = [(0, 1), (1, 4)]) ∧
    ((findIndicesAtT (bruteOracles #[122] mt rf 1 false) { suffix := #[122] } h 0).2.full = some (0, 5)) := by decide

end Cx.RevSuffix
