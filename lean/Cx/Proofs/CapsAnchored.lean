import Cx.Proofs.Caps
/-
  Cx.Proofs.CapsAnchored — (c) for automata flagged anchored (`startAnchored = startUnanchored`):
  `searchWithSlotTableCapturesAnchored` seeds the start position once; its answer is the reference for that single
  start position (`btCapsAnchored`).
-/
namespace Cx.Caps
open Cx Cx.Nfa
open Cx.Pike (Thread Vis clearVis anchored isMatchState closureFuel isBetter hasLeftmost matchesEmptyAt RuneOK succs
  sparseSuccs SparseDisjoint Rel)

/-! ### clean anchored loop -/

def recordKA (last : BestA) (t : CT) (pos : Nat) : BestA :=
  match last with
  | none => some (pos, t.slots)
  | some (l, sl) => if pos > l then some (pos, t.slots) else some (l, sl)

def stepQueueKA (N : NFA) (h : Bytes) (pos : Nat) : List CT → BestA → Vis × List CT → BestA × (Vis × List CT)
  | [], last, vq => (last, vq)
  | t :: ts, last, vq =>
    if isMatchState N t.state then (recordKA last t pos, vq)
    else stepQueueKA N h pos ts last (stepThreadK N h pos t vq)

def endQueueKA (N : NFA) (pos : Nat) : List CT → BestA → BestA
  | [], last => last
  | t :: ts, last => if isMatchState N t.state then recordKA last t pos else endQueueKA N pos ts last

def loopKA (N : NFA) (h : Bytes) : Nat → Nat → List CT → BestA → BestA
  | 0, _, _, last => last
  | fuel+1, pos, Q, last =>
    if pos < h.size then
      let r := stepQueueKA N h pos Q last (clearVis N, [])
      if r.2.2.isEmpty ∧ r.1.isSome then r.1 else loopKA N h fuel (pos+1) r.2.2 r.1
    else endQueueKA N pos Q last

/-! ### the transliterated anchored loop against the clean one -/

theorem recordA_eq (n : Nat) (cur : Array Slots) (last : BestA) (t : CT) (pos : Nat)
    (hrow : cur.getD t.state (unset n) = t.slots) : recordA n cur last t.er pos = recordKA last t pos := by
  unfold recordA recordKA
  simp only [CT.er, hrow]
  cases last with
  | none => rfl
  | some b => obtain ⟨l, sl⟩ := b; rfl

theorem stepQueueCA_sim {N : NFA} {h : Bytes} (hR : RuneOK N h) {pos : Nat} (hp : pos < h.size) (n : Nat)
    (cur : Array Slots) : ∀ (QK : List CT), (∀ t ∈ QK, cur.getD t.state (unset n) = t.slots) →
    ∀ (last : BestA) (s : CS) (k : Vis × List CT), SimR n s k N.states.size → s.vis.size = N.states.size →
    (stepQueueCA N h n false cur pos (QK.map CT.er) last s).1 = (stepQueueKA N h pos QK last k).1 ∧
    SimR n (stepQueueCA N h n false cur pos (QK.map CT.er) last s).2 (stepQueueKA N h pos QK last k).2 N.states.size ∧
    (stepQueueCA N h n false cur pos (QK.map CT.er) last s).2.vis.size = N.states.size := by
  intro QK
  induction QK with
  | nil => intro _ last s k hs hvs; exact ⟨rfl, hs, hvs⟩
  | cons t QK ih =>
    intro hrows last s k hs hvs
    simp only [List.map_cons, stepQueueCA, stepQueueKA]
    have hst : t.er.state = t.state := rfl
    rw [hst]
    split
    · simp only [Bool.not_false, ↓reduceIte]
      exact ⟨recordA_eq n cur last t pos (hrows t List.mem_cons_self), hs, hvs⟩
    · obtain ⟨a1, a2⟩ := stepThreadC_sim hR hp n cur t (hrows t List.mem_cons_self) s k hs hvs
      exact ih (fun x hx => hrows x (List.mem_cons_of_mem _ hx)) last _ _ a1 a2

theorem endQueueCA_eq (N : NFA) (n : Nat) (cur : Array Slots) (pos : Nat) : ∀ (QK : List CT),
    (∀ t ∈ QK, cur.getD t.state (unset n) = t.slots) → ∀ (last : BestA),
    endQueueCA N n cur pos (QK.map CT.er) last = endQueueKA N pos QK last := by
  intro QK
  induction QK with
  | nil => intro _ last; rfl
  | cons t QK ih =>
    intro hrows last
    simp only [List.map_cons, endQueueCA, endQueueKA]
    have hst : t.er.state = t.state := rfl
    rw [hst]
    split
    · exact recordA_eq n cur last t pos (hrows t List.mem_cons_self)
    · exact ih (fun x hx => hrows x (List.mem_cons_of_mem _ hx)) last

theorem loopCA_eq {N : NFA} {h : Bytes} (hR : RuneOK N h) (n : Nat) : ∀ (fuel pos : Nat) (ls : LS) (QK : List CT)
    (last : BestA), ls.queue = QK.map CT.er → (∀ t ∈ QK, ls.cur.getD t.state (unset n) = t.slots) →
    ls.cur.size = N.states.size → ls.nxt.size = N.states.size →
    loopCA N h n false fuel pos ls last = loopKA N h fuel pos QK last := by
  intro fuel
  induction fuel with
  | zero => intro pos ls QK last _ _ _ _; rfl
  | succ fuel ih =>
    intro pos ls QK last hq hrows hcs hns
    rw [loopCA, loopKA, hq]
    split
    · rename_i hp
      obtain ⟨b1, ⟨c1, c2, c3⟩, b3⟩ := stepQueueCA_sim hR hp n ls.cur QK hrows last
        { vis := clearVis N, slots := unset n, tab := ls.nxt, out := [] } (clearVis N, [])
        ⟨rfl, ⟨rfl, fun _ ht => by simp at ht⟩, hns⟩ (by simp [clearVis])
      generalize stepQueueCA N h n false ls.cur pos (QK.map CT.er) last
        { vis := clearVis N, slots := unset n, tab := ls.nxt, out := [] } = RC at b1 c1 c2 c3 b3 ⊢
      generalize stepQueueKA N h pos QK last (clearVis N, []) = RK at b1 c1 c2 c3 ⊢
      obtain ⟨rb, rs⟩ := RC
      obtain ⟨kb, kv, kq⟩ := RK
      simp only at b1 c1 c2 c3 b3 ⊢
      subst b1
      have hrec := ih (pos+1) { queue := rs.out, vis := rs.vis, cur := rs.tab, nxt := ls.cur } kq rb c2.1
        (fun t ht => (c2.2 t ht).2) c3 hcs
      rw [c2.1]
      simp only [List.isEmpty_map] at hrec ⊢
      rw [c2.1] at hrec
      split
      · rfl
      · exact hrec
    · exact endQueueCA_eq N n ls.cur pos QK hrows last


/-! ### the clean anchored loop is the generation-wise search -/

def bestOfA : Nat × QT → Nat × Slots
  | (e, .thr M) => (e, M.slots)
  | (e, .seeder) => (e, [])

theorem stepQueueKA_eq (N : NFA) (h : Bytes) (pos : Nat) (Q : List CT) : ∀ (last : BestA) (vq : Vis × List CT),
    stepQueueKA N h pos Q last vq =
      ((match findMK N Q with
        | some M => recordKA last M pos
        | none => last), stepAllK N h pos (beforeMK N Q) vq) := by
  induction Q with
  | nil => intro last vq; rfl
  | cons t ts ih =>
    intro last vq
    cases hm : isMatchState N t.state with
    | true => simp [stepQueueKA, findMK, beforeMK, hm, stepAllK]
    | false =>
      simp only [stepQueueKA, hm, Bool.false_eq_true, ↓reduceIte]
      rw [ih]
      simp [findMK, beforeMK, hm, stepAllK]

theorem endQueueKA_eq (N : NFA) (pos : Nat) (Q : List CT) : ∀ (last : BestA),
    endQueueKA N pos Q last = match findMK N Q with
      | some M => recordKA last M pos
      | none => last := by
  induction Q with
  | nil => intro last; rfl
  | cons t ts ih =>
    intro last
    cases hm : isMatchState N t.state with
    | true => simp [endQueueKA, findMK, hm]
    | false =>
      simp only [endQueueKA, hm, Bool.false_eq_true, ↓reduceIte]
      rw [ih]
      simp [findMK, hm]

theorem recordKA_new {last : BestA} {M : CT} {pos : Nat} (hl : ∀ l lsl, last = some (l, lsl) → l < pos) :
    recordKA last M pos = some (pos, M.slots) := by
  unfold recordKA
  cases last with
  | none => rfl
  | some b =>
    obtain ⟨l, lsl⟩ := b
    have := hl l lsl rfl
    simp [this]

theorem loopKA_eq_RG (N : NFA) (h : Bytes) (n : Nat) : ∀ (fuel pos : Nat) (Q : List CT) (last : BestA),
    fuel = h.size + 1 - pos → pos ≤ h.size → (∀ l lsl, last = some (l, lsl) → l < pos) →
    loopKA N h fuel pos Q last =
      ((RQ N h n (List.replicate (h.size - pos) (clearVis N)) pos (Q.map QT.thr)).1.map bestOfA).or last := by
  intro fuel
  induction fuel with
  | zero => intro pos Q last hf hp; omega
  | succ fuel ih =>
    intro pos Q last hf hp hl
    rw [loopKA]
    by_cases hlt : pos < h.size
    · rw [if_pos hlt, stepQueueKA_eq]
      simp only []
      rw [replicate_succ' N (by omega : 0 < h.size - pos)]
      have hk : h.size - pos - 1 = h.size - (pos + 1) := by omega
      rw [hk]
      unfold RQ
      simp only [RG]
      rw [beforeM_thr, stepAllG_thr, hereM_thr]
      simp only []
      cases hf' : findMK N Q with
      | none =>
        simp only [Option.map_none, Option.or_none]
        split
        · rename_i hc
          have hnil : (stepAllK N h pos (beforeMK N Q) (clearVis N, [])).2 = [] := by simpa using hc.1
          rw [hnil]
          simp [RG_nil]
        · exact ih (pos+1) _ last (by omega) (by omega) (fun l lsl he => by have := hl l lsl he; omega)
      | some M =>
        simp only [recordKA_new hl, Option.map_some]
        rw [map_or]
        simp only [Option.map_some, bestOfA, or_some_or']
        split
        · rename_i hc
          have hnil : (stepAllK N h pos (beforeMK N Q) (clearVis N, [])).2 = [] := by simpa using hc.1
          rw [hnil]
          simp [RG_nil]
        · have := ih (pos+1) (stepAllK N h pos (beforeMK N Q) (clearVis N, [])).2 (some (pos, M.slots)) (by omega)
            (by omega) (fun l lsl he => by simp only [Option.some.injEq, Prod.mk.injEq] at he; omega)
          rw [this]
    · rw [if_neg hlt, endQueueKA_eq]
      have hz : h.size - pos = 0 := by omega
      rw [hz]
      unfold RQ
      simp only [List.replicate_zero, RG, hereM_thr]
      cases hf' : findMK N Q with
      | none => simp
      | some M => simp [recordKA_new hl, bestOfA]

/-- (c) for automata flagged anchored: the capture search started at any `at ≤ len(haystack)` returns the
    slots of the first accepting path of the priority DFS from that single start position -/
theorem pikeCaps_anchored_eq {N : NFA} {h : Bytes} (ha : anchored N = true) (hd : SparseDisjoint N) (hR : RuneOK N h)
    {at_ : Nat} (hat : at_ ≤ h.size) (n : Nat) :
    pikeCaps N h at_ n = (btCapsAnchored N h at_ n).map normCaps := by
  unfold pikeCaps pikeCapsL
  rw [if_neg (by omega), ha]
  simp only [↓reduceIte]
  unfold searchCapsAnchored
  simp only []
  -- the seed closure
  obtain ⟨s1, s2, s3⟩ := addThreadC_sim N h at_ n ⟨N.startAnchored, at_⟩
    { vis := clearVis N, slots := unset n, tab := freshTab N n, out := [] } []
    ⟨rfl, fun _ ht => by simp at ht⟩ (by simp [freshTab, clearVis]) (by simp [clearVis])
  simp only at s1 s2 s3
  rw [loopCA_eq hR n (h.size + 1 - at_) at_ _ _ none s2.1 (fun t ht => (s2.2 t ht).2)
    (by rw [s3]; simp [freshTab]) (by simp [freshTab])]
  rw [loopKA_eq_RG N h n _ at_ _ none rfl (by omega) (fun l lsl he => by cases he)]
  simp only [Option.or_none]
  -- generation-wise = level-organised DFS = reference
  have hFR := FG_eq_RG (stepQ N h n) (isMQ N) (h.size - at_) (List.replicate (h.size - at_) (clearVis N)) (by simp)
    ((addThreadK N h at_ ⟨N.startAnchored, at_, unset n⟩ (clearVis N, [])).2.map QT.thr) at_
  unfold RQ
  rw [← hFR.1]
  have hrel := Pike.rel_fresh N h at_ (by omega) (h.size - at_ + 1) (by omega)
  have hpe : h.size + 1 - (h.size - at_ + 1) = at_ := by omega
  rw [hpe, List.replicate_succ] at hrel
  have hS := S1K_all (c := { N := N, h := h, spanStart := at_ }) (n := n) hd hR (btFuel N h) at_ N.startAnchored at_
    (unset n) (freshVis N h) (clearVis N) (List.replicate (h.size - at_) (clearVis N)) (closureFuel N)
    (Nat.le_refl _) (by simp; omega) hrel (freshVis_fuel N h)
    (by rw [Pike.clearVis_count]; simp only [closureFuel]; omega)
  obtain ⟨a1, _⟩ := hS
  simp only [List.length_replicate] at a1
  unfold FQ at a1
  have hadd : addThreadK N h at_ ⟨N.startAnchored, at_, unset n⟩ (clearVis N, []) =
      closureK N h at_ (closureFuel N) [⟨N.startAnchored, at_, unset n⟩] (clearVis N) [] := rfl
  rw [hadd]
  unfold btCapsAnchored
  rw [if_neg (by omega)]
  rcases a1 with ⟨b1, b2⟩ | ⟨e, sl, M, b1, b2, hM1, hM2⟩
  · rw [b1, b2]; rfl
  · rw [b1, b2]
    simp only [Option.map_some, bestOfA, buildCaps, hM2, normCaps_withSpan]

end Cx.Caps
