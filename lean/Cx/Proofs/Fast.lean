import Cx.Spec.Fast
import Cx.Spec.StdLoops
import Cx.Spec.ReRef
import Cx.Proofs.Utf8
/-
  Cx.Proofs.Fast — exactness of coregex's fast-path searchers (models: Cx.Model.Fast) with respect to the byte-level
  leftmost-first specifications of Cx.Spec.Fast, and "applicability predicate ⇒ fragment" theorems.
  Counterexamples (findings) live in Cx.Proofs.FastCex.  Core Lean only; axioms: propext, Classical.choice, Quot.sound.

  (1) CharClassSearcher  (nfa/charclass_searcher.go, charclass_extract.go)
        CharClassSearcher.searchAt_eq_spec      1 ≤ minMatch → searchAt = ccFind mem minMatch            (all h, at)
        CharClassSearcher.isMatch_eq            isMatch = (searchAt h 0).isSome                         (every minMatch)
        CharClassSearcher.findAllIndices_eq_loop 1 ≤ minMatch → findAllIndices = stdlib FindAll loop over searchAt
        CharClassSearcher.count_eq_length       count = (findAllIndices).length
        ccFind_some_iff / ccFind_none_iff / le_runLen_iff / runLen_maximal      declarative reading of the spec
        isSimpleCharClassPlus_fragment, isSimpleCharClassPlus_greedy, charClassSearcher_exact,
        charClassSearcher_eq_reference          (no hypothesis beyond acceptance: `greedy` is derived)
        refFind_plus_eq_ccFind                  ccFind = general reference matcher on greedy ASCII `cls+`
  (2) CompositeSearcher  (nfa/composite.go)
        CompositeSearcher.matchFrom_eq / searchAt_eq_spec (parts ≠ []) / isMatch_eq
        refMatch_some_iff, compFind_some_iff, compFind_none_iff    spec = lexicographically greatest valid count tuple
        isCompositeCharClassPattern_fragment / _greedy / _noZeroMax / _lastAscii / _ascii (the last needs `ClassSorted`)
        compositeSearcher_exact                 (no hypothesis beyond acceptance: `greedy`, `noZeroMax` are derived)
        refFind_composite_eq_compFind           compFind (greedy AND lazy parts) = general reference matcher on ASCII classes
        compositeSearcher_eq_reference          (hyps. `repOK`, `sorted`: parser invariants; `ascii` is derived)
  (3) anchored literal   (meta/anchored_literal.go)
        matchAnchoredLiteral_iff_spec / _eq_spec / anchoredFindAt_eq_spec / anchoredIsMatch_eq  (hyp. `WF`; `.` as the
                                                `info` says — the matcher checks the wildcard span, `wildcardOK_iff`)
        detectAnchoredLiteral_fragment (case-sensitive literals, ASCII-tested bridge), detectAnchoredLiteral_wf,
        anchoredFrag_wildcardNL, anchoredLiteral_exact   (no hypothesis beyond detection)
  (4) BranchDispatcher   (nfa/branch_dispatch.go)
        BranchDispatcher.isMatch_eq, BranchDispatcher.search_eq_spec (hyp. `WF`), branchDispatcher_exact (hyp. `bdFrag`)
  (5) ExtractFirstBytes  (nfa/firstbytes.go)
        extract_sound, firstBytes_filter_sound (hyp. `fbFrag`)
-/
namespace Cx.Fast
open Cx Cx.Fast.Spec

theorem at_eq_getElem (h : Bytes) (i : Nat) (hi : i < h.size) : h.at i = h[i] := by
  simp [Bytes.at, Array.getD, hi]

theorem drop_eq_cons (h : Bytes) (i : Nat) (hi : i < h.size) :
    h.toList.drop i = h.at i :: h.toList.drop (i+1) := by
  rw [at_eq_getElem h i hi]
  have : i < h.toList.length := by simpa using hi
  rw [List.drop_eq_getElem_cons this]
  simp

theorem runLen_ge (mem : Nat → Bool) (h : Bytes) (s : Nat) (hs : h.size ≤ s) : runLen mem h s = 0 := by
  unfold runLen
  rw [List.drop_eq_nil_of_le (by simpa using hs)]
  rfl

theorem runLen_lt (mem : Nat → Bool) (h : Bytes) (s : Nat) (hs : s < h.size) :
    runLen mem h s = if mem (h.at s) then runLen mem h (s+1) + 1 else 0 := by
  unfold runLen
  rw [drop_eq_cons h s hs, List.takeWhile_cons]
  split <;> simp

theorem runLen_le (mem : Nat → Bool) (h : Bytes) (s : Nat) : runLen mem h s ≤ h.size - s := by
  generalize hk : h.size - s = k
  induction k generalizing s with
  | zero => rw [runLen_ge mem h s (by omega)]; exact Nat.le_refl 0
  | succ k ih =>
    rw [runLen_lt mem h s (by omega)]
    split
    · have := ih (s+1) (by omega); omega
    · omega

/-! ### leastFrom -/

theorem leastFrom_unfold (p : Nat → Bool) (n a : Nat) :
    leastFrom p n a = if a ≤ n then (if p a then some a else leastFrom p n (a+1)) else none := by
  unfold leastFrom
  by_cases ha : a ≤ n
  · have : n + 1 - a = (n + 1 - (a+1)) + 1 := by omega
    rw [if_pos ha, this, List.range'_succ, List.find?_cons]
    cases p a <;> simp
  · have : n + 1 - a = 0 := by omega
    rw [if_neg ha, this]; rfl

theorem leastFrom_gt (p : Nat → Bool) (n a : Nat) (ha : n < a) : leastFrom p n a = none := by
  rw [leastFrom_unfold, if_neg (by omega)]

theorem leastFrom_skip (p : Nat → Bool) (n a a' : Nat) (hle : a ≤ a')
    (hno : ∀ j, a ≤ j → j < a' → p j = false) : leastFrom p n a = leastFrom p n a' := by
  generalize hk : a' - a = k
  induction k generalizing a with
  | zero => have : a = a' := by omega
            subst this; rfl
  | succ k ih =>
    rw [leastFrom_unfold p n a]
    by_cases ha : a ≤ n
    · rw [if_pos ha, hno a (Nat.le_refl _) (by omega)]
      simp only [Bool.false_eq_true, if_false]
      exact ih (a+1) (by omega) (fun j h1 h2 => hno j (by omega) h2) (by omega)
    · rw [if_neg ha, leastFrom_gt p n a' (by omega)]

theorem leastFrom_eq_some (p : Nat → Bool) (n a s : Nat) (h1 : a ≤ s) (h2 : s ≤ n) (hp : p s = true)
    (hno : ∀ j, a ≤ j → j < s → p j = false) : leastFrom p n a = some s := by
  rw [leastFrom_skip p n a s h1 hno, leastFrom_unfold, if_pos h2, if_pos hp]

theorem leastFrom_eq_none (p : Nat → Bool) (n a : Nat)
    (hno : ∀ j, a ≤ j → j ≤ n → p j = false) : leastFrom p n a = none := by
  rw [leastFrom_skip p n a (max a (n+1)) (by omega) (fun j h1 h2 => hno j h1 (by omega)), leastFrom_gt]
  omega

theorem leastFrom_some_iff (p : Nat → Bool) (n a s : Nat) :
    leastFrom p n a = some s ↔ a ≤ s ∧ s ≤ n ∧ p s = true ∧ ∀ j, a ≤ j → j < s → p j = false := by
  constructor
  · intro h
    generalize hk : n + 1 - a = k at *
    induction k generalizing a with
    | zero => rw [leastFrom_gt p n a (by omega)] at h; exact nomatch h
    | succ k ih =>
      rw [leastFrom_unfold, if_pos (by omega)] at h
      by_cases hp : p a = true
      · rw [if_pos hp] at h
        cases h
        exact ⟨Nat.le_refl _, by omega, hp, fun j h1 h2 => by omega⟩
      · rw [if_neg hp] at h
        obtain ⟨h1, h2, h3, h4⟩ := ih (a+1) h (by omega)
        refine ⟨by omega, h2, h3, fun j hj1 hj2 => ?_⟩
        by_cases hja : j = a
        · subst hja; simpa using hp
        · exact h4 j (by omega) hj2
  · rintro ⟨h1, h2, h3, h4⟩
    exact leastFrom_eq_some p n a s h1 h2 h3 h4

theorem leastFrom_none_iff (p : Nat → Bool) (n a : Nat) :
    leastFrom p n a = none ↔ ∀ j, a ≤ j → j ≤ n → p j = false := by
  constructor
  · intro h j h1 h2
    cases hp : p j with
    | false => rfl
    | true =>
      -- there is a least one
      exfalso
      generalize hk : j - a = k
      induction k generalizing a with
      | zero =>
        have : a = j := by omega
        subst this
        rw [leastFrom_unfold, if_pos h2, if_pos hp] at h
        exact nomatch h
      | succ k ih =>
        rw [leastFrom_unfold, if_pos (by omega)] at h
        by_cases hpa : p a = true
        · rw [if_pos hpa] at h; exact nomatch h
        · rw [if_neg hpa] at h
          exact ih (a+1) h (by omega) (by omega)
  · exact leastFrom_eq_none p n a

/-! ### CharClassSearcher -/
namespace CharClassSearcher

theorem findStart_none (mem : Nat → Bool) (h : Bytes) (k i : Nat) (hk : i + k = h.size)
    (hf : findStart mem h k i = none) : ∀ j, i ≤ j → j < h.size → mem (h.at j) = false := by
  induction k generalizing i with
  | zero => intro j h1 h2; omega
  | succ k ih =>
    intro j h1 h2
    rw [findStart] at hf
    by_cases hm : mem (h.at i) = true
    · rw [if_pos hm] at hf; exact nomatch hf
    · rw [if_neg hm] at hf
      by_cases hji : j = i
      · subst hji; simpa using hm
      · exact ih (i+1) (by omega) hf j (by omega) h2

theorem findStart_some (mem : Nat → Bool) (h : Bytes) (k i st : Nat) (hk : i + k = h.size)
    (hf : findStart mem h k i = some st) :
    i ≤ st ∧ st < h.size ∧ mem (h.at st) = true ∧ ∀ j, i ≤ j → j < st → mem (h.at j) = false := by
  induction k generalizing i with
  | zero => rw [findStart] at hf; exact nomatch hf
  | succ k ih =>
    rw [findStart] at hf
    by_cases hm : mem (h.at i) = true
    · rw [if_pos hm] at hf
      cases hf
      exact ⟨Nat.le_refl _, by omega, hm, fun j h1 h2 => by omega⟩
    · rw [if_neg hm] at hf
      obtain ⟨h1, h2, h3, h4⟩ := ih (i+1) (by omega) hf
      refine ⟨by omega, h2, h3, fun j hj1 hj2 => ?_⟩
      by_cases hji : j = i
      · subst hji; simpa using hm
      · exact h4 j (by omega) hj2

theorem scanEnd_eq (mem : Nat → Bool) (h : Bytes) (k e : Nat) (hk : e + k = h.size) :
    scanEnd mem h k e = e + runLen mem h e := by
  induction k generalizing e with
  | zero => rw [scanEnd, runLen_ge mem h e (by omega)]; rfl
  | succ k ih =>
    rw [scanEnd, runLen_lt mem h e (by omega)]
    split
    · rw [ih (e+1) (by omega)]; omega
    · rfl

theorem runLen_zero_of_not_mem (mem : Nat → Bool) (h : Bytes) (j : Nat) (hm : j < h.size → mem (h.at j) = false) :
    runLen mem h j = 0 := by
  by_cases hj : j < h.size
  · rw [runLen_lt mem h j hj, hm hj]; rfl
  · exact runLen_ge mem h j (by omega)

theorem searchAtAux_eq (s : CharClassSearcher) (h : Bytes) (hm : 1 ≤ s.minMatch) :
    ∀ f a, h.size - a < f → searchAtAux s h f a = ccFind s.mem s.minMatch h a := by
  intro f
  induction f with
  | zero => intro a ha; omega
  | succ f ih =>
    intro a ha
    rw [searchAtAux]
    unfold ccFind
    by_cases hge : a ≥ h.size
    · rw [if_pos hge, leastFrom_eq_none]
      · rfl
      · intro j h1 h2
        rw [runLen_ge s.mem h j (by omega)]
        simp; omega
    · rw [if_neg hge]
      cases hf : findStart s.mem h (h.size - a) a with
      | none =>
        have hn := findStart_none s.mem h _ a (by omega) hf
        rw [leastFrom_eq_none]
        · rfl
        · intro j h1 h2
          rw [runLen_zero_of_not_mem s.mem h j (fun hj => hn j h1 hj)]
          simp; omega
      | some st =>
        obtain ⟨h1, h2, h3, h4⟩ := findStart_some s.mem h _ a st (by omega) hf
        simp only []
        rw [scanEnd_eq s.mem h _ (st+1) (by omega)]
        have hrl : runLen s.mem h st = runLen s.mem h (st+1) + 1 := by
          rw [runLen_lt s.mem h st h2, if_pos h3]
        have hzero : ∀ j, a ≤ j → j < st → decide (s.minMatch ≤ runLen s.mem h j) = false := by
          intro j hj1 hj2
          rw [runLen_zero_of_not_mem s.mem h j (fun _ => h4 j hj1 hj2)]
          simp; omega
        by_cases hshort : st + 1 + runLen s.mem h (st+1) - st < s.minMatch
        · rw [if_pos hshort, ih (st+1) (by omega)]
          unfold ccFind
          rw [leastFrom_skip _ h.size a (st+1) (by omega)]
          intro j hj1 hj2
          by_cases hjs : j = st
          · subst hjs; simp; omega
          · exact hzero j hj1 (by omega)
        · rw [if_neg hshort, leastFrom_eq_some _ h.size a st h1 (by omega) (by simp; omega) hzero]
          simp only [Option.map_some]
          congr 2
          omega

/-- **CharClassSearcher.SearchAt is exact** for `[cls]{minMatch,}` (greedy) whenever `minMatch ≥ 1`. -/
theorem searchAt_eq_spec (s : CharClassSearcher) (hm : 1 ≤ s.minMatch) (h : Bytes) (a : Nat) :
    s.searchAt h a = ccFind s.mem s.minMatch h a :=
  searchAtAux_eq s h hm (h.size + 1) a (by omega)

end CharClassSearcher

namespace CharClassSearcher

/-! #### IsMatch -/

theorem isMatchLoop_zero (s : CharClassSearcher) (h : Bytes) (hm : s.minMatch = 0) :
    ∀ k i ml, isMatchLoop s h k i ml = (findStart s.mem h k i).isSome := by
  intro k
  induction k with
  | zero => intro i ml; rfl
  | succ k ih =>
    intro i ml
    rw [isMatchLoop, findStart]
    by_cases hmem : s.mem (h.at i) = true
    · rw [if_pos hmem, if_pos hmem, if_pos (by omega)]; rfl
    · rw [if_neg hmem, if_neg hmem, ih]

theorem isMatchLoop_iff (s : CharClassSearcher) (h : Bytes) :
    ∀ k i ml, i + k = h.size → ml < s.minMatch →
      (isMatchLoop s h k i ml = true ↔
        (s.minMatch ≤ ml + runLen s.mem h i ∨ ∃ j, i < j ∧ j ≤ h.size ∧ s.minMatch ≤ runLen s.mem h j)) := by
  intro k
  induction k with
  | zero =>
    intro i ml hk hml
    rw [isMatchLoop, runLen_ge s.mem h i (by omega)]
    constructor
    · intro hf; exact nomatch hf
    · rintro (hc | ⟨j, h1, h2, _⟩) <;> omega
  | succ k ih =>
    intro i ml hk hml
    rw [isMatchLoop, runLen_lt s.mem h i (by omega)]
    by_cases hmem : s.mem (h.at i) = true
    · rw [if_pos hmem, if_pos hmem]
      by_cases hge : ml + 1 ≥ s.minMatch
      · rw [if_pos hge]
        constructor
        · intro _; left; omega
        · intro _; rfl
      · rw [if_neg hge, ih (i+1) (ml+1) (by omega) (by omega)]
        constructor
        · rintro (hc | ⟨j, h1, h2, h3⟩)
          · left; omega
          · right; exact ⟨j, by omega, h2, h3⟩
        · rintro (hc | ⟨j, h1, h2, h3⟩)
          · left; omega
          · by_cases hj : j = i + 1
            · subst hj; left; omega
            · right; exact ⟨j, by omega, h2, h3⟩
    · rw [if_neg hmem, if_neg hmem, ih (i+1) 0 (by omega) (by omega)]
      constructor
      · rintro (hc | ⟨j, h1, h2, h3⟩)
        · right; exact ⟨i+1, by omega, by omega, by omega⟩
        · right; exact ⟨j, by omega, h2, h3⟩
      · rintro (hc | ⟨j, h1, h2, h3⟩)
        · omega
        · by_cases hj : j = i + 1
          · subst hj; left; omega
          · right; exact ⟨j, by omega, h2, h3⟩

/-- `IsMatch` agrees with `SearchAt(h, 0)` for every `minMatch` (also 0). -/
theorem isMatch_eq (s : CharClassSearcher) (h : Bytes) : s.isMatch h = (s.searchAt h 0).isSome := by
  by_cases hm : s.minMatch = 0
  · unfold isMatch searchAt
    rw [isMatchLoop_zero s h hm, searchAtAux]
    by_cases hge : 0 ≥ h.size
    · rw [if_pos hge]
      have : h.size = 0 := by omega
      rw [this]; rfl
    · rw [if_neg hge]
      cases findStart s.mem h (h.size - 0) 0 with
      | none => rfl
      | some st => simp only []; rw [if_neg (by omega)]; rfl
  · have hm1 : 1 ≤ s.minMatch := by omega
    rw [searchAt_eq_spec s hm1]
    unfold isMatch
    rw [Bool.eq_iff_iff, isMatchLoop_iff s h h.size 0 0 (by omega) (by omega)]
    unfold ccFind
    rw [Option.isSome_map, Option.isSome_iff_ne_none, ne_eq, leastFrom_none_iff]
    constructor
    · rintro (hc | ⟨j, h1, h2, h3⟩) hall
      · have := hall 0 (Nat.le_refl _) (Nat.zero_le _); simp at this; omega
      · have := hall j (Nat.zero_le _) h2; simp at this; omega
    · intro hne
      false_or_by_contra
      rename_i hcon
      apply hne
      intro j _ h2
      simp only [decide_eq_false_iff_not]
      intro hle
      apply hcon
      by_cases hj : j = 0
      · subst hj; left; omega
      · right; exact ⟨j, by omega, h2, hle⟩

end CharClassSearcher

/-- plain iteration: report the match found from `pos`, continue at its end (valid when no match is empty) -/
def iter (find : Nat → Option (Nat × Nat)) (len : Nat) : Nat → Nat → List (Nat × Nat)
  | 0, _ => []
  | f+1, pos =>
    if pos > len then [] else
    match find pos with
    | none => []
    | some (s, e) => (s, e) :: iter find len f e

/-- every reported match is non-empty, starts at or after the search position and lies inside the haystack -/
def FindNE (find : Nat → Option (Nat × Nat)) (len : Nat) : Prop :=
  ∀ pos s e, find pos = some (s, e) → pos ≤ s ∧ s < e ∧ e ≤ len

/-- stdlib's `allMatches` degenerates to `iter` when no match is empty (the `prevMatchEnd` / width logic is dead). -/
theorem stdAll_eq_iter (find : Nat → Option (Nat × Nat)) (w : Nat → Nat) (len : Nat) (hne : FindNE find len) :
    ∀ fuel pos i prev, i ≤ pos →
      Std.stdAll find id w len fuel pos i prev (len + 1) = iter find len fuel pos := by
  intro fuel
  induction fuel with
  | zero => intros; rfl
  | succ fuel ih =>
    intro pos i prev hi
    rw [Std.stdAll, iter]
    by_cases hp : pos > len
    · rw [if_pos (by omega), if_pos hp]
    · rw [if_neg (by omega), if_neg hp]
      cases hf : find pos with
      | none => rfl
      | some m =>
        obtain ⟨s, e⟩ := m
        obtain ⟨h1, h2, h3⟩ := hne pos s e hf
        simp only [id]
        rw [if_neg (by omega), ih e (i+1) (some e) (by omega)]

theorem iter_congr (find : Nat → Option (Nat × Nat)) (len f a b : Nat) (ha : a ≤ len) (hb : b ≤ len)
    (hab : find a = find b) : iter find len f a = iter find len f b := by
  cases f with
  | zero => rfl
  | succ f => rw [iter, iter, if_neg (by omega), if_neg (by omega), hab]

theorem runLen_add (mem : Nat → Bool) (h : Bytes) (i k : Nat) (hk : k ≤ runLen mem h i) :
    runLen mem h (i + k) = runLen mem h i - k := by
  induction k with
  | zero => rfl
  | succ k ih =>
    have ih := ih (by omega)
    have hlt : i + k < h.size := by
      false_or_by_contra
      rw [runLen_ge mem h (i+k) (by omega)] at ih
      omega
    rw [runLen_lt mem h (i+k) hlt] at ih
    split at ih
    · rw [← Nat.add_assoc]; omega
    · omega

namespace CharClassSearcher

theorem ccFind_ne (mem : Nat → Bool) (m : Nat) (hm : 1 ≤ m) (h : Bytes) : FindNE (ccFind mem m h) h.size := by
  intro pos s e hf
  unfold ccFind at hf
  cases hl : leastFrom (fun s => decide (m ≤ runLen mem h s)) h.size pos with
  | none => rw [hl] at hf; exact nomatch hf
  | some s' =>
    rw [hl] at hf
    simp only [Option.map_some, Option.some.injEq, Prod.mk.injEq] at hf
    obtain ⟨rfl, rfl⟩ := hf
    obtain ⟨h1, h2, h3, _⟩ := (leastFrom_some_iff _ _ _ _).mp hl
    simp only [decide_eq_true_eq] at h3
    have := runLen_le mem h s'
    omega

theorem ccFind_skip (mem : Nat → Bool) (m : Nat) (h : Bytes) (a b : Nat) (hab : a ≤ b)
    (hno : ∀ j, a ≤ j → j < b → runLen mem h j < m) : ccFind mem m h a = ccFind mem m h b := by
  unfold ccFind
  rw [leastFrom_skip _ h.size a b hab]
  intro j h1 h2
  have := hno j h1 h2
  simp; omega

theorem ccFind_here (mem : Nat → Bool) (m : Nat) (h : Bytes) (a : Nat) (ha : a ≤ h.size)
    (hrl : m ≤ runLen mem h a) : ccFind mem m h a = some (a, a + runLen mem h a) := by
  unfold ccFind
  rw [leastFrom_eq_some _ h.size a a (Nat.le_refl _) ha (by simpa using hrl) (fun j h1 h2 => by omega)]
  rfl

theorem ccFind_end (mem : Nat → Bool) (m : Nat) (hm : 1 ≤ m) (h : Bytes) : ccFind mem m h h.size = none := by
  unfold ccFind
  rw [leastFrom_eq_none]
  · rfl
  · intro j h1 h2
    rw [runLen_ge mem h j h1]; simp; omega

theorem findAllLoop_eq (s : CharClassSearcher) (h : Bytes) (hm : 1 ≤ s.minMatch) :
    ∀ k i, i + k = h.size →
      (∀ ms f, h.size + 1 - i < f →
        findAllLoop s h k i false ms = iter (ccFind s.mem s.minMatch h) h.size f i) ∧
      (∀ ms f, h.size + 1 - i < f → ms ≤ i →
        findAllLoop s h k i true ms =
          if i + runLen s.mem h i - ms ≥ s.minMatch
          then (ms, i + runLen s.mem h i) :: iter (ccFind s.mem s.minMatch h) h.size f (i + runLen s.mem h i)
          else iter (ccFind s.mem s.minMatch h) h.size f (i + runLen s.mem h i)) := by
  intro k
  induction k with
  | zero =>
    intro i hk
    have hi : i = h.size := by omega
    subst hi
    have hiter : ∀ f, h.size + 1 - h.size < f → iter (ccFind s.mem s.minMatch h) h.size f h.size = [] := by
      intro f hf
      obtain ⟨f, rfl⟩ : ∃ f', f = f' + 1 := ⟨f - 1, by omega⟩
      rw [iter, if_neg (by omega), ccFind_end s.mem s.minMatch hm h]
    constructor
    · intro ms f hf
      rw [hiter f hf]; rfl
    · intro ms f hf hms
      rw [runLen_ge s.mem h h.size (Nat.le_refl _), Nat.add_zero, hiter f hf, findAllLoop]
      simp only [Bool.true_and, decide_eq_true_eq]
  | succ k ih =>
    intro i hk
    have hlt : i < h.size := by omega
    obtain ⟨ihA, ihB⟩ := ih (i+1) (by omega)
    have hrl := runLen_lt s.mem h i hlt
    constructor
    · intro ms f hf
      rw [findAllLoop]
      simp only [Bool.not_false, if_true]
      by_cases hmem : s.mem (h.at i) = true
      · rw [if_pos hmem]
        rw [if_pos hmem] at hrl
        have he : i + 1 + runLen s.mem h (i+1) = i + runLen s.mem h i := by omega
        by_cases hlong : s.minMatch ≤ runLen s.mem h i
        · obtain ⟨f, rfl⟩ : ∃ f', f = f' + 1 := ⟨f - 1, by omega⟩
          rw [ihB i f (by omega) (by omega), he, if_pos (by omega), iter, if_neg (by omega),
            ccFind_here s.mem s.minMatch h i (by omega) hlong]
        · rw [ihB i f (by omega) (by omega), he, if_neg (by omega)]
          apply iter_congr _ _ _ _ _ (by have := runLen_le s.mem h i; omega) (by omega)
          symm
          apply ccFind_skip _ _ _ _ _ (by omega)
          intro j h1 h2
          have := runLen_add s.mem h i (j - i) (by omega)
          have hj : i + (j - i) = j := by omega
          rw [hj] at this
          omega
      · rw [if_neg hmem, ihA ms f (by omega)]
        rw [if_neg hmem] at hrl
        apply iter_congr _ _ _ _ _ (by omega) (by omega)
        symm
        apply ccFind_skip _ _ _ _ _ (by omega)
        intro j h1 h2
        have : j = i := by omega
        subst this; omega
    · intro ms f hf hms
      rw [findAllLoop]
      simp only [Bool.not_true, Bool.false_eq_true, if_false]
      by_cases hmem : s.mem (h.at i) = true
      · rw [if_pos hmem] at hrl
        have he : i + 1 + runLen s.mem h (i+1) = i + runLen s.mem h i := by omega
        simp only [hmem, Bool.not_true, Bool.false_eq_true, if_false]
        rw [ihB ms f (by omega) (by omega), he]
      · rw [if_neg hmem] at hrl
        have hnm : (!s.mem (h.at i)) = true := by simpa using hmem
        rw [if_pos hnm, hrl, ihA ms f (by omega)]
        have hc : iter (ccFind s.mem s.minMatch h) h.size f (i+1) = iter (ccFind s.mem s.minMatch h) h.size f i := by
          apply iter_congr _ _ _ _ _ (by omega) (by omega)
          symm
          apply ccFind_skip _ _ _ _ _ (by omega)
          intro j h1 h2
          have : j = i := by omega
          subst this; omega
        rw [hc]; rfl

/-- **`FindAllIndices` (the streaming state machine) = stdlib's `FindAllIndex` loop over `SearchAt`.** -/
theorem findAllIndices_eq_loop (s : CharClassSearcher) (hm : 1 ≤ s.minMatch) (h : Bytes) (w : Nat → Nat) :
    s.findAllIndices h = Std.stdFindAll (s.searchAt h) id w h.size (-1) := by
  have hfind : s.searchAt h = ccFind s.mem s.minMatch h := funext (searchAt_eq_spec s hm h)
  unfold Std.stdFindAll
  simp only [show ((-1 : Int) < 0) from by decide, if_true]
  rw [hfind, stdAll_eq_iter _ w h.size (ccFind_ne s.mem s.minMatch hm h) _ 0 0 none (Nat.le_refl _)]
  unfold findAllIndices
  by_cases hz : h.size = 0
  · rw [if_pos hz, hz, iter, if_neg (by omega)]
    have := ccFind_end s.mem s.minMatch hm h
    rw [hz] at this
    rw [this]
  · rw [if_neg hz]
    exact (findAllLoop_eq s h hm h.size 0 (by omega)).1 0 _ (by omega)

theorem countLoop_eq (s : CharClassSearcher) (h : Bytes) :
    ∀ k i m ms, countLoop s h k i m ms = (findAllLoop s h k i m ms).length := by
  intro k
  induction k with
  | zero => intro i m ms; rw [countLoop, findAllLoop]; split <;> rfl
  | succ k ih =>
    intro i m ms
    rw [countLoop, findAllLoop]
    split
    · split <;> exact ih _ _ _
    · split
      · split
        · rw [ih, List.length_cons]
        · exact ih _ _ _
      · exact ih _ _ _

/-- `Count` = number of spans `FindAllIndices` reports (for every `minMatch`). -/
theorem count_eq_length (s : CharClassSearcher) (h : Bytes) : s.count h = (s.findAllIndices h).length := by
  unfold count findAllIndices
  split
  · rfl
  · exact countLoop_eq s h _ _ _ _

end CharClassSearcher

theorem tableOfRanges_mem (rs : List (Nat × Nat)) (b : Nat) :
    (tableOfRanges rs).mem b = (decide (b < 256) && rs.any fun r => decide (r.1 ≤ b) && decide (b ≤ r.2)) := by
  unfold Table.mem tableOfRanges
  by_cases hb : b < 256
  · simp [Array.getD, hb]
  · simp [Array.getD, hb]

section
attribute [local irreducible] tableOfRanges

/-! ### declarative reading of the `[cls]{m,}` specification -/

theorem le_runLen_iff (mem : Nat → Bool) (h : Bytes) (s k : Nat) :
    k ≤ runLen mem h s ↔ ∀ i, i < k → s + i < h.size ∧ mem (h.at (s + i)) = true := by
  induction k generalizing s with
  | zero => exact ⟨fun _ i hi => by omega, fun _ => Nat.zero_le _⟩
  | succ k ih =>
    by_cases hs : s < h.size
    · rw [runLen_lt mem h s hs]
      by_cases hm : mem (h.at s) = true
      · rw [if_pos hm, Nat.succ_le_succ_iff, ih (s+1)]
        constructor
        · intro hall i hi
          cases i with
          | zero => exact ⟨hs, hm⟩
          | succ i =>
            have := hall i (by omega)
            rw [show s + 1 + i = s + (i + 1) by omega] at this
            exact this
        · intro hall i hi
          have := hall (i+1) (by omega)
          rw [show s + (i + 1) = s + 1 + i by omega] at this
          exact this
      · rw [if_neg hm]
        constructor
        · intro hc; omega
        · intro hall; exact absurd (hall 0 (by omega)).2 hm
    · rw [runLen_ge mem h s (by omega)]
      constructor
      · intro hc; omega
      · intro hall; have := (hall 0 (by omega)).1; omega

/-- the run cannot be extended: it stops at the end of the haystack or in front of a non-class byte -/
theorem runLen_maximal (mem : Nat → Bool) (h : Bytes) (s : Nat) :
    h.size ≤ s + runLen mem h s ∨ mem (h.at (s + runLen mem h s)) = false := by
  by_cases hlt : s + runLen mem h s < h.size
  · right
    have := runLen_add mem h s (runLen mem h s) (Nat.le_refl _)
    rw [runLen_lt mem h _ hlt] at this
    split at this
    · omega
    · rename_i hm; simpa using hm
  · left; omega

theorem ccFind_some_iff (mem : Nat → Bool) (m : Nat) (h : Bytes) (a s e : Nat) :
    ccFind mem m h a = some (s, e) ↔
      a ≤ s ∧ s ≤ h.size ∧ m ≤ runLen mem h s ∧ e = s + runLen mem h s ∧ ∀ j, a ≤ j → j < s → runLen mem h j < m := by
  unfold ccFind
  constructor
  · intro hf
    cases hl : leastFrom (fun s => decide (m ≤ runLen mem h s)) h.size a with
    | none => rw [hl] at hf; exact nomatch hf
    | some s' =>
      rw [hl] at hf
      simp only [Option.map_some, Option.some.injEq, Prod.mk.injEq] at hf
      obtain ⟨rfl, rfl⟩ := hf
      obtain ⟨h1, h2, h3, h4⟩ := (leastFrom_some_iff _ _ _ _).mp hl
      refine ⟨h1, h2, by simpa using h3, rfl, fun j hj1 hj2 => ?_⟩
      have := h4 j hj1 hj2
      simp at this; omega
  · rintro ⟨h1, h2, h3, rfl, h5⟩
    rw [leastFrom_eq_some _ h.size a s h1 h2 (by simpa using h3)]
    · rfl
    · intro j hj1 hj2
      have := h5 j hj1 hj2
      simp; omega

theorem ccFind_none_iff (mem : Nat → Bool) (m : Nat) (h : Bytes) (a : Nat) :
    ccFind mem m h a = none ↔ ∀ j, a ≤ j → j ≤ h.size → runLen mem h j < m := by
  unfold ccFind
  rw [Option.map_eq_none_iff, leastFrom_none_iff]
  constructor
  · intro hall j h1 h2; have := hall j h1 h2; simp at this; omega
  · intro hall j h1 h2; have := hall j h1 h2; simp; omega

/-! ### `IsSimpleCharClassPlus` ⇒ fragment, exactness at the AST level -/

theorem extractCharClassRanges_fragment (re : Re) (ranges : List (Nat × Nat))
    (hx : extractCharClassRanges re = some ranges) : IsCharClassPlus re ranges := by
  unfold extractCharClassRanges at hx
  split at hx
  · exact nomatch hx
  · rename_i hop
    split at hx
    · exact nomatch hx
    · rename_i hgr
      split at hx
      · rename_i sub hsub
        split at hx
        · exact nomatch hx
        · rename_i hcc
          split at hx
          · exact nomatch hx
          · simp only [] at hx
            split at hx
            · exact nomatch hx
            · rename_i hany
              split at hx
              · exact nomatch hx
              · rename_i hne
                cases hx
                refine ⟨by simpa using hop, by simpa using hgr, ⟨sub, hsub, by simpa using hcc, rfl⟩, ?_, ?_⟩
                · intro hnil; rw [hnil] at hne; exact hne rfl
                · intro r hr
                  simp only [List.any_eq_true, Bool.or_eq_true, decide_eq_true_eq, not_exists, not_and, not_or] at hany
                  have := hany r hr
                  omega
      · exact nomatch hx

theorem isSimpleCharClassPlus_fragment (re : Re) (hok : isSimpleCharClassPlus re = true) :
    ∃ ranges, extractCharClassRanges re = some ranges ∧ IsCharClassPlus re ranges := by
  unfold isSimpleCharClassPlus at hok
  cases hx : extractCharClassRanges re with
  | none => rw [hx] at hok; exact nomatch hok
  | some ranges => exact ⟨ranges, rfl, extractCharClassRanges_fragment re ranges hx⟩

/-- **`IsSimpleCharClassPlus` only accepts greedy quantifiers** (the NonGreedy test of `ExtractCharClassRanges`) -/
theorem isSimpleCharClassPlus_greedy (re : Re) (hok : isSimpleCharClassPlus re = true) : re.nonGreedy = false := by
  obtain ⟨_, _, hf⟩ := isSimpleCharClassPlus_fragment re hok
  exact hf.2.1

/-- what meta builds: always `minMatch = 1` -/
theorem buildCharClassSearcher_eq (re : Re) (ranges : List (Nat × Nat))
    (hx : extractCharClassRanges re = some ranges) :
    buildCharClassSearcher re = some (CharClassSearcher.new ranges 1) := by
  have hf := extractCharClassRanges_fragment re ranges hx
  have hns : ¬ (re.op = .star) := by rw [hf.1]; intro hc; exact nomatch hc
  unfold buildCharClassSearcher
  rw [hx, Option.map_some, if_neg hns]

/-- **AST-level exactness of the CharClassSearcher strategy**: on EVERY pattern `IsSimpleCharClassPlus` accepts, the
    searcher meta builds computes the leftmost-first match of the pattern (`plusFind` reads the `NonGreedy` flag of the
    AST; acceptance implies the flag is clear, `isSimpleCharClassPlus_greedy`). -/
theorem charClassSearcher_exact (re : Re) (hok : isSimpleCharClassPlus re = true) :
    ∃ ranges, IsCharClassPlus re ranges ∧
      buildCharClassSearcher re = some (CharClassSearcher.new ranges 1) ∧
      ∀ h a, (CharClassSearcher.new ranges 1).searchAt h a
              = plusFind re.nonGreedy (CharClassSearcher.new ranges 1).mem h a := by
  obtain ⟨ranges, hx, hf⟩ := isSimpleCharClassPlus_fragment re hok
  refine ⟨ranges, hf, buildCharClassSearcher_eq re ranges hx, fun h a => ?_⟩
  rw [hf.2.1, CharClassSearcher.searchAt_eq_spec _ (Nat.le_refl 1) h a]
  rfl

/-- the table built from `ranges` is the class: byte `b` is a member iff it lies in one of the ranges -/
theorem new_mem_iff (ranges : List (Nat × Nat)) (m b : Nat) :
    (CharClassSearcher.new ranges m).mem b = true ↔ b < 256 ∧ ∃ r ∈ ranges, r.1 ≤ b ∧ b ≤ r.2 := by
  rw [show (CharClassSearcher.new ranges m).mem b = (tableOfRanges ranges).mem b from rfl, tableOfRanges_mem]
  simp
end

/-! ## CompositeSearcher -/
namespace CompositeSearcher

theorem consume_eq (mem : Nat → Bool) (h : Bytes) (k i : Nat) :
    consume mem h k i = min k (runLen mem h i) := by
  induction k generalizing i with
  | zero => rw [consume]; omega
  | succ k ih =>
    rw [consume]
    by_cases hi : i < h.size
    · rw [runLen_lt mem h i hi]
      by_cases hm : mem (h.at i) = true
      · simp only [hi, hm, decide_true, Bool.and_self, if_true]
        rw [ih]; omega
      · simp only [hm, Bool.and_false, Bool.false_eq_true, if_false]
        omega
    · rw [runLen_ge mem h i (by omega)]
      simp only [hi, decide_false, Bool.false_and, Bool.false_eq_true, if_false]
      omega

theorem consume_maxLen (p : CharClassPart) (h : Bytes) (pos : Nat) :
    consume p.mem h (maxLen p h.size pos) pos = (partOf p).top h pos := by
  rw [consume_eq]
  have hle := runLen_le p.mem h pos
  unfold maxLen Part.top partOf
  by_cases hpos : p.maxMatch > 0
  · simp only [hpos, if_true, true_and]
    show _ = min p.maxMatch.toNat (runLen p.mem h pos)
    split
    · rfl
    · rename_i hnl
      have : (h.size - pos : Nat) ≤ p.maxMatch.toNat := by omega
      omega
  · simp only [hpos, if_false, false_and]
    show _ = runLen p.mem h pos
    omega

theorem tryDown_lt (rest : Nat → Option Nat) (pos lo t : Nat) (hlt : t < lo) : tryDown rest pos lo t = none := by
  cases t with
  | zero => rw [tryDown, if_neg (by omega)]
  | succ t => rw [tryDown, if_neg (by omega)]

theorem tryDown_eq (rest : Nat → Option Nat) (pos lo t : Nat) :
    tryDown rest pos lo t =
      (((List.range (t + 1)).filter (fun k => decide (lo ≤ k))).reverse).findSome? (fun k => rest (pos + k)) := by
  induction t with
  | zero =>
    rw [tryDown]
    by_cases hlo : 0 ≥ lo
    · rw [if_pos hlo]
      have : lo = 0 := by omega
      subst this
      simp [List.range_succ]
    · rw [if_neg hlo]
      have : ¬ (lo ≤ 0) := by omega
      simp [List.range_succ, this]
  | succ t ih =>
    rw [tryDown, List.range_succ, List.filter_append, List.reverse_append]
    by_cases hlo : t + 1 ≥ lo
    · rw [if_pos hlo]
      have : decide (lo ≤ t + 1) = true := by simpa using hlo
      simp only [List.filter_cons, this, if_true, List.filter_nil, List.reverse_cons, List.reverse_nil,
        List.nil_append, List.cons_append, List.findSome?_cons]
      cases rest (pos + (t + 1)) with
      | some e => rfl
      | none => simp only []; exact ih
    · rw [if_neg hlo]
      have : decide (lo ≤ t + 1) = false := by simpa using hlo
      simp only [List.filter_cons, this, Bool.false_eq_true, if_false, List.filter_nil, List.reverse_nil, List.nil_append]
      rw [← ih, tryDown_lt _ _ _ _ (by omega)]

theorem candidates_partOf (p : CharClassPart) (h : Bytes) (s : Nat) :
    (partOf p).candidates h s =
      ((List.range ((partOf p).top h s + 1)).filter (fun k => decide (p.minMatch ≤ k))).reverse := by
  unfold Part.candidates
  rfl

theorem findSome?_map {α β γ : Type} (f : β → γ) (g : α → Option β) (l : List α) :
    (l.findSome? g).map f = l.findSome? (fun a => (g a).map f) := by
  induction l with
  | nil => rfl
  | cons a l ih =>
    rw [List.findSome?_cons, List.findSome?_cons]
    cases g a with
    | some b => rfl
    | none => exact ih

/-- the backtracking helper is the reference matcher -/
theorem matchFrom_eq (h : Bytes) (ps : List CharClassPart) :
    ∀ pos, matchFrom h ps pos = (refMatch h (ps.map partOf) pos).map (fun ks => pos + ks.sum) := by
  induction ps with
  | nil => intro pos; rfl
  | cons p ps ih =>
    intro pos
    rw [matchFrom, consume_maxLen, tryDown_eq, List.map_cons, refMatch, candidates_partOf, findSome?_map]
    congr 1
    funext k
    rw [ih (pos + k), Option.map_map]
    congr 1
    funext ks
    simp only [Function.comp, List.sum_cons]
    omega

theorem searchLoop_eq (c : CompositeSearcher) (h : Bytes) :
    ∀ k pos, pos + k = h.size + 1 →
      searchLoop c h k pos = compFind (c.parts.map partOf) h pos := by
  intro k
  induction k with
  | zero =>
    intro pos hk
    unfold compFind
    rw [searchLoop, leastFrom_gt _ _ _ (by omega)]; rfl
  | succ k ih =>
    intro pos hk
    unfold compFind
    rw [searchLoop, leastFrom_unfold, if_pos (by omega)]
    unfold matchAt
    rw [matchFrom_eq]
    cases hr : refMatch h (c.parts.map partOf) pos with
    | some ks => simp [hr]
    | none =>
      simp only [Option.map_none, Option.isSome_none, Bool.false_eq_true, if_false]
      rw [ih (pos+1) (by omega)]
      rfl

/-- **CompositeSearcher.SearchAt is exact**: it returns the leftmost-first match of the greedy concatenation
    `c1{m1,n1} … ck{mk,nk}` its part records denote (`maxMatch ≤ 0` read as "unbounded"). -/
theorem searchAt_eq_spec (c : CompositeSearcher) (hne : c.parts ≠ []) (h : Bytes) (a : Nat) :
    c.searchAt h a = compFind (c.parts.map partOf) h a := by
  unfold searchAt
  have : c.parts.length ≠ 0 := by
    intro hl; exact hne (List.length_eq_zero_iff.mp hl)
  rw [if_neg this]
  by_cases ha : a ≤ h.size + 1
  · exact searchLoop_eq c h _ a (by omega)
  · have : h.size + 1 - a = 0 := by omega
    rw [this, searchLoop]
    unfold compFind
    rw [leastFrom_gt _ _ _ (by omega)]; rfl

theorem isMatch_eq (c : CompositeSearcher) (h : Bytes) : c.isMatch h = (c.searchAt h 0).isSome := rfl

theorem search_eq (c : CompositeSearcher) (h : Bytes) : c.search h = c.searchAt h 0 := rfl

end CompositeSearcher

/-! ### the reference matcher selects the lexicographically greatest valid count tuple (all-greedy case) -/

theorem mem_candidates_iff (p : Part) (h : Bytes) (s k : Nat) :
    k ∈ p.candidates h s ↔ p.admits h s k := by
  unfold Part.candidates Part.admits Part.top
  have : ∀ l : List Nat, (k ∈ (if p.lazy = true then l else l.reverse)) ↔ k ∈ l := by
    intro l; split <;> simp
  rw [this]
  simp only [List.mem_filter, List.mem_range, decide_eq_true_eq]
  cases p.hi with
  | none =>
    simp only []
    constructor
    · rintro ⟨h1, h2⟩; exact ⟨h2, (fun b hb => nomatch hb), by omega⟩
    · rintro ⟨h1, _, h3⟩; exact ⟨by omega, h1⟩
  | some b =>
    simp only []
    constructor
    · rintro ⟨h1, h2⟩
      refine ⟨h2, fun b' hb => ?_, by omega⟩
      cases hb; omega
    · rintro ⟨h1, h2, h3⟩
      have := h2 b rfl
      exact ⟨by omega, h1⟩

theorem refMatch_sound (h : Bytes) (ps : List Part) :
    ∀ s ks, refMatch h ps s = some ks → Valid h ps s ks := by
  induction ps with
  | nil => intro s ks hr; rw [refMatch] at hr; cases hr; trivial
  | cons p ps ih =>
    intro s ks hr
    rw [refMatch] at hr
    obtain ⟨k, hk, hkr⟩ := List.exists_of_findSome?_eq_some hr
    cases hr' : refMatch h ps (s + k) with
    | none => rw [hr'] at hkr; exact nomatch hkr
    | some ks' =>
      rw [hr'] at hkr
      cases hkr
      exact ⟨(mem_candidates_iff p h s k).mp hk, ih _ _ hr'⟩

/-- first success in a strictly descending list: it is at an element `≥` any given successful element -/
theorem findSome?_desc {β : Type} (g : Nat → Option β) (l : List Nat) (hd : l.Pairwise (· > ·))
    (x : Nat) (y : β) (hx : x ∈ l) (hg : g x = some y) :
    ∃ k z, k ∈ l ∧ x ≤ k ∧ g k = some z ∧ l.findSome? g = some z := by
  induction l with
  | nil => exact nomatch hx
  | cons a l ih =>
    rw [List.findSome?_cons]
    rw [List.pairwise_cons] at hd
    cases hga : g a with
    | some z =>
      refine ⟨a, z, List.mem_cons_self, ?_, hga, rfl⟩
      rcases List.mem_cons.mp hx with rfl | hxl
      · exact Nat.le_refl _
      · exact Nat.le_of_lt (hd.1 x hxl)
    | none =>
      rcases List.mem_cons.mp hx with rfl | hxl
      · rw [hga] at hg; exact nomatch hg
      · obtain ⟨k, z, hk, hle, hgk, hf⟩ := ih hd.2 hxl
        exact ⟨k, z, List.mem_cons_of_mem _ hk, hle, hgk, hf⟩

theorem candidates_desc (p : Part) (hg : p.lazy = false) (h : Bytes) (s : Nat) :
    (p.candidates h s).Pairwise (· > ·) := by
  unfold Part.candidates
  simp only [hg, Bool.false_eq_true, if_false]
  rw [List.pairwise_reverse]
  apply List.Pairwise.filter
  exact List.pairwise_lt_range

theorem LexLE_refl : ∀ ks : List Nat, LexLE ks ks
  | [] => trivial
  | _ :: ks => Or.inr ⟨rfl, LexLE_refl ks⟩

theorem LexLE_antisymm : ∀ as bs : List Nat, LexLE as bs → LexLE bs as → as = bs
  | [], [], _, _ => rfl
  | [], _ :: _, h, _ => nomatch h
  | _ :: _, [], h, _ => nomatch h
  | a :: as, b :: bs, h1, h2 => by
    rcases h1 with h1 | ⟨rfl, h1⟩
    · rcases h2 with h2 | ⟨rfl, _⟩ <;> omega
    · rcases h2 with h2 | ⟨_, h2⟩
      · omega
      · rw [LexLE_antisymm as bs h1 h2]

/-- completeness + optimality: whenever some count tuple is valid, the reference matcher succeeds with a tuple that is
    lexicographically at least as large -/
theorem refMatch_greatest (h : Bytes) (ps : List Part) (hgr : ∀ p ∈ ps, p.lazy = false) :
    ∀ s ks', Valid h ps s ks' → ∃ ks, refMatch h ps s = some ks ∧ LexLE ks' ks := by
  induction ps with
  | nil =>
    intro s ks' hv
    cases ks' with
    | nil => exact ⟨[], rfl, trivial⟩
    | cons _ _ => exact nomatch hv
  | cons p ps ih =>
    intro s ks' hv
    cases ks' with
    | nil => exact nomatch hv
    | cons k' ks' =>
      obtain ⟨hadm, hv'⟩ := hv
      obtain ⟨ks0, hr0, hle0⟩ := ih (fun q hq => hgr q (List.mem_cons_of_mem _ hq)) (s + k') ks' hv'
      rw [refMatch]
      have hmem := (mem_candidates_iff p h s k').mpr hadm
      obtain ⟨k, z, hk, hle, hgk, hf⟩ :=
        findSome?_desc (fun k => (refMatch h ps (s + k)).map (k :: ·)) _
          (candidates_desc p (hgr p List.mem_cons_self) h s) k' (k' :: ks0) hmem (by simp [hr0])
      refine ⟨z, hf, ?_⟩
      cases hrk : refMatch h ps (s + k) with
      | none => simp [hrk] at hgk
      | some ks1 =>
        simp only [hrk, Option.map_some, Option.some.injEq] at hgk
        subst hgk
        by_cases hkk : k' = k
        · subst hkk
          rw [hr0] at hrk
          cases hrk
          exact Or.inr ⟨rfl, hle0⟩
        · exact Or.inl (by omega)

/-- **the reference matcher computes exactly the greedy (lexicographically greatest) valid tuple** -/
theorem refMatch_some_iff (h : Bytes) (ps : List Part) (hgr : ∀ p ∈ ps, p.lazy = false) (s : Nat) (ks : List Nat) :
    refMatch h ps s = some ks ↔ IsGreedyMatch h ps s ks := by
  constructor
  · intro hr
    refine ⟨refMatch_sound h ps s ks hr, fun ks' hv' => ?_⟩
    obtain ⟨ks0, hr0, hle⟩ := refMatch_greatest h ps hgr s ks' hv'
    rw [hr] at hr0; cases hr0; exact hle
  · rintro ⟨hv, hmax⟩
    obtain ⟨ks0, hr0, hle⟩ := refMatch_greatest h ps hgr s ks hv
    have := hmax ks0 (refMatch_sound h ps s ks0 hr0)
    rw [LexLE_antisymm ks ks0 hle this]
    exact hr0

theorem refMatch_none_iff (h : Bytes) (ps : List Part) (hgr : ∀ p ∈ ps, p.lazy = false) (s : Nat) :
    refMatch h ps s = none ↔ ∀ ks, ¬ Valid h ps s ks := by
  constructor
  · intro hr ks hv
    obtain ⟨ks0, hr0, _⟩ := refMatch_greatest h ps hgr s ks hv
    rw [hr] at hr0; exact nomatch hr0
  · intro hall
    cases hr : refMatch h ps s with
    | none => rfl
    | some ks => exact absurd (refMatch_sound h ps s ks hr) (hall ks)

/-- declarative reading of `compFind` (all parts greedy): leftmost start that admits a valid tuple, greedy tuple there -/
theorem compFind_some_iff (h : Bytes) (ps : List Part) (hgr : ∀ p ∈ ps, p.lazy = false) (a s e : Nat) :
    compFind ps h a = some (s, e) ↔
      a ≤ s ∧ s ≤ h.size ∧ (∃ ks, IsGreedyMatch h ps s ks ∧ e = s + ks.sum) ∧
        ∀ j, a ≤ j → j < s → ∀ ks, ¬ Valid h ps j ks := by
  unfold compFind
  constructor
  · intro hf
    cases hl : leastFrom (fun s => (refMatch h ps s).isSome) h.size a with
    | none => rw [hl] at hf; exact nomatch hf
    | some s' =>
      rw [hl, Option.bind_some] at hf
      obtain ⟨h1, h2, h3, h4⟩ := (leastFrom_some_iff _ _ _ _).mp hl
      cases hr : refMatch h ps s' with
      | none => rw [hr] at hf; exact nomatch hf
      | some ks =>
        rw [hr] at hf
        simp only [Option.map_some, Option.some.injEq, Prod.mk.injEq] at hf
        obtain ⟨rfl, rfl⟩ := hf
        refine ⟨h1, h2, ⟨ks, (refMatch_some_iff h ps hgr _ ks).mp hr, rfl⟩, fun j hj1 hj2 => ?_⟩
        have := h4 j hj1 hj2
        rw [Option.isSome_eq_false_iff, Option.isNone_iff_eq_none] at this
        exact (refMatch_none_iff h ps hgr j).mp this
  · rintro ⟨h1, h2, ⟨ks, hgm, rfl⟩, h4⟩
    have hr := (refMatch_some_iff h ps hgr s ks).mpr hgm
    rw [leastFrom_eq_some _ h.size a s h1 h2 (by simp [hr])]
    · simp [hr]
    · intro j hj1 hj2
      rw [(refMatch_none_iff h ps hgr j).mpr (h4 j hj1 hj2)]; rfl

theorem compFind_none_iff (h : Bytes) (ps : List Part) (hgr : ∀ p ∈ ps, p.lazy = false) (a : Nat) :
    compFind ps h a = none ↔ ∀ j, a ≤ j → j ≤ h.size → ∀ ks, ¬ Valid h ps j ks := by
  unfold compFind
  constructor
  · intro hf j hj1 hj2
    apply (refMatch_none_iff h ps hgr j).mp
    cases hl : leastFrom (fun s => (refMatch h ps s).isSome) h.size a with
    | none =>
      have := (leastFrom_none_iff _ _ _).mp hl j hj1 hj2
      simpa using this
    | some s' =>
      rw [hl, Option.bind_some] at hf
      obtain ⟨_, _, h3, _⟩ := (leastFrom_some_iff _ _ _ _).mp hl
      cases hr : refMatch h ps s' with
      | none => rw [hr] at h3; exact nomatch h3
      | some ks => rw [hr] at hf; exact nomatch hf
  · intro hall
    rw [leastFrom_eq_none]
    · rfl
    · intro j hj1 hj2
      rw [(refMatch_none_iff h ps hgr j).mpr (hall j hj1 hj2)]; rfl

theorem mapM_option_cons {α β : Type} (f : α → Option β) (a : α) (l : List α) :
    (a :: l).mapM f = (f a).bind fun b => (l.mapM f).bind fun bs => some (b :: bs) := by
  rw [List.mapM_cons]
  cases f a <;> rfl

theorem mapM_option_nil {α β : Type} (f : α → Option β) : ([] : List α).mapM f = some [] := by
  rw [List.mapM_nil]; rfl

/-! ### `IsCompositeCharClassPattern` ⇒ fragment, exactness at the AST level -/

theorem compositePartClass_of_quant (x : Re) (hq : QuantClass x) :
    ∃ cc, compositePartClass x = some cc ∧ cc.rune = classRunes x := by
  unfold compositePartClass classRunes
  rcases hq with h | ⟨hop, c, hc, hcc⟩
  · exact ⟨x, by rw [if_pos h], by rw [if_pos h]⟩
  · have hn : ¬ x.op = .charClass := by
      rcases hop with h | h | h | h <;> rw [h] <;> exact fun hc => nomatch hc
    refine ⟨c, ?_, ?_⟩
    · rw [if_neg hn, hc]; simp [hcc]
    · rw [if_neg hn, hc]

/-- everything `isValidCompositePart` checks: the shape, and the three exclusions added by the fix
    (non-greedy quantifier, `{…,0}`, last class rune above U+007F) -/
theorem isValidCompositePart_props (x : Re) (hv : isValidCompositePart x = true) :
    QuantClass x ∧ x.nonGreedy = false ∧ (x.op = .repeat_ → x.max ≠ 0) ∧
      lastRuneAbove7F (classRunes x) = false := by
  unfold isValidCompositePart at hv
  by_cases hgr : x.nonGreedy = true
  · rw [if_pos hgr] at hv; exact nomatch hv
  · rw [if_neg hgr] at hv
    by_cases hzero : x.op = .repeat_ ∧ x.max = 0
    · rw [if_pos hzero] at hv; exact nomatch hv
    · rw [if_neg hzero] at hv
      by_cases hcls : compositePartNonAscii x = true
      · rw [if_pos hcls] at hv; exact nomatch hv
      · rw [if_neg hcls] at hv
        have hq : QuantClass x := by
          unfold QuantClass
          cases hop : x.op <;> rw [hop] at hv <;> simp only [] at hv <;>
            first
            | exact absurd hv (by decide)
            | exact Or.inl rfl
            | (right
               split at hv
               · rename_i c hsub
                 exact ⟨by simp, c, hsub, by simpa using hv⟩
               · exact absurd hv (by decide))
        refine ⟨hq, by simpa using hgr, fun hop hmax => hzero ⟨hop, hmax⟩, ?_⟩
        obtain ⟨cc, hcc, hrune⟩ := compositePartClass_of_quant x hq
        unfold compositePartNonAscii at hcls
        rw [hcc] at hcls
        simp only [] at hcls
        rw [← hrune]
        simpa using hcls

theorem isValidCompositePart_frag (x : Re) (hv : isValidCompositePart x = true) : QuantClass x :=
  (isValidCompositePart_props x hv).1

theorem isCompositeCharClassPattern_parts (re : Re) (hok : isCompositeCharClassPattern re = true) :
    ∀ x ∈ re.sub, isValidCompositePart x = true := by
  unfold isCompositeCharClassPattern at hok
  simp only [Bool.and_eq_true, decide_eq_true_eq, List.all_eq_true] at hok
  exact hok.2

/-- **`IsCompositeCharClassPattern` implies the fragment** -/
theorem isCompositeCharClassPattern_fragment (re : Re) (hok : isCompositeCharClassPattern re = true) :
    CompositeFrag re := by
  have hparts := isCompositeCharClassPattern_parts re hok
  unfold isCompositeCharClassPattern at hok
  simp only [Bool.and_eq_true, decide_eq_true_eq, List.all_eq_true] at hok
  exact ⟨hok.1.1, hok.1.2, fun x hx => isValidCompositePart_frag x (hparts x hx)⟩

/-- **`IsCompositeCharClassPattern` only accepts greedy parts** -/
theorem isCompositeCharClassPattern_greedy (re : Re) (hok : isCompositeCharClassPattern re = true) : AllGreedy re :=
  fun x hx => (isValidCompositePart_props x (isCompositeCharClassPattern_parts re hok x hx)).2.1

/-- **`IsCompositeCharClassPattern` accepts no `{…,0}` part** -/
theorem isCompositeCharClassPattern_noZeroMax (re : Re) (hok : isCompositeCharClassPattern re = true) : NoZeroMax re :=
  fun x hx => (isValidCompositePart_props x (isCompositeCharClassPattern_parts re hok x hx)).2.2.1

/-- what the Go test literally establishes: the LAST rune of every part's class is `≤ 0x7F` -/
theorem isCompositeCharClassPattern_lastAscii (re : Re) (hok : isCompositeCharClassPattern re = true) :
    ∀ x ∈ re.sub, lastRuneAbove7F (classRunes x) = false :=
  fun x hx => (isValidCompositePart_props x (isCompositeCharClassPattern_parts re hok x hx)).2.2.2

theorem le_of_sorted_getLast (l : List Nat) (hs : l.Pairwise (· ≤ ·)) (m : Nat) (hl : l.getLast? = some m) :
    ∀ r ∈ l, r ≤ m := by
  obtain ⟨l1, rfl⟩ := List.getLast?_eq_some_iff.mp hl
  intro r hr
  rcases List.mem_append.mp hr with hr | hr
  · exact (List.pairwise_append.mp hs).2.2 r hr m (by simp)
  · have : r = m := by simpa using hr
    omega

/-- for a sorted `Rune` (parser invariant) the last-rune test is "every member is ASCII" -/
theorem all_ascii_of_sorted (l : List Nat) (hs : l.Pairwise (· ≤ ·)) (hl : lastRuneAbove7F l = false) :
    ∀ r ∈ l, r ≤ 127 := by
  intro r hr
  unfold lastRuneAbove7F at hl
  cases hg : l.getLast? with
  | none => rw [List.getLast?_eq_none_iff] at hg; subst hg; exact nomatch hr
  | some m =>
    rw [hg] at hl
    simp only [decide_eq_false_iff_not] at hl
    have := le_of_sorted_getLast l hs m hg r hr
    omega

/-- **`IsCompositeCharClassPattern` only accepts ASCII classes** (on parser output: `Rune` sorted) -/
theorem isCompositeCharClassPattern_ascii (re : Re) (hok : isCompositeCharClassPattern re = true)
    (sorted : ClassSorted re) : AsciiOnly re :=
  fun x hx => all_ascii_of_sorted _ (sorted x hx) (isCompositeCharClassPattern_lastAscii re hok x hx)

theorem QuantClass.astPart_isSome {x : Re} (hq : QuantClass x) : (astPart x).isSome = true := by
  unfold astPart
  rcases hq with h | ⟨h | h | h | h, c, hc, _⟩ <;> simp [*]

section
attribute [local irreducible] tableOfRanges

/-- one part: the searcher's record denotes the AST quantifier, provided the quantifier is greedy and not `{…,0}` -/
theorem extractSinglePart_astPart (x : Re) (p : CharClassPart) (hx : extractSinglePart x = some p)
    (hg : x.nonGreedy = false) (hz : x.op = .repeat_ → x.max ≠ 0) :
    QuantClass x ∧ astPart x = some (partOf p) := by
  unfold extractSinglePart at hx
  simp only [] at hx
  unfold astPart partOf
  split at hx
  · exact nomatch hx
  · rename_i cc lo hi hshape
    split at hx
    · exact nomatch hx
    · rename_i hcc
      have hcc : cc.op = .charClass := by simpa using hcc
      split at hx
      · exact nomatch hx
      · cases hx
        split at hshape
        · -- plus
          rename_i hop
          split at hshape
          · rename_i c hsub
            cases hshape
            refine ⟨Or.inr ⟨Or.inl hop, _, hsub, hcc⟩, ?_⟩
            simp [hop, hsub, hg]; rfl
          · exact nomatch hshape
        · rename_i hop
          split at hshape
          · rename_i c hsub
            cases hshape
            refine ⟨Or.inr ⟨Or.inr (Or.inl hop), _, hsub, hcc⟩, ?_⟩
            simp [hop, hsub, hg]; rfl
          · exact nomatch hshape
        · rename_i hop
          split at hshape
          · rename_i c hsub
            cases hshape
            refine ⟨Or.inr ⟨Or.inr (Or.inr (Or.inl hop)), _, hsub, hcc⟩, ?_⟩
            simp [hop, hsub, hg]; rfl
          · exact nomatch hshape
        · rename_i hop
          split at hshape
          · rename_i c hsub
            cases hshape
            refine ⟨Or.inr ⟨Or.inr (Or.inr (Or.inr hop)), _, hsub, hcc⟩, ?_⟩
            have hz := hz hop
            simp only [hop, hsub, hg]
            congr 2
            by_cases hneg : x.max < 0
            · simp [hneg]; omega
            · have : x.max > 0 := by omega
              simp [hneg, this]
          · exact nomatch hshape
        · rename_i hop
          cases hshape
          refine ⟨Or.inl hop, ?_⟩
          simp [hop]; rfl
        · exact nomatch hshape

theorem extractParts_astParts (subs : List Re) (ps : List CharClassPart)
    (hx : subs.mapM extractSinglePart = some ps)
    (hg : ∀ x ∈ subs, x.nonGreedy = false) (hz : ∀ x ∈ subs, x.op = .repeat_ → x.max ≠ 0) :
    (∀ x ∈ subs, QuantClass x) ∧ subs.mapM astPart = some (ps.map partOf) ∧ ps.length = subs.length := by
  induction subs generalizing ps with
  | nil =>
    rw [mapM_option_nil] at hx; cases hx
    exact ⟨(fun x hx => nomatch hx), mapM_option_nil _, rfl⟩
  | cons x subs ih =>
    rw [mapM_option_cons] at hx
    cases hp : extractSinglePart x with
    | none => rw [hp] at hx; exact nomatch hx
    | some p =>
      rw [hp, Option.bind_some] at hx
      cases hps : subs.mapM extractSinglePart with
      | none => rw [hps] at hx; exact nomatch hx
      | some ps' =>
        rw [hps, Option.bind_some] at hx
        cases hx
        obtain ⟨hq, ha⟩ := extractSinglePart_astPart x p hp (hg x List.mem_cons_self) (hz x List.mem_cons_self)
        obtain ⟨hqs, has, hlen⟩ := ih ps' hps (fun y hy => hg y (List.mem_cons_of_mem _ hy))
          (fun y hy => hz y (List.mem_cons_of_mem _ hy))
        refine ⟨?_, ?_, by simp [hlen]⟩
        · intro y hy
          rcases List.mem_cons.mp hy with rfl | hy
          · exact hq
          · exact hqs y hy
        · rw [mapM_option_cons, ha, Option.bind_some, has, Option.bind_some, List.map_cons]

end

/-- **AST-level exactness of the CompositeSearcher**: for EVERY pattern `IsCompositeCharClassPattern` accepts (that is
    what selects the strategy) and from which `NewCompositeSearcher` builds the searcher, `SearchAt` is the
    leftmost-first match of the concatenation (classes read as byte sets — adequate when `AsciiOnly re`, which the
    predicate guarantees on parser output, `isCompositeCharClassPattern_ascii`).  That the quantifiers are greedy and
    none is `{…,0}` is no longer assumed: it follows from acceptance. -/
theorem compositeSearcher_exact (re : Re) (c : CompositeSearcher) (hok : isCompositeCharClassPattern re = true)
    (hc : newCompositeSearcher re = some c) :
    CompositeFrag re ∧ AllGreedy re ∧ NoZeroMax re ∧
      ∃ parts, astParts re = some parts ∧ ∀ h a, c.searchAt h a = compFind parts h a := by
  have greedy := isCompositeCharClassPattern_greedy re hok
  have noZeroMax := isCompositeCharClassPattern_noZeroMax re hok
  refine ⟨isCompositeCharClassPattern_fragment re hok, greedy, noZeroMax, ?_⟩
  unfold newCompositeSearcher at hc
  cases hx : extractCompositeParts re with
  | none => rw [hx] at hc; exact nomatch hc
  | some ps =>
    rw [hx, Option.map_some] at hc
    cases hc
    unfold extractCompositeParts at hx
    split at hx
    · exact nomatch hx
    · rename_i hop
      split at hx
      · exact nomatch hx
      · rename_i parts hm
        split at hx
        · exact nomatch hx
        · rename_i hlen
          cases hx
          obtain ⟨hq, ha, hl⟩ := extractParts_astParts re.sub ps hm greedy noZeroMax
          refine ⟨ps.map partOf, ha, fun h a => ?_⟩
          apply CompositeSearcher.searchAt_eq_spec
          intro hnil
          have hnil : ps = [] := hnil
          rw [hnil] at hlen
          simp at hlen

/-! ## anchored literal -/

theorem anchoredSpecB_iff (dotNL : Bool) (info : AnchoredLiteralInfo) (h : Bytes) :
    anchoredSpecB dotNL info h = true ↔ AnchoredSpec dotNL info h := by
  unfold anchoredSpecB AnchoredSpec
  simp only [List.any_eq_true, List.mem_range, Bool.and_eq_true, decide_eq_true_eq, Bool.or_eq_true,
    List.all_eq_true, List.mem_range'_1]
  constructor
  · rintro ⟨j, hj, k, hk, ⟨⟨⟨⟨h1, h2⟩, h3⟩, h4⟩, h5⟩, h6⟩
    refine ⟨j, k, h1, h2, by omega, h3, h4, ?_, ?_⟩
    · rcases h5 with h5 | h5
      · exact Or.inl h5
      · right; intro i hi1 hi2
        have := h5 i ⟨hi1, by omega⟩
        simpa using this
    · cases ht : info.charClassTable with
      | none => rw [ht] at h6; simpa using h6
      | some t =>
        rw [ht] at h6
        simp only [Bool.and_eq_true, decide_eq_true_eq, List.all_eq_true, List.mem_range'_1] at h6
        exact ⟨h6.1, fun i hi1 hi2 => h6.2 i ⟨hi1, by omega⟩⟩
  · rintro ⟨j, k, h1, h2, hk, h3, h4, h5, h6⟩
    refine ⟨j, by omega, k, by omega, ⟨⟨⟨⟨h1, h2⟩, h3⟩, h4⟩, ?_⟩, ?_⟩
    · rcases h5 with h5 | h5
      · exact Or.inl h5
      · right; intro i hi
        have := h5 i hi.1 (by omega)
        simpa using this
    · cases ht : info.charClassTable with
      | none => rw [ht] at h6; simpa using h6
      | some t =>
        rw [ht] at h6
        simp only [Bool.and_eq_true, decide_eq_true_eq, List.all_eq_true, List.mem_range'_1]
        exact ⟨h6.1, fun i hi => h6.2 i hi.1 (by omega)⟩

theorem bytesAt_iff (h : Bytes) (lst : List Nat) :
    ∀ off, off + lst.length ≤ h.size →
      (bytesAt h off lst = true ↔ (h.toList.drop off).take lst.length = lst) := by
  induction lst with
  | nil => intro off _; simp [bytesAt]
  | cons b rest ih =>
    intro off hb
    simp only [List.length_cons] at hb
    rw [bytesAt, drop_eq_cons h off (by omega), List.length_cons, List.take_succ_cons]
    by_cases hne : h.at off = b
    · rw [if_neg (by simpa using hne), ih (off+1) (by omega)]
      subst hne
      constructor
      · intro he; rw [he]
      · intro he; exact (List.cons.inj he).2
    · rw [if_pos hne]
      constructor
      · intro hc; exact nomatch hc
      · intro he; exact absurd (List.cons.inj he).1 hne

/-- `c ≤ countBack …` iff the `c` bytes in front of `i1` are class bytes (and `c` iterations were available) -/
theorem le_countBack_iff (t : Table) (h : Bytes) :
    ∀ cnt i1 c, cnt ≤ i1 →
      (c ≤ countBack t h cnt i1 ↔ c ≤ cnt ∧ ∀ i, i1 - c ≤ i → i < i1 → t.mem (h.at i) = true) := by
  intro cnt
  induction cnt with
  | zero =>
    intro i1 c _
    rw [countBack]
    constructor
    · intro hc; exact ⟨hc, fun i h1 h2 => by omega⟩
    · intro hc; exact hc.1
  | succ cnt ih =>
    intro i1 c hle
    rw [countBack]
    by_cases hm : t.mem (h.at (i1 - 1)) = true
    · rw [if_pos hm]
      cases c with
      | zero => exact ⟨fun _ => ⟨Nat.zero_le _, fun i h1 h2 => by omega⟩, fun _ => Nat.zero_le _⟩
      | succ c =>
        rw [Nat.succ_le_succ_iff, ih (i1 - 1) c (by omega)]
        constructor
        · rintro ⟨h1, h2⟩
          refine ⟨by omega, fun i hi1 hi2 => ?_⟩
          by_cases hi : i = i1 - 1
          · subst hi; exact hm
          · exact h2 i (by omega) (by omega)
        · rintro ⟨h1, h2⟩
          exact ⟨by omega, fun i hi1 hi2 => h2 i (by omega) (by omega)⟩
    · rw [if_neg hm]
      constructor
      · intro hc
        have : c = 0 := by omega
        subst this
        exact ⟨Nat.zero_le _, fun i h1 h2 => by omega⟩
      · rintro ⟨h1, h2⟩
        cases c with
        | zero => exact Nat.le_refl _
        | succ c => exact absurd (h2 (i1 - 1) (by omega) (by omega)) hm

/-- what `DetectAnchoredLiteral` guarantees about its result (see `detectAnchoredLiteral_wf`) -/
structure AnchoredLiteralInfo.WF (info : AnchoredLiteralInfo) : Prop where
  minLength_eq : info.minLength = info.pfx.size + info.wildcardMin + info.charClassMin + info.sfx.size
  noTable : info.charClassTable = none → info.charClassMin = 0

theorem noByteIn_iff (c : Nat) (h : Bytes) (lo hi : Nat) :
    noByteIn c h lo hi = true ↔ ∀ i, lo ≤ i → i < hi → h.at i ≠ c := by
  unfold noByteIn
  simp only [List.all_eq_true, List.mem_range'_1, decide_eq_true_eq]
  constructor
  · intro hall i h1 h2; exact hall i ⟨h1, by omega⟩
  · intro hall i hi; exact hall i hi.1 (by omega)

/-- `wildcardOK` on `input[lo:hi]`: the wildcard is `(?s:.)`, or the span holds no `\n` -/
theorem wildcardOK_iff (info : AnchoredLiteralInfo) (h : Bytes) (lo hi : Nat) :
    info.wildcardOK h lo hi = true ↔
      (info.wildcardMatchesNewline = true ∨ ∀ i, lo ≤ i → i < hi → h.at i ≠ 10) := by
  unfold AnchoredLiteralInfo.wildcardOK
  rw [Bool.or_eq_true, noByteIn_iff]

/-- **`MatchAnchoredLiteral` is exact** for `\\A prefix .{w,} cls{c,} suffix \\z` on EVERY haystack: `.` is read as the
    `info` says (`WildcardMatchesNewline`: any byte; otherwise any byte but `\\n`).  With a class bridge the matcher
    tests the SHORTEST possible wildcard span (the class run it found is the longest), which is free of `\\n` iff some
    admissible split is. -/
theorem matchAnchoredLiteral_iff_spec (info : AnchoredLiteralInfo) (wf : info.WF) (h : Bytes) :
    matchAnchoredLiteral h info = true ↔ AnchoredSpec info.wildcardMatchesNewline info h := by
  have hml := wf.minLength_eq
  unfold matchAnchoredLiteral AnchoredSpec
  by_cases hlen : h.size < info.minLength
  · rw [if_pos hlen]
    constructor
    · intro hc; exact nomatch hc
    · rintro ⟨j, k, h1, h2, hk, h3, h4, _, h6⟩
      exfalso
      have hq : h.size - k = info.sfx.size := by
        have := congrArg List.length h4
        simpa using this
      cases ht : info.charClassTable with
      | none =>
        rw [ht] at h6
        have := wf.noTable ht
        simp only [] at h6
        omega
      | some t =>
        rw [ht] at h6
        simp only [] at h6
        omega
  · rw [if_neg hlen]
    have hpfx : bytesAt h 0 info.pfx.toList = true ↔ h.toList.take info.pfx.size = info.pfx.toList := by
      rw [bytesAt_iff h info.pfx.toList 0 (by simp; omega)]
      simp
    have hsfx : bytesAt h (h.size - info.sfx.size) info.sfx.toList = true ↔
        h.toList.drop (h.size - info.sfx.size) = info.sfx.toList := by
      rw [bytesAt_iff h info.sfx.toList _ (by simp; omega)]
      rw [List.take_of_length_le (by simp; omega)]
    by_cases hp : bytesAt h 0 info.pfx.toList = true
    · have hcond : ¬ (info.pfx.size > 0 ∧ (h.size < info.pfx.size ∨ (!bytesAt h 0 info.pfx.toList) = true)) := by
        rintro ⟨_, hc | hc⟩
        · omega
        · rw [hp] at hc; exact nomatch hc
      rw [if_neg hcond]
      simp only []
      by_cases hs : bytesAt h (h.size - info.sfx.size) info.sfx.toList = true
      · rw [if_neg (by rw [hs]; decide)]
        have hkq : ∀ k, k ≤ h.size → h.toList.drop k = info.sfx.toList → k = h.size - info.sfx.size := by
          intro k hk h4
          have := congrArg List.length h4
          simp at this; omega
        cases ht : info.charClassTable with
        | none =>
          have hc0 := wf.noTable ht
          simp only [Bool.and_eq_true, decide_eq_true_eq, ge_iff_le, wildcardOK_iff]
          constructor
          · rintro ⟨_, hok⟩
            exact ⟨h.size - info.sfx.size, h.size - info.sfx.size, by omega, Nat.le_refl _, by omega,
              hpfx.mp hp, hsfx.mp hs, hok, rfl⟩
          · rintro ⟨j, k, h1, h2, hk, _, h4, h5, h6⟩
            have := hkq k hk h4
            have hjk : j = k := h6
            subst hjk
            subst this
            exact ⟨by omega, h5⟩
        | some t =>
          simp only [Bool.and_eq_true, decide_eq_true_eq, ge_iff_le, wildcardOK_iff]
          have hcb := le_countBack_iff t h (h.size - info.sfx.size - (info.pfx.size + info.wildcardMin))
            (h.size - info.sfx.size)
          generalize countBack t h (h.size - info.sfx.size - (info.pfx.size + info.wildcardMin))
            (h.size - info.sfx.size) = found at hcb ⊢
          obtain ⟨hfle, hfall⟩ := (hcb found (by omega)).mp (Nat.le_refl _)
          constructor
          · rintro ⟨hc1, hok⟩
            exact ⟨h.size - info.sfx.size - found, h.size - info.sfx.size, by omega, by omega, by omega,
              hpfx.mp hp, hsfx.mp hs, hok, by omega, fun i hi1 hi2 => hfall i hi1 hi2⟩
          · rintro ⟨j, k, h1, h2, hk, _, h4, h5, h6⟩
            have hk' := hkq k hk h4
            subst hk'
            have hkj : h.size - info.sfx.size - j ≤ found :=
              (hcb _ (by omega)).mpr ⟨by omega, fun i hi1 hi2 => h6.2 i (by omega) hi2⟩
            exact ⟨by omega, h5.imp id (fun hall i hi1 hi2 => hall i hi1 (by omega))⟩
      · rw [if_pos (by simpa using hs)]
        constructor
        · intro hc; exact nomatch hc
        · rintro ⟨j, k, h1, h2, hk, _, h4, _, _⟩
          exfalso
          apply hs
          have := congrArg List.length h4
          simp at this
          have hk' : k = h.size - info.sfx.size := by omega
          subst hk'
          exact hsfx.mpr h4
    · have hcond : info.pfx.size > 0 ∧ (h.size < info.pfx.size ∨ (!bytesAt h 0 info.pfx.toList) = true) := by
        refine ⟨?_, Or.inr (by simpa using hp)⟩
        by_cases hz : info.pfx.size > 0
        · exact hz
        · exfalso
          apply hp
          have : info.pfx.toList = [] := by
            have : info.pfx.toList.length = 0 := by rw [Array.length_toList]; omega
            exact List.length_eq_zero_iff.mp this
          rw [this]; rfl
      rw [if_pos hcond]
      constructor
      · intro hc; exact nomatch hc
      · rintro ⟨j, k, _, _, _, h3, _⟩
        exact absurd (hpfx.mpr h3) hp

/-- Bool form: the matcher IS the executable specification -/
theorem matchAnchoredLiteral_eq_spec (info : AnchoredLiteralInfo) (wf : info.WF) (h : Bytes) :
    matchAnchoredLiteral h info = anchoredSpecB info.wildcardMatchesNewline info h := by
  rw [Bool.eq_iff_iff, anchoredSpecB_iff, matchAnchoredLiteral_iff_spec info wf h]

/-- `IsMatch` (= `MatchAnchoredLiteral`) agrees with the `Find` wrapper meta uses -/
theorem anchoredIsMatch_eq (info : AnchoredLiteralInfo) (h : Bytes) :
    matchAnchoredLiteral h info = (anchoredFindAt h info 0).isSome := by
  unfold anchoredFindAt anchoredFind
  rw [if_neg (by omega)]
  cases matchAnchoredLiteral h info <;> rfl

/-- meta's `findIndicesAnchoredLiteralAt` -/
theorem anchoredFindAt_eq_spec (info : AnchoredLiteralInfo) (wf : info.WF) (h : Bytes) (a : Nat) :
    anchoredFindAt h info a = anchoredFindSpec info.wildcardMatchesNewline info h a := by
  unfold anchoredFindAt anchoredFindSpec anchoredFind
  rw [matchAnchoredLiteral_eq_spec info wf h]
  by_cases ha : a > 0
  · rw [if_pos ha, if_neg (by omega)]
  · rw [if_neg ha]
    have : a = 0 := by omega
    subst this
    simp

/-! ### `DetectAnchoredLiteral` ⇒ fragment and well-formed info -/

theorem extractLiteral_some (x : Re) (b : Bytes) (hx : extractLiteral x = some b) :
    x.op = .literal ∧ x.foldCase = false ∧ b = (litBytes x).toArray := by
  unfold extractLiteral at hx
  split at hx
  · exact nomatch hx
  · rename_i hop
    split at hx
    · exact nomatch hx
    · rename_i hfold
      cases hx
      exact ⟨by simpa using hop, by simpa using hfold, rfl⟩

theorem isCharClassPlus_shape (b : Re) (hb : isCharClassPlus b = true) :
    b.op = .plus ∧ ∃ cc, b.sub = [cc] ∧ cc.op = .charClass := by
  unfold isCharClassPlus at hb
  split at hb
  · exact nomatch hb
  · rename_i hop
    split at hb
    · rename_i cc hsub
      exact ⟨by simpa using hop, cc, hsub, by simpa using hb⟩
    · exact nomatch hb

/-- the optional bridge after the wildcard: nothing, or exactly one `cls+` whose last rune is ASCII -/
def BridgeShape (bridge : List Re) (st st' : DetectState) : Prop :=
  (bridge = [] ∧ st' = st) ∨
  (∃ b cc, bridge = [b] ∧ b.op = .plus ∧ b.sub = [cc] ∧ cc.op = .charClass ∧ lastRuneAbove7F cc.rune = false ∧
     st' = { st with table := some (tableOfRangesClamped (pairs cc.rune)), charClassMin := 1 })

theorem detectLoop_after (rest : List Re) (st st' : DetectState) (hw : st.wildcardSeen = true)
    (hd : detectLoop rest st = some st') : BridgeShape rest st st' := by
  obtain ⟨pfx, ws, wm, wnl, tb, cm⟩ := st
  simp only at hw
  subst hw
  cases rest with
  | nil => rw [detectLoop] at hd; cases hd; exact Or.inl ⟨rfl, rfl⟩
  | cons b rest =>
    rw [detectLoop] at hd
    split at hd
    · exact nomatch hd
    · simp only [Bool.not_true, Bool.false_eq_true, if_false] at hd
      split at hd
      · rename_i hcond
        simp only [Bool.and_eq_true, List.isEmpty_iff] at hcond
        obtain ⟨hb, hrest⟩ := hcond
        subst hrest
        obtain ⟨hop, cc, hsub, hcc⟩ := isCharClassPlus_shape b hb
        rw [hsub] at hd
        simp only [] at hd
        split at hd
        · exact nomatch hd
        · rename_i hlast
          rw [detectLoop] at hd
          cases hd
          right
          refine ⟨b, cc, rfl, hop, hsub, hcc, by simpa using hlast, ?_⟩
          unfold buildCharClassTable
          rw [if_neg (by rw [hcc]; exact fun hc => hc rfl)]
      · exact nomatch hd

theorem detectLoop_shape (mid : List Re) :
    ∀ st st', detectLoop mid st = some st' → st.wildcardSeen = false → st'.wildcardSeen = true →
      ∃ lits w bridge, mid = lits ++ w :: bridge ∧ (∀ x ∈ lits, x.op = .literal ∧ x.foldCase = false) ∧
        isGreedyWildcard w = true ∧
        BridgeShape bridge
          { st with pfx := st.pfx ++ (lits.flatMap litBytes).toArray, wildcardSeen := true,
                    wildcardMin := getWildcardMin w, wildcardNL := wildcardIsDotNL w } st' := by
  induction mid with
  | nil =>
    intro st st' hd hw hw'
    rw [detectLoop] at hd; cases hd
    rw [hw] at hw'; exact nomatch hw'
  | cons x mid ih =>
    intro st st' hd hw hw'
    obtain ⟨pfx, ws, wm, wnl, tb, cm⟩ := st
    simp only at hw
    subst hw
    rw [detectLoop] at hd
    split at hd
    · rename_i hwild
      simp only [Bool.false_eq_true, if_false] at hd
      refine ⟨[], x, mid, rfl, (fun y hy => nomatch hy), hwild, ?_⟩
      have := detectLoop_after mid _ st' rfl hd
      simpa using this
    · simp only [Bool.not_false, if_true] at hd
      cases hl : extractLiteral x with
      | none => rw [hl] at hd; exact nomatch hd
      | some lit =>
        rw [hl] at hd
        simp only [] at hd
        obtain ⟨hop, hfold, hlit⟩ := extractLiteral_some x lit hl
        obtain ⟨lits, w, bridge, hmid, hlits, hwild, hbr⟩ := ih _ st' hd rfl hw'
        refine ⟨x :: lits, w, bridge, by rw [hmid]; rfl, ?_, hwild, ?_⟩
        · intro y hy
          rcases List.mem_cons.mp hy with rfl | hy
          · exact ⟨hop, hfold⟩
          · exact hlits y hy
        · simp only [List.flatMap_cons]
          rw [hlit] at hbr
          simp only [Array.append_assoc] at hbr
          have : (litBytes x).toArray ++ (List.flatMap litBytes lits).toArray
                = (litBytes x ++ List.flatMap litBytes lits).toArray := by simp
          rw [this] at hbr
          exact hbr

theorem list_split_last2 {α : Type} (l : List α) (x y : α) (hl : l.getLast? = some y)
    (hx : l.dropLast.getLast? = some x) : l = l.dropLast.dropLast ++ [x, y] := by
  obtain ⟨l1, rfl⟩ := List.getLast?_eq_some_iff.mp hl
  rw [List.dropLast_concat] at hx ⊢
  obtain ⟨l2, rfl⟩ := List.getLast?_eq_some_iff.mp hx
  rw [List.dropLast_concat]
  simp

/-- **`DetectAnchoredLiteral` implies the fragment** (and determines every field of the result): in particular every
    literal is case-sensitive, the bridge class passes the ASCII test, and `WildcardMatchesNewline` says whether the
    wildcard is `(?s:.)`. -/
theorem detectAnchoredLiteral_fragment (re : Re) (info : AnchoredLiteralInfo)
    (hd : detectAnchoredLiteral re = some info) : AnchoredFrag re info := by
  unfold detectAnchoredLiteral at hd
  split at hd
  · exact nomatch hd
  · rename_i hop
    simp only [] at hd
    split at hd
    · exact nomatch hd
    · split at hd
      · rename_i first tail hsub
        split at hd
        · exact nomatch hd
        · rename_i hfirst
          split at hd
          · exact nomatch hd
          · rename_i last hlast
            split at hd
            · exact nomatch hd
            · rename_i hlastA
              split at hd
              · exact nomatch hd
              · rename_i sfxRe hsfxRe
                split at hd
                · exact nomatch hd
                · rename_i sfx hsfx
                  split at hd
                  · exact nomatch hd
                  · rename_i st hst
                    split at hd
                    · exact nomatch hd
                    · rename_i hseen
                      cases hd
                      obtain ⟨hsop, hsfold, hsb⟩ := extractLiteral_some sfxRe sfx hsfx
                      obtain ⟨lits, w, bridge, hmid, hlits, hwild, hbr⟩ :=
                        detectLoop_shape _ {} st hst rfl (by simpa using hseen)
                      refine ⟨by simpa using hop, first, lits, w, bridge, sfxRe, last, ?_, by simpa using hfirst,
                        by simpa using hlastA, hlits, hwild, ⟨hsop, hsfold⟩, ?_, hsb, ?_, ?_, ?_, rfl⟩
                      · rw [hsub, list_split_last2 tail sfxRe last hlast hsfxRe, hmid]
                      · rcases hbr with ⟨_, rfl⟩ | ⟨b, cc, _, _, _, _, _, rfl⟩ <;> simp
                      · rcases hbr with ⟨_, rfl⟩ | ⟨b, cc, _, _, _, _, _, rfl⟩ <;> rfl
                      · rcases hbr with ⟨_, rfl⟩ | ⟨b, cc, _, _, _, _, _, rfl⟩ <;> rfl
                      · rcases hbr with ⟨hb, rfl⟩ | ⟨b, cc, hb, h1, h2, h3, h4, rfl⟩
                        · exact Or.inl ⟨hb, rfl, rfl⟩
                        · exact Or.inr ⟨b, cc, hb, h1, h2, h3, h4, rfl, rfl⟩
      · exact nomatch hd

theorem detectAnchoredLiteral_wf (re : Re) (info : AnchoredLiteralInfo)
    (hd : detectAnchoredLiteral re = some info) : info.WF := by
  obtain ⟨_, first, lits, w, bridge, sfxRe, last, _, _, _, _, _, _, _, _, _, _, hbr, hml⟩ :=
    detectAnchoredLiteral_fragment re info hd
  refine ⟨hml, fun hnone => ?_⟩
  rcases hbr with ⟨_, _, h0⟩ | ⟨b, cc, _, _, _, _, _, ht, _⟩
  · exact h0
  · rw [ht] at hnone; exact nomatch hnone

/-- on parser output (`Rune` sorted) the bridge class of a detected pattern has ASCII members only -/
theorem anchoredFrag_bridge_ascii (cc : Re) (hlast : lastRuneAbove7F cc.rune = false)
    (sorted : cc.rune.Pairwise (· ≤ ·)) : ∀ r ∈ cc.rune, r ≤ 127 :=
  all_ascii_of_sorted cc.rune sorted hlast

theorem isGreedyWildcard_false_of_op (x : Re) (h1 : x.op ≠ .star) (h2 : x.op ≠ .plus) : isGreedyWildcard x = false := by
  unfold isGreedyWildcard
  rw [if_pos ⟨h1, h2⟩]

/-- the body of `wildcardDotNL` -/
def dotBody (w : Re) : Bool :=
  isGreedyWildcard w && (match w.sub with | [x] => decide (x.op = .anyChar) | _ => false)

theorem wildcardDotNL_def (re : Re) : wildcardDotNL re = re.sub.any dotBody := rfl

theorem dotBody_false (x : Re) (hx : isGreedyWildcard x = false) : dotBody x = false := by
  unfold dotBody; rw [hx]; rfl

theorem dotBody_wild (w : Re) (hwild : isGreedyWildcard w = true) : dotBody w = wildcardIsDotNL w := by
  unfold dotBody
  rw [hwild, Bool.true_and]
  unfold isGreedyWildcard at hwild
  unfold wildcardIsDotNL
  split at hwild
  · exact nomatch hwild
  · split at hwild
    · rename_i y hy; rw [hy]
    · exact nomatch hwild

/-- the flag the matcher consults IS the AST-level reading "the pattern's wildcard is `(?s:.)`" -/
theorem anchoredFrag_wildcardNL (re : Re) (info : AnchoredLiteralInfo) (hf : AnchoredFrag re info) :
    info.wildcardMatchesNewline = wildcardDotNL re := by
  obtain ⟨_, first, lits, w, bridge, sfxRe, last, hsub, hfirst, hlast, hlits, hwild, hsfx, _, _, _, hnl, hbr, _⟩ := hf
  have hfirst' : isGreedyWildcard first = false := by
    unfold isStartAnchor at hfirst
    simp only [Bool.or_eq_true, decide_eq_true_eq] at hfirst
    apply isGreedyWildcard_false_of_op <;> rcases hfirst with h | h <;> rw [h] <;> exact fun hc => nomatch hc
  have hlast' : isGreedyWildcard last = false := by
    unfold isEndAnchor at hlast
    simp only [Bool.or_eq_true, decide_eq_true_eq] at hlast
    apply isGreedyWildcard_false_of_op <;> rcases hlast with h | h <;> rw [h] <;> exact fun hc => nomatch hc
  have hsfx' : isGreedyWildcard sfxRe = false := by
    apply isGreedyWildcard_false_of_op <;> rw [hsfx.1] <;> exact fun hc => nomatch hc
  have hlits' : ∀ x ∈ lits, isGreedyWildcard x = false := by
    intro x hx
    apply isGreedyWildcard_false_of_op <;> rw [(hlits x hx).1] <;> exact fun hc => nomatch hc
  have hbridge : ∀ x ∈ bridge, isGreedyWildcard x = false := by
    intro x hx
    rcases hbr with ⟨hb, _⟩ | ⟨b, cc, hb, hbop, hbsub, hcc, _⟩
    · rw [hb] at hx; exact nomatch hx
    · rw [hb] at hx
      have : x = b := by simpa using hx
      subst this
      unfold isGreedyWildcard
      rw [if_neg (by rw [hbop]; exact fun hc => hc.2 rfl), hbsub]
      simp [hcc]
  have h1 : lits.any dotBody = false := by
    rw [List.any_eq_false]
    intro x hx; rw [dotBody_false x (hlits' x hx)]; exact Bool.false_ne_true
  have h2 : bridge.any dotBody = false := by
    rw [List.any_eq_false]
    intro x hx; rw [dotBody_false x (hbridge x hx)]; exact Bool.false_ne_true
  rw [wildcardDotNL_def, hnl, hsub]
  simp only [List.any_cons, List.any_append, List.any_nil, Bool.or_false]
  rw [dotBody_false first hfirst', dotBody_false sfxRe hsfx', dotBody_false last hlast', dotBody_wild w hwild, h1, h2]
  simp

/-- **AST-level exactness of the UseAnchoredLiteral matcher** (byte-level reading of the pattern): for EVERY pattern
    `DetectAnchoredLiteral` accepts and EVERY haystack, `MatchAnchoredLiteral` decides
    `\\A prefix .{w,} cls{c,} suffix \\z` correctly, `.` excluding `\\n` unless the pattern's wildcard is `(?s:.)`
    (`wildcardDotNL re`, read off the AST).  The former hypothesis "`.` may match every byte of the haystack" is gone:
    the matcher now checks the wildcard span itself. -/
theorem anchoredLiteral_exact (re : Re) (info : AnchoredLiteralInfo) (hd : detectAnchoredLiteral re = some info)
    (h : Bytes) :
    AnchoredFrag re info ∧
    (matchAnchoredLiteral h info = true ↔ AnchoredSpec (wildcardDotNL re) info h) ∧
    ∀ a, anchoredFindAt h info a = anchoredFindSpec (wildcardDotNL re) info h a := by
  have hf := detectAnchoredLiteral_fragment re info hd
  have hwf := detectAnchoredLiteral_wf re info hd
  rw [← anchoredFrag_wildcardNL re info hf]
  exact ⟨hf, matchAnchoredLiteral_iff_spec info hwf h, fun a => anchoredFindAt_eq_spec info hwf h a⟩

/-! ## BranchDispatcher -/
namespace BranchDispatcher

/-- `IsMatch` is `Search(...).found` on every input, for every dispatcher -/
theorem isMatch_eq (d : BranchDispatcher) (h : Bytes) : d.isMatch h = (d.search h).isSome := by
  unfold isMatch search
  split
  · split <;> simp [*]
  · simp only []
    split
    · rfl
    · split
      · split
        · rfl
        · rename_i hb
          split
          · rename_i hb; rw [hb]; rfl
          · rename_i hb; rw [Bool.not_eq_true] at hb; rw [hb]; rfl
      · split
        · split
          · simp only [Option.isSome_some, decide_eq_true_eq]; assumption
          · simp only [Option.isSome_none, decide_eq_false_iff_not]; assumption
        · rfl

theorem countPrefix_eq (t : Table) (h : Bytes) (k i : Nat) (hk : i + k = h.size) :
    countPrefix t h k i = runLen t.mem h i := by
  induction k generalizing i with
  | zero => rw [countPrefix, runLen_ge t.mem h i (by omega)]
  | succ k ih =>
    rw [countPrefix, runLen_lt t.mem h i (by omega)]
    split
    · rw [ih (i+1) (by omega)]
    · rfl

end BranchDispatcher

namespace Branch

theorem matchLen_lit (h : Bytes) (bs : List Nat) :
    matchLen h (lit bs) = if bs.length ≤ h.size ∧ h.toList.take bs.length = bs then some bs.length else none := rfl
theorem matchLen_cls (h : Bytes) (mem : Nat → Bool) :
    matchLen h (clsPlus mem) = if 1 ≤ runLen mem h 0 then some (runLen mem h 0) else none := rfl
end Branch

/-- the dispatcher's tables describe the branch list `bs` -/
structure BranchDispatcher.WF (d : BranchDispatcher) (bs : List Branch) : Prop where
  noEmpty : d.canMatchEmpty = false
  matcher : ∀ i (hi : i < bs.length),
    match bs[i] with
    | .lit l => l ≠ [] ∧ (d.branchMatchers.getD i {}).literal.toList = l
    | .clsPlus mem =>
      (d.branchMatchers.getD i {}).literal.size = 0 ∧ (d.branchMatchers.getD i {}).hasCharClass = true ∧
      (d.branchMatchers.getD i {}).minMatch = 1 ∧ ∀ x, (d.branchMatchers.getD i {}).charClass.mem x = mem x
  /-- `dispatch[x]` is `-1` or a branch index, and it is `i` exactly when `x` can start branch `i` -/
  range : ∀ x, d.dispatch.getD x (-1) = -1 ∨ ∃ i, i < bs.length ∧ d.dispatch.getD x (-1) = (i : Int)
  dispatch : ∀ x i (hi : i < bs.length), d.dispatch.getD x (-1) = (i : Int) ↔ bs[i].first x

theorem findSome?_unique {α β : Type} (f : α → Option β) (l : List α) (i : Nat) (hi : i < l.length)
    (hother : ∀ j (hj : j < l.length), j ≠ i → f l[j] = none) : l.findSome? f = f l[i] := by
  induction l generalizing i with
  | nil => exact absurd hi (by simp)
  | cons a l ih =>
    rw [List.findSome?_cons]
    cases i with
    | zero =>
      simp only [List.getElem_cons_zero]
      cases hfa : f a with
      | some b => rfl
      | none =>
        simp only []
        rw [List.findSome?_eq_none_iff]
        intro x hx
        obtain ⟨j, hj, rfl⟩ := List.getElem_of_mem hx
        have := hother (j+1) (by simp; omega) (by omega)
        simpa using this
    | succ i =>
      have h0 := hother 0 (by simp) (by omega)
      simp only [List.getElem_cons_zero] at h0
      rw [h0]
      simp only [List.getElem_cons_succ]
      apply ih i (by simpa using hi)
      intro j hj hne
      have := hother (j+1) (by simp; omega) (by omega)
      simpa using this

theorem Branch.matchLen_none_of_not_first (b : Branch) (h : Bytes) (hpos : 0 < h.size)
    (hnf : ¬ b.first (h.at 0)) (hne : ∀ l, b = .lit l → l ≠ []) : b.matchLen h = none := by
  cases b with
  | lit l =>
    rw [matchLen_lit, if_neg]
    rintro ⟨hlen, htake⟩
    apply hnf
    unfold first
    cases l with
    | nil => exact absurd rfl (hne [] rfl)
    | cons a l =>
      rw [show h.toList = h.toList.drop 0 from rfl, drop_eq_cons h 0 hpos] at htake
      simp only [List.length_cons, List.take_succ_cons, List.cons.injEq] at htake
      simp [htake.1]
  | clsPlus mem =>
    rw [matchLen_cls, if_neg]
    unfold first at hnf
    rw [runLen_lt mem h 0 hpos, if_neg hnf]
    omega

/-- **`BranchDispatcher.Search` is exact** for `\\A(?:b0|…|bk)` with literal / `cls+` branches whenever its tables
    describe those branches (`WF`). -/
theorem BranchDispatcher.search_eq_spec (d : BranchDispatcher) (bs : List Branch) (wf : d.WF bs) (h : Bytes) :
    d.search h = altFind bs h := by
  have hlitne : ∀ i (hi : i < bs.length) l, bs[i] = .lit l → l ≠ [] := by
    intro i hi l hl
    have := wf.matcher i hi
    rw [hl] at this
    exact this.1
  unfold search altFind
  by_cases hz : h.size = 0
  · rw [if_pos hz, wf.noEmpty]
    simp only [Bool.false_eq_true, if_false]
    rw [List.findSome?_eq_none_iff.mpr, Option.map_none]
    intro b hb
    obtain ⟨i, hi, rfl⟩ := List.getElem_of_mem hb
    cases hbi : bs[i] with
    | lit l =>
      rw [Branch.matchLen_lit, if_neg]
      rintro ⟨hlen, _⟩
      have := hlitne i hi l hbi
      have : l.length ≠ 0 := fun hc => this (List.length_eq_zero_iff.mp hc)
      omega
    | clsPlus mem =>
      rw [Branch.matchLen_cls, if_neg]
      rw [runLen_ge mem h 0 (by omega)]; omega
  · rw [if_neg hz]
    have hpos : 0 < h.size := by omega
    simp only []
    rcases wf.range (h.at 0) with hneg | ⟨i, hi, hidx⟩
    · rw [hneg, if_pos (by decide)]
      rw [List.findSome?_eq_none_iff.mpr, Option.map_none]
      intro b hb
      obtain ⟨j, hj, rfl⟩ := List.getElem_of_mem hb
      apply Branch.matchLen_none_of_not_first _ h hpos
      · intro hf
        have := (wf.dispatch (h.at 0) j hj).mpr hf
        rw [hneg] at this
        omega
      · exact hlitne j hj
    · rw [hidx, if_neg (by omega)]
      have hfind : bs.findSome? (Branch.matchLen h) = Branch.matchLen h bs[i] := by
        apply findSome?_unique _ _ i hi
        intro j hj hne
        apply Branch.matchLen_none_of_not_first _ h hpos
        · intro hf
          have := (wf.dispatch (h.at 0) j hj).mpr hf
          rw [hidx] at this
          omega
        · exact hlitne j hj
      rw [hfind, Int.toNat_natCast]
      have hm := wf.matcher i hi
      cases hbi : bs[i] with
      | lit l =>
        rw [hbi] at hm
        obtain ⟨hne, hl⟩ := hm
        have hsz : (d.branchMatchers.getD i {}).literal.size = l.length := by rw [← hl]; simp
        have hlpos : 0 < l.length := by
          cases l with
          | nil => exact absurd rfl hne
          | cons _ _ => simp
        rw [if_pos (by omega), Branch.matchLen_lit]
        by_cases hshort : h.size < (d.branchMatchers.getD i {}).literal.size
        · rw [if_pos hshort, if_neg (by omega)]; rfl
        · rw [if_neg hshort, hl]
          have := bytesAt_iff h l 0 (by omega)
          simp only [List.drop_zero] at this
          by_cases hb : bytesAt h 0 l = true
          · rw [if_pos hb, if_pos ⟨by omega, this.mp hb⟩, hsz]; rfl
          · rw [if_neg hb, if_neg (fun hc => hb (this.mpr hc.2))]; rfl
      | clsPlus mem =>
        rw [hbi] at hm
        obtain ⟨h1, h2, h3, h4⟩ := hm
        rw [if_neg (by omega), if_pos h2, BranchDispatcher.countPrefix_eq _ h h.size 0 (by omega), h3]
        have : runLen (d.branchMatchers.getD i {}).charClass.mem h 0 = runLen mem h 0 := by
          congr 1; funext x; exact h4 x
        rw [this, Branch.matchLen_cls]
        by_cases hge : 1 ≤ runLen mem h 0
        · rw [if_pos hge, if_pos hge]; rfl
        · rw [if_neg hge, if_neg hge]; rfl

/-! ## ExtractFirstBytes -/

theorem Table.mem_set (t : Table) (i j : Nat) (v : Bool) :
    Table.mem (t.setIfInBounds i v) j = if i = j ∧ i < t.size then v else t.mem j := by
  unfold Table.mem
  simp only [Array.getD_eq_getD_getElem?, Array.getElem?_setIfInBounds]
  by_cases hij : i = j
  · subst hij
    by_cases hi : i < t.size
    · simp [hi]
    · simp [hi]
  · simp [hij]

namespace FirstByteSet

/-- the invariant every set built by `ExtractFirstBytes` satisfies -/
def Ok (f : FirstByteSet) : Prop := f.bytes.size = 256

theorem ok_empty : ({} : FirstByteSet).Ok := by simp [Ok]

theorem addNew_ok (f : FirstByteSet) (b : Nat) (hf : f.Ok) : (f.addNew b).Ok := by
  unfold addNew Ok at *
  split <;> simp [hf]

theorem addNew_mem (f : FirstByteSet) (b j : Nat) (hf : f.Ok) :
    (f.addNew b).bytes.mem j = (f.bytes.mem j || (decide (b = j) && decide (b < 256))) := by
  unfold Ok at hf
  unfold addNew
  split
  · rename_i hm
    by_cases hbj : b = j
    · subst hbj; simp [hm]
    · simp [hbj]
  · rename_i hm
    simp only [Table.mem_set, hf]
    by_cases hbj : b = j
    · subst hbj
      by_cases hb : b < 256
      · simp [hb]
      · simp [hb]
    · simp [hbj]

theorem addAlways_ok (f : FirstByteSet) (b : Nat) (hf : f.Ok) : (f.addAlways b).Ok := by
  unfold addAlways Ok at *; simp [hf]

theorem addAlways_mem (f : FirstByteSet) (b j : Nat) (hf : f.Ok) :
    (f.addAlways b).bytes.mem j = (f.bytes.mem j || (decide (b = j) && decide (b < 256))) := by
  unfold Ok at hf
  unfold addAlways
  simp only [Table.mem_set, hf]
  by_cases hbj : b = j
  · subst hbj
    by_cases hb : b < 256 <;> simp [hb]
  · simp [hbj]

theorem foldl_addNew_ok (l : List Nat) (f : FirstByteSet) (hf : f.Ok) : (l.foldl addNew f).Ok := by
  induction l generalizing f with
  | nil => exact hf
  | cons a l ih => exact ih _ (addNew_ok f a hf)

theorem foldl_addNew_mem (l : List Nat) (f : FirstByteSet) (hf : f.Ok) (j : Nat) :
    (l.foldl addNew f).bytes.mem j = (f.bytes.mem j || (decide (j ∈ l) && decide (j < 256))) := by
  induction l generalizing f with
  | nil => simp
  | cons a l ih =>
    rw [List.foldl_cons, ih _ (addNew_ok f a hf), addNew_mem f a j hf]
    by_cases haj : a = j
    · subst haj; by_cases ha : a < 256 <;> simp [ha]
    · have : ¬ j = a := fun h => haj h.symm
      simp [haj, this]

end FirstByteSet

theorem addRange_ok (k : Nat) : ∀ (f : FirstByteSet) (r : Nat), f.Ok → (addRange f k r).Ok := by
  induction k with
  | zero => intro f r hf; exact hf
  | succ k ih => intro f r hf; exact ih _ _ (FirstByteSet.addNew_ok f r hf)

theorem addRange_mem (k : Nat) : ∀ (f : FirstByteSet) (r j : Nat), f.Ok →
    (addRange f k r).bytes.mem j = (f.bytes.mem j || (decide (r ≤ j) && decide (j < r + k) && decide (j < 256))) := by
  induction k with
  | zero => intro f r j _; simp [addRange]; omega
  | succ k ih =>
    intro f r j hf
    rw [addRange, ih _ _ _ (FirstByteSet.addNew_ok f r hf), FirstByteSet.addNew_mem f r j hf]
    by_cases hrj : r = j
    · subst hrj
      by_cases hr : r < 256 <;> simp [hr]
    · by_cases h1 : r + 1 ≤ j
      · have : r ≤ j := by omega
        have e : (j < r + 1 + k) = (j < r + (k + 1)) := by rw [Nat.add_assoc, Nat.add_comm 1 k]
        simp [hrj, h1, this, e]
      · have : ¬ r ≤ j := by omega
        simp [hrj, h1, this]

theorem addRange_count (k : Nat) : ∀ (f : FirstByteSet) (r : Nat), f.count ≤ (addRange f k r).count := by
  induction k with
  | zero => intro f r; exact Nat.le_refl _
  | succ k ih =>
    intro f r
    rw [addRange]
    refine Nat.le_trans ?_ (ih _ _)
    unfold FirstByteSet.addNew
    split <;> simp

theorem addRange_complete (k : Nat) : ∀ (f : FirstByteSet) (r : Nat), (addRange f k r).complete = f.complete := by
  induction k with
  | zero => intro f r; rfl
  | succ k ih =>
    intro f r
    rw [addRange, ih]
    unfold FirstByteSet.addNew
    split <;> rfl

theorem addClassRanges_ok (rs : List (Nat × Nat)) : ∀ (f : FirstByteSet), f.Ok → (addClassRanges f rs).Ok := by
  induction rs with
  | nil => intro f hf; exact hf
  | cons p rs ih =>
    intro f hf
    obtain ⟨lo, hi⟩ := p
    rw [addClassRanges]
    split
    · exact ih f hf
    · exact ih _ (addRange_ok _ _ _ hf)

theorem addClassRanges_complete (rs : List (Nat × Nat)) : ∀ (f : FirstByteSet),
    (addClassRanges f rs).complete = f.complete := by
  induction rs with
  | nil => intro f; rfl
  | cons p rs ih =>
    intro f
    obtain ⟨lo, hi⟩ := p
    rw [addClassRanges]
    split
    · exact ih f
    · simp only []; rw [ih, addRange_complete]

theorem addClassRanges_mem (rs : List (Nat × Nat)) : ∀ (f : FirstByteSet) (j : Nat), f.Ok →
    (addClassRanges f rs).bytes.mem j =
      (f.bytes.mem j || (decide (j < 256) && rs.any fun p => decide (p.1 ≤ j) && decide (j ≤ p.2))) := by
  induction rs with
  | nil => intro f j _; simp [addClassRanges]
  | cons p rs ih =>
    intro f j hf
    obtain ⟨lo, hi⟩ := p
    rw [addClassRanges]
    split
    · rename_i hlo
      rw [ih f j hf, List.any_cons]
      by_cases hj : j < 256
      · have : ¬ lo ≤ j := by omega
        simp [this]
      · simp [hj]
    · rename_i hlo
      simp only []
      rw [ih _ j (addRange_ok _ _ _ hf), addRange_mem _ _ _ _ hf, List.any_cons]
      by_cases hj : j < 256
      · by_cases h1 : lo ≤ j
        · by_cases h2 : j ≤ hi
          · have : j < lo + ((if hi > 255 then 255 else hi) + 1 - lo) := by split <;> omega
            simp [hj, h1, h2, this]
          · have : ¬ j < lo + ((if hi > 255 then 255 else hi) + 1 - lo) := by split <;> omega
            simp [hj, h1, h2, this]
        · simp [hj, h1]
      · simp [hj]

namespace Ref

theorem run_zero (h : Bytes) (t : Task) (pos : Nat) (k : Nat → Option Nat) : run h 0 t pos k = none := by
  rw [run]

theorem run_lit_cons (h : Bytes) (f : Nat) (r : Nat) (rs : List Nat) (fold : Bool) (pos : Nat) (k : Nat → Option Nat) :
    run h (f+1) (.lit (r :: rs) fold) pos k =
      if (Utf8.decodeAt h pos).2 > 0 && (if fold then foldEq r (Utf8.decodeAt h pos).1 else decide (r = (Utf8.decodeAt h pos).1))
      then run h f (.lit rs fold) (pos + (Utf8.decodeAt h pos).2) k else none := by
  rw [run]

theorem run_seq_cons (h : Bytes) (f : Nat) (x : Re) (xs : List Re) (pos : Nat) (k : Nat → Option Nat) :
    run h (f+1) (.seq (x :: xs)) pos k = run h f (.one x) pos fun p => run h f (.seq xs) p k := by
  rw [run]

theorem run_alts_cons (h : Bytes) (f : Nat) (x : Re) (xs : List Re) (pos : Nat) (k : Nat → Option Nat) :
    run h (f+1) (.alts (x :: xs)) pos k = orElse (run h f (.one x) pos k) fun _ => run h f (.alts xs) pos k := by
  rw [run]

theorem run_alts_nil (h : Bytes) (f : Nat) (pos : Nat) (k : Nat → Option Nat) :
    run h (f+1) (.alts []) pos k = none := by
  rw [run]

theorem run_one (h : Bytes) (f : Nat) (re : Re) (pos : Nat) (k : Nat → Option Nat) :
    run h (f+1) (.one re) pos k =
      match re.op with
      | .noMatch => none
      | .emptyMatch => k pos
      | .literal => run h f (.lit re.rune re.foldCase) pos k
      | .charClass =>
        if (Utf8.decodeAt h pos).2 > 0 && inRanges (pairs re.rune) (Utf8.decodeAt h pos).1
        then k (pos + (Utf8.decodeAt h pos).2) else none
      | .anyCharNotNL =>
        if (Utf8.decodeAt h pos).2 > 0 && decide ((Utf8.decodeAt h pos).1 ≠ 10) then k (pos + (Utf8.decodeAt h pos).2) else none
      | .anyChar =>
        if (Utf8.decodeAt h pos).2 > 0 then k (pos + (Utf8.decodeAt h pos).2) else none
      | .beginLine => if pos = 0 ∨ h.at (pos - 1) = 10 then k pos else none
      | .endLine => if pos = h.size ∨ h.at pos = 10 then k pos else none
      | .beginText => if pos = 0 then k pos else none
      | .endText => if pos = h.size then k pos else none
      | .wordBoundary =>
        if (decide (pos > 0) && isWordByte (h.at (pos - 1))) != (decide (pos < h.size) && isWordByte (h.at pos))
        then k pos else none
      | .noWordBoundary =>
        if (decide (pos > 0) && isWordByte (h.at (pos - 1))) == (decide (pos < h.size) && isWordByte (h.at pos))
        then k pos else none
      | .capture => run h f (.seq re.sub) pos k
      | .concat => run h f (.seq re.sub) pos k
      | .alternate => run h f (.alts re.sub) pos k
      | .star =>
        match re.sub with
        | [x] => run h f (.star x re.nonGreedy) pos k
        | _ => none
      | .plus =>
        match re.sub with
        | [x] => run h f (.one x) pos fun p => run h f (.star x re.nonGreedy) p k
        | _ => none
      | .quest =>
        match re.sub with
        | [x] => run h f (.rep x 0 (some 1) re.nonGreedy) pos k
        | _ => none
      | .repeat_ =>
        match re.sub with
        | [x] => run h f (.rep x re.min.toNat (if re.max < 0 then none else some re.max.toNat) re.nonGreedy) pos k
        | _ => none := by
  rw [run]
  cases re.op <;> rfl

theorem run_rep_succ (h : Bytes) (f : Nat) (x : Re) (m : Nat) (mx : Option Nat) (lazy : Bool) (pos : Nat)
    (k : Nat → Option Nat) :
    run h (f+1) (.rep x (m+1) mx lazy) pos k =
      run h f (.one x) pos fun p => run h f (.rep x m (mx.map (· - 1)) lazy) p k := by
  rw [run]

end Ref

/-! ### the first-byte set as a rejection filter: soundness on an ASCII, case-sensitive, anchor-free fragment -/

theorem decode_ascii_inv (h : Bytes) (pos : Nat) (hw : (Utf8.decodeAt h pos).2 > 0)
    (hc : (Utf8.decodeAt h pos).1 ≤ 127) : h.at pos = (Utf8.decodeAt h pos).1 ∧ pos < h.size := by
  unfold Utf8.decodeAt at *
  rcases Utf8.decode_cases h h.size pos with ⟨a, e⟩ | ⟨a, b, e⟩ | ⟨a, b, e⟩ | ⟨a, b, b', c, c', e⟩ |
    ⟨a, b, b', c, c', hE0, hED, d, d', e⟩ | ⟨a, b, b', c, c', hF0, hF4, d, d', f, f', e⟩
  all_goals rw [e] at hw hc ⊢
  all_goals simp only [Utf8.runeError] at hw hc ⊢
  all_goals first | omega | exact ⟨trivial, by omega⟩ | exact ⟨rfl, by omega⟩

theorem decode_ascii_fwd (h : Bytes) (pos : Nat) (hp : pos < h.size) (hb : h.at pos < 128) :
    Utf8.decodeAt h pos = (h.at pos, 1) := by
  unfold Utf8.decodeAt
  rcases Utf8.decode_cases h h.size pos with ⟨a, e⟩ | ⟨a, b, e⟩ | ⟨a, b, e⟩ | ⟨a, b, b', c, c', e⟩ |
    ⟨a, b, b', c, c', hE0, hED, d, d', e⟩ | ⟨a, b, b', c, c', hF0, hF4, d, d', f, f', e⟩
  all_goals first | exact e | omega

theorem decode_width_pos (h : Bytes) (pos : Nat) (hw : (Utf8.decodeAt h pos).2 > 0) : pos < h.size := by
  false_or_by_contra
  rw [Utf8.decode_at_end h pos (by omega)] at hw
  simp at hw

theorem foldl_addNew_complete (l : List Nat) (f : FirstByteSet) :
    (l.foldl FirstByteSet.addNew f).complete = f.complete := by
  induction l generalizing f with
  | nil => rfl
  | cons a l ih =>
    rw [List.foldl_cons, ih]
    unfold FirstByteSet.addNew
    split <;> rfl

/-- every successful run of the task starts on a byte of `S` -/
def FirstOK (S : Nat → Bool) (t : Ref.Task) : Prop :=
  ∀ (h : Bytes), (∀ i, h.at i < 256) → ∀ f pos k e, Ref.run h f t pos k = some e → S (h.at pos) = true

theorem FirstOK.mono {S S' : Nat → Bool} {t : Ref.Task} (hs : ∀ j, S j = true → S' j = true) (h : FirstOK S t) :
    FirstOK S' t := fun hh hb f pos k e hr => hs _ (h hh hb f pos k e hr)

theorem firstOK_seq_cons {S : Nat → Bool} {x : Re} (xs : List Re) (hx : FirstOK S (.one x)) :
    FirstOK S (.seq (x :: xs)) := by
  intro h hb f pos k e hr
  cases f with
  | zero => rw [Ref.run_zero] at hr; exact nomatch hr
  | succ f =>
    rw [Ref.run_seq_cons] at hr
    exact hx h hb f pos _ e hr

theorem firstOK_seq_anchor {S : Nat → Bool} {a : Re} (xs : List Re) (ha : a.op = .beginLine ∨ a.op = .beginText)
    (hxs : FirstOK S (.seq xs)) : FirstOK S (.seq (a :: xs)) := by
  intro h hb f pos k e hr
  cases f with
  | zero => rw [Ref.run_zero] at hr; exact nomatch hr
  | succ f =>
    rw [Ref.run_seq_cons] at hr
    cases f with
    | zero => rw [Ref.run_zero] at hr; exact nomatch hr
    | succ f =>
      rw [Ref.run_one] at hr
      rcases ha with ha | ha <;> rw [ha] at hr <;> simp only [] at hr
      · split at hr
        · exact hxs h hb _ pos k e hr
        · exact nomatch hr
      · split at hr
        · exact hxs h hb _ pos k e hr
        · exact nomatch hr

theorem firstOK_seq_find {S : Nat → Bool} (l : List Re) (x : Re)
    (hf : l.find? (fun s => !(decide (s.op = .beginLine) || decide (s.op = .beginText))) = some x)
    (hx : FirstOK S (.one x)) : FirstOK S (.seq l) := by
  induction l with
  | nil => exact nomatch hf
  | cons a l ih =>
    rw [List.find?_cons] at hf
    split at hf
    · cases hf; exact firstOK_seq_cons l hx
    · rename_i hna
      have ha : a.op = .beginLine ∨ a.op = .beginText := by
        simp only [Bool.not_eq_false', Bool.or_eq_true, decide_eq_true_eq] at hna
        simpa using hna
      exact firstOK_seq_anchor l ha (ih hf)

theorem firstOK_alts {S : Nat → Bool} (l : List Re) (hl : ∀ x ∈ l, FirstOK S (.one x)) : FirstOK S (.alts l) := by
  induction l with
  | nil =>
    intro h hb f pos k e hr
    cases f with
    | zero => rw [Ref.run_zero] at hr; exact nomatch hr
    | succ f => rw [Ref.run_alts_nil] at hr; exact nomatch hr
  | cons x xs ih =>
    intro h hb f pos k e hr
    cases f with
    | zero => rw [Ref.run_zero] at hr; exact nomatch hr
    | succ f =>
      rw [Ref.run_alts_cons] at hr
      unfold Ref.orElse at hr
      split at hr
      · rename_i e' he
        exact hl x List.mem_cons_self h hb f pos k e' he
      · exact ih (fun y hy => hl y (List.mem_cons_of_mem _ hy)) h hb f pos k e hr

/-- what one successful extraction step guarantees -/
structure ExtractOK (re : Re) (res res' : FirstByteSet) : Prop where
  ok : res'.Ok
  mono : ∀ j, res.bytes.mem j = true → res'.bytes.mem j = true
  complete : res'.complete = res.complete
  first : FirstOK res'.bytes.mem (.one re)

theorem altLoop_sound (fuel : Nat)
    (ih : ∀ re res res', res.Ok → extractFirstBytesRec fuel re res = (true, res') → fbFrag fuel re = true →
      ExtractOK re res res') :
    ∀ (l : List Re) (res res' : FirstByteSet), res.Ok → altLoop (extractFirstBytesRec fuel) l res = (true, res') →
      (∀ x ∈ l, fbFrag fuel x = true) →
      res'.Ok ∧ (∀ j, res.bytes.mem j = true → res'.bytes.mem j = true) ∧ res'.complete = res.complete ∧
        ∀ x ∈ l, FirstOK res'.bytes.mem (.one x) := by
  intro l
  induction l with
  | nil =>
    intro res res' hok hl _
    rw [altLoop] at hl
    cases hl
    exact ⟨hok, fun _ hj => hj, rfl, fun x hx => nomatch hx⟩
  | cons x xs ihl =>
    intro res res' hok hl hfr
    rw [altLoop] at hl
    cases hx : extractFirstBytesRec fuel x res with
    | mk b res1 =>
      rw [hx] at hl
      cases b with
      | false => simp only [] at hl; cases hl
      | true =>
        simp only [] at hl
        have h1 := ih x res res1 hok hx (hfr x List.mem_cons_self)
        obtain ⟨h2ok, h2mono, h2c, h2f⟩ := ihl res1 res' h1.ok hl (fun y hy => hfr y (List.mem_cons_of_mem _ hy))
        refine ⟨h2ok, fun j hj => h2mono j (h1.mono j hj), by rw [h2c, h1.complete], fun y hy => ?_⟩
        rcases List.mem_cons.mp hy with rfl | hy
        · exact h1.first.mono h2mono
        · exact h2f y hy

theorem extract_sound : ∀ fuel re res res', res.Ok → extractFirstBytesRec fuel re res = (true, res') →
    fbFrag fuel re = true → ExtractOK re res res' := by
  intro fuel
  induction fuel with
  | zero => intro re res res' _ _ hfr; exact nomatch hfr
  | succ fuel ih =>
    intro re res res' hok hx hfr
    rw [extractFirstBytesRec] at hx
    rw [fbFrag] at hfr
    cases hop : re.op <;> rw [hop] at hx hfr <;> simp only [] at hx hfr
    all_goals first | exact absurd hfr (by decide) | skip
    · -- literal
      simp only [Bool.and_eq_true, Bool.not_eq_true'] at hfr
      obtain ⟨hfold, hr⟩ := hfr
      cases hrune : re.rune with
      | nil => rw [hrune] at hr; exact nomatch hr
      | cons r rs =>
        rw [hrune] at hx hr
        simp only [decide_eq_true_eq] at hr
        simp only [] at hx
        rw [if_neg (by omega)] at hx
        cases hx
        refine ⟨FirstByteSet.addAlways_ok res r hok, fun j hj => ?_, rfl, ?_⟩
        · rw [FirstByteSet.addAlways_mem res r j hok, hj]; rfl
        · intro h hb f pos k e hrun
          cases f with
          | zero => rw [Ref.run_zero] at hrun; exact nomatch hrun
          | succ f =>
            rw [Ref.run_one, hop] at hrun
            simp only [] at hrun
            cases f with
            | zero => rw [Ref.run_zero] at hrun; exact nomatch hrun
            | succ f =>
              rw [hrune, hfold, Ref.run_lit_cons] at hrun
              simp only [Bool.false_eq_true, if_false] at hrun
              split at hrun
              · rename_i hcond
                simp only [Bool.and_eq_true, decide_eq_true_eq] at hcond
                obtain ⟨hw, hrc⟩ := hcond
                have := (decode_ascii_inv h pos hw (by omega)).1
                rw [FirstByteSet.addAlways_mem res r _ hok, this, ← hrc]
                simp; omega
              · exact nomatch hrun
    · -- charClass
      obtain ⟨hcnt, hres⟩ := Prod.mk.inj hx
      subst hres
      refine ⟨addClassRanges_ok _ res hok, fun j hj => ?_, addClassRanges_complete _ res, ?_⟩
      · rw [addClassRanges_mem _ res j hok, hj]; rfl
      · intro h hb f pos k e hrun
        cases f with
        | zero => rw [Ref.run_zero] at hrun; exact nomatch hrun
        | succ f =>
          rw [Ref.run_one, hop] at hrun
          simp only [] at hrun
          split at hrun
          · rename_i hcond
            simp only [Bool.and_eq_true, decide_eq_true_eq] at hcond
            obtain ⟨hw, hin⟩ := hcond
            unfold Ref.inRanges at hin
            have hle : (Utf8.decodeAt h pos).1 ≤ 127 := by
              simp only [List.any_eq_true, Bool.and_eq_true, decide_eq_true_eq] at hin
              obtain ⟨p, hp, _, h2⟩ := hin
              simp only [List.all_eq_true, decide_eq_true_eq] at hfr
              have := hfr p hp
              omega
            have hat := (decode_ascii_inv h pos hw hle).1
            rw [addClassRanges_mem _ res _ hok, hat, hin]
            simp; omega
          · exact nomatch hrun
    · -- anyCharNotNL
      obtain ⟨_, hres⟩ := Prod.mk.inj hx
      subst hres
      refine ⟨FirstByteSet.foldl_addNew_ok _ res hok, fun j hj => ?_, ?_, ?_⟩
      · rw [FirstByteSet.foldl_addNew_mem _ res hok, hj]; rfl
      · exact foldl_addNew_complete _ res
      · intro h hb f pos k e hrun
        cases f with
        | zero => rw [Ref.run_zero] at hrun; exact nomatch hrun
        | succ f =>
          rw [Ref.run_one, hop] at hrun
          simp only [] at hrun
          split at hrun
          · rename_i hcond
            simp only [Bool.and_eq_true, decide_eq_true_eq] at hcond
            obtain ⟨hw, hne⟩ := hcond
            have hp := decode_width_pos h pos hw
            have hne10 : h.at pos ≠ 10 := by
              intro h10
              rw [decode_ascii_fwd h pos hp (by omega)] at hne
              exact hne h10
            rw [FirstByteSet.foldl_addNew_mem _ res hok]
            have := hb pos
            simp [hne10, this]
          · exact nomatch hrun
    · -- anyChar
      obtain ⟨_, hres⟩ := Prod.mk.inj hx
      subst hres
      refine ⟨FirstByteSet.foldl_addNew_ok _ res hok, fun j hj => ?_, ?_, ?_⟩
      · rw [FirstByteSet.foldl_addNew_mem _ res hok, hj]; rfl
      · exact foldl_addNew_complete _ res
      · intro h hb f pos k e hrun
        rw [FirstByteSet.foldl_addNew_mem _ res hok]
        have := hb pos
        simp [this]
    · -- capture
      cases hsub : re.sub with
      | nil => rw [hsub] at hfr; exact nomatch hfr
      | cons x xs =>
        cases xs with
        | cons _ _ => rw [hsub] at hfr; exact nomatch hfr
        | nil =>
          rw [hsub] at hx hfr
          simp only [] at hx hfr
          have hxo := ih x res res' hok hx hfr
          refine ⟨hxo.ok, hxo.mono, hxo.complete, ?_⟩
          intro h hb f pos k e hrun
          cases f with
          | zero => rw [Ref.run_zero] at hrun; exact nomatch hrun
          | succ f =>
            rw [Ref.run_one, hop] at hrun
            simp only [] at hrun
            rw [hsub] at hrun
            exact firstOK_seq_cons [] hxo.first h hb f pos k e hrun
    · -- plus
      cases hsub : re.sub with
      | nil => rw [hsub] at hfr; exact nomatch hfr
      | cons x xs =>
        cases xs with
        | cons _ _ => rw [hsub] at hfr; exact nomatch hfr
        | nil =>
          rw [hsub] at hx hfr
          simp only [] at hx hfr
          have hxo := ih x res res' hok hx hfr
          refine ⟨hxo.ok, hxo.mono, hxo.complete, ?_⟩
          intro h hb f pos k e hrun
          cases f with
          | zero => rw [Ref.run_zero] at hrun; exact nomatch hrun
          | succ f =>
            rw [Ref.run_one, hop] at hrun
            simp only [] at hrun
            rw [hsub] at hrun
            exact hxo.first h hb f pos _ e hrun
    · -- repeat_
      simp only [Bool.and_eq_true, decide_eq_true_eq] at hfr
      obtain ⟨hmin, hfr⟩ := hfr
      rw [if_neg (by omega)] at hx
      cases hsub : re.sub with
      | nil => rw [hsub] at hfr; exact nomatch hfr
      | cons x xs =>
        cases xs with
        | cons _ _ => rw [hsub] at hfr; exact nomatch hfr
        | nil =>
          rw [hsub] at hx hfr
          simp only [] at hx hfr
          have hxo := ih x res res' hok hx hfr
          refine ⟨hxo.ok, hxo.mono, hxo.complete, ?_⟩
          intro h hb f pos k e hrun
          cases f with
          | zero => rw [Ref.run_zero] at hrun; exact nomatch hrun
          | succ f =>
            rw [Ref.run_one, hop] at hrun
            simp only [] at hrun
            rw [hsub] at hrun
            simp only [] at hrun
            obtain ⟨m, hm⟩ : ∃ m, re.min.toNat = m + 1 := ⟨re.min.toNat - 1, by omega⟩
            rw [hm] at hrun
            cases f with
            | zero => rw [Ref.run_zero] at hrun; exact nomatch hrun
            | succ f =>
              rw [Ref.run_rep_succ] at hrun
              exact hxo.first h hb f pos _ e hrun
    · -- concat
      cases hfind : re.sub.find? (fun s => !(decide (s.op = .beginLine) || decide (s.op = .beginText))) with
      | none => rw [hfind] at hfr; exact nomatch hfr
      | some x =>
        rw [hfind] at hx hfr
        simp only [] at hx hfr
        have hxo := ih x res res' hok hx hfr
        refine ⟨hxo.ok, hxo.mono, hxo.complete, ?_⟩
        intro h hb f pos k e hrun
        cases f with
        | zero => rw [Ref.run_zero] at hrun; exact nomatch hrun
        | succ f =>
          rw [Ref.run_one, hop] at hrun
          simp only [] at hrun
          exact firstOK_seq_find re.sub x hfind hxo.first h hb f pos k e hrun
    · -- alternate
      simp only [List.all_eq_true] at hfr
      obtain ⟨h1, h2, h3, h4⟩ := altLoop_sound fuel ih re.sub res res' hok hx hfr
      refine ⟨h1, h2, h3, ?_⟩
      intro h hb f pos k e hrun
      cases f with
      | zero => rw [Ref.run_zero] at hrun; exact nomatch hrun
      | succ f =>
        rw [Ref.run_one, hop] at hrun
        simp only [] at hrun
        exact firstOK_alts re.sub h4 h hb f pos k e hrun

/-- **Soundness of the first-byte rejection filter on the fragment**: if `ExtractFirstBytes` succeeds on a pattern of
    the fragment, then every haystack (of bytes) on which the pattern matches at offset 0 starts with a byte of the
    set — so meta's "`!Contains(haystack[0])` ⇒ no match" shortcut is correct there.  The set is moreover complete. -/
theorem firstBytes_filter_sound (re : Re) (fb : FirstByteSet) (hx : extractFirstBytes re = some fb)
    (frag : fbFrag 21 re = true) (h : Bytes) (hb : ∀ i, h.at i < 256) (e : Nat)
    (hm : Ref.matchAt re h 0 = some e) : fb.contains (h.at 0) = true ∧ fb.complete = true := by
  unfold extractFirstBytes at hx
  cases hr : extractFirstBytesRec 21 re {} with
  | mk b res =>
    rw [hr] at hx
    cases b with
    | false => exact nomatch hx
    | true =>
      simp only [Option.some.injEq] at hx
      subst hx
      have := extract_sound 21 re {} res FirstByteSet.ok_empty hr frag
      exact ⟨this.first h hb _ 0 _ e hm, this.complete⟩

/-! ### `NewBranchDispatcher` on the fragment produces well-formed tables -/

theorem getD_setIfInBounds_int (d : Array Int) (b x : Nat) (v : Int) :
    (d.setIfInBounds b v).getD x (-1) = if b = x ∧ b < d.size then v else d.getD x (-1) := by
  simp only [Array.getD_eq_getD_getElem?, Array.getElem?_setIfInBounds]
  by_cases hbx : b = x
  · subst hbx
    by_cases hb : b < d.size <;> simp [hb]
  · simp [hbx]

/-- effect of the overlap-checking claim loop -/
theorem claimBytes_spec (fb : FirstByteSet) (i : Nat) :
    ∀ (l : List Nat) (d d' : Array Int), l.Nodup → (∀ x ∈ l, x < d.size) → claimBytes fb i l d = some d' →
      d'.size = d.size ∧
      (∀ x ∈ l, fb.bytes.mem x = true → d.getD x (-1) = -1) ∧
      (∀ x, d'.getD x (-1) = if x ∈ l ∧ fb.bytes.mem x = true then (i : Int) else d.getD x (-1)) := by
  intro l
  induction l with
  | nil =>
    intro d d' _ _ hc
    rw [claimBytes] at hc; cases hc
    exact ⟨rfl, (fun x hx => nomatch hx), fun x => by simp⟩
  | cons b bs ih =>
    intro d d' hnd hlt hc
    rw [List.nodup_cons] at hnd
    rw [claimBytes] at hc
    by_cases hm : fb.bytes.mem b = true
    · rw [if_pos hm] at hc
      by_cases hfree : d.getD b (-1) ≠ -1
      · rw [if_pos hfree] at hc; exact nomatch hc
      · rw [if_neg hfree] at hc
        have hfree : d.getD b (-1) = -1 := by simpa using hfree
        obtain ⟨h1, h2, h3⟩ := ih _ d' hnd.2 (fun x hx => by simpa using hlt x (List.mem_cons_of_mem _ hx)) hc
        refine ⟨by simpa using h1, fun x hx hxm => ?_, fun x => ?_⟩
        · rcases List.mem_cons.mp hx with rfl | hx
          · exact hfree
          · have := h2 x hx hxm
            rw [getD_setIfInBounds_int] at this
            have hne : ¬ b = x := fun hbx => hnd.1 (hbx ▸ hx)
            simpa [hne] using this
        · rw [h3 x, getD_setIfInBounds_int]
          have hb := hlt b List.mem_cons_self
          by_cases hbx : b = x
          · subst hbx
            simp [hm, hb, hnd.1]
          · have hne : ¬ x = b := fun h => hbx h.symm
            simp [hbx, hne]
    · rw [if_neg hm] at hc
      obtain ⟨h1, h2, h3⟩ := ih d d' hnd.2 (fun x hx => hlt x (List.mem_cons_of_mem _ hx)) hc
      refine ⟨h1, fun x hx hxm => ?_, fun x => ?_⟩
      · rcases List.mem_cons.mp hx with rfl | hx
        · exact absurd hxm hm
        · exact h2 x hx hxm
      · rw [h3 x]
        by_cases hbx : x = b
        · subst hbx
          simp [hm, hnd.1]
        · simp [hbx]

theorem tableOfRangesClamped_mem (rs : List (Nat × Nat)) (b : Nat) :
    (tableOfRangesClamped rs).mem b = (decide (b < 256) && rs.any fun r => decide (r.1 ≤ b) && decide (b ≤ r.2)) := by
  unfold tableOfRangesClamped
  rw [tableOfRanges_mem]
  by_cases hb : b < 256
  · simp only [hb, decide_true, Bool.true_and, List.any_map, List.any_filter]
    congr 1
    funext r
    simp only [Function.comp]
    by_cases h1 : r.1 ≤ b
    · have : r.1 ≤ 255 := by omega
      by_cases h2 : b ≤ r.2
      · have : b ≤ min r.2 255 := by omega
        simp [*]
      · have : ¬ b ≤ min r.2 255 := by omega
        simp [*]
    · simp [h1]
  · simp [hb]

section
attribute [local irreducible] tableOfRanges

/-- shape facts about a fragment branch -/
theorem isBDBranch_cases (x : Re) (hx : isBDBranch x = true) :
    ((x.op ≠ .capture ∧ branchCore x = x) ∨ (x.op = .capture ∧ x.sub = [branchCore x])) ∧
    ((isLitBranch (branchCore x) = true) ∨ (isClsPlusBranch (branchCore x) = true)) := by
  unfold isBDBranch at hx
  simp only [Bool.and_eq_true, Bool.or_eq_true, Bool.not_eq_true', decide_eq_false_iff_not] at hx
  refine ⟨?_, hx.2⟩
  unfold branchCore
  by_cases hc : x.op = .capture
  · right
    refine ⟨hc, ?_⟩
    rw [if_pos hc]
    rcases hx.1 with h1 | h1
    · exact absurd hc h1
    · split at h1
      · rename_i y hy; rw [hy]
      · exact nomatch h1
  · left; exact ⟨hc, by rw [if_neg hc]⟩

theorem isLitBranch_shape (y : Re) (hy : isLitBranch y = true) :
    y.op = .literal ∧ y.foldCase = false ∧ ∃ r rs, y.rune = r :: rs ∧ ∀ q ∈ y.rune, q ≤ 127 := by
  unfold isLitBranch at hy
  simp only [Bool.and_eq_true, decide_eq_true_eq, Bool.not_eq_true', List.all_eq_true, List.isEmpty_eq_false_iff] at hy
  obtain ⟨⟨⟨h1, h2⟩, h3⟩, h4⟩ := hy
  refine ⟨h1, h2, ?_⟩
  cases hr : y.rune with
  | nil => exact absurd hr h3
  | cons r rs => exact ⟨r, rs, rfl, by rw [← hr]; exact h4⟩

theorem isClsPlusBranch_shape (y : Re) (hy : isClsPlusBranch y = true) :
    y.op = .plus ∧ y.nonGreedy = false ∧ ∃ cc, y.sub = [cc] ∧ cc.op = .charClass ∧ ∀ p ∈ pairs cc.rune, p.2 ≤ 127 := by
  unfold isClsPlusBranch at hy
  simp only [Bool.and_eq_true, decide_eq_true_eq, Bool.not_eq_true'] at hy
  obtain ⟨⟨h1, h2⟩, h3⟩ := hy
  refine ⟨h1, h2, ?_⟩
  split at h3
  · rename_i cc hcc
    simp only [Bool.and_eq_true, decide_eq_true_eq, List.all_eq_true] at h3
    exact ⟨cc, hcc, h3.1, h3.2⟩
  · exact nomatch h3

/-- what `ExtractFirstBytes` returns for a fragment branch -/
theorem extractFirstBytes_branch (x : Re) (hx : isBDBranch x = true) (fb : FirstByteSet)
    (he : extractFirstBytes x = some fb) :
    fb.complete = true ∧ fb.count > 0 ∧ ∀ j, fb.bytes.mem j = true ↔ (branchOf x).first j := by
  obtain ⟨hcap, hkind⟩ := isBDBranch_cases x hx
  -- reduce to the core with some fuel ≥ 2
  have hcore : ∃ f, 2 ≤ f ∧ extractFirstBytesRec f (branchCore x) {} = (true, fb) := by
    unfold extractFirstBytes at he
    cases hr : extractFirstBytesRec 21 x {} with
    | mk b res =>
      rw [hr] at he
      cases b with
      | false => exact nomatch he
      | true =>
        simp only [Option.some.injEq] at he
        subst he
        rcases hcap with ⟨_, hc⟩ | ⟨hc, hs⟩
        · exact ⟨21, by omega, by rw [hc]; exact hr⟩
        · rw [extractFirstBytesRec, hc] at hr
          simp only [] at hr
          rw [hs] at hr
          exact ⟨20, by omega, hr⟩
  obtain ⟨f, hf, hr⟩ := hcore
  obtain ⟨f, rfl⟩ : ∃ f', f = f' + 2 := ⟨f - 2, by omega⟩
  unfold branchOf
  simp only []
  rcases hkind with hl | hc
  · obtain ⟨hop, _, r, rs, hrune, hall⟩ := isLitBranch_shape _ hl
    rw [extractFirstBytesRec, hop] at hr
    simp only [] at hr
    rw [hrune] at hr
    simp only [] at hr
    have hr127 : r ≤ 127 := hall r (by rw [hrune]; exact List.mem_cons_self)
    rw [if_neg (by omega)] at hr
    obtain ⟨_, rfl⟩ := Prod.mk.inj hr
    rw [if_pos hop]
    refine ⟨rfl, by simp [FirstByteSet.addAlways], fun j => ?_⟩
    rw [FirstByteSet.addAlways_mem _ _ _ FirstByteSet.ok_empty]
    unfold Branch.first
    rw [hrune]
    have hempty : Table.mem ({} : FirstByteSet).bytes j = false := by
      unfold Table.mem; simp [Array.getD]
    rw [hempty]
    simp only [Bool.false_or, Bool.and_eq_true, decide_eq_true_eq, List.head?_cons, Option.some.injEq]
    constructor
    · rintro ⟨h1, _⟩; exact h1
    · intro h1; exact ⟨h1, by omega⟩
  · obtain ⟨hop, _, cc, hsub, hcc, _⟩ := isClsPlusBranch_shape _ hc
    rw [extractFirstBytesRec, hop] at hr
    simp only [] at hr
    rw [hsub] at hr
    simp only [] at hr
    rw [extractFirstBytesRec, hcc] at hr
    simp only [] at hr
    obtain ⟨hcnt, rfl⟩ := Prod.mk.inj hr
    rw [if_neg (by rw [hop]; exact fun h => nomatch h), hsub]
    simp only []
    refine ⟨by rw [addClassRanges_complete], by simpa using hcnt, fun j => ?_⟩
    rw [addClassRanges_mem _ _ _ FirstByteSet.ok_empty]
    show _ ↔ (tableOfRangesClamped (pairs cc.rune)).mem j = true
    rw [tableOfRangesClamped_mem]
    have hempty : Table.mem ({} : FirstByteSet).bytes j = false := by
      unfold Table.mem; simp [Array.getD]
    rw [hempty]
    simp

/-- what `buildBranchMatcher` returns for a fragment branch -/
theorem buildBranchMatcher_branch (x : Re) (hx : isBDBranch x = true) :
    match branchOf x with
    | .lit l => l ≠ [] ∧ (buildBranchMatcher x).literal.toList = l
    | .clsPlus mem =>
      (buildBranchMatcher x).literal.size = 0 ∧ (buildBranchMatcher x).hasCharClass = true ∧
      (buildBranchMatcher x).minMatch = 1 ∧ ∀ j, (buildBranchMatcher x).charClass.mem j = mem j := by
  obtain ⟨_, hkind⟩ := isBDBranch_cases x hx
  have hbuild : buildBranchMatcher x =
      (match (branchCore x).op with
       | .literal =>
         match literalBytes (branchCore x).rune with
         | some b => { literal := b }
         | none =>
           let good := (branchCore x).rune.takeWhile (· ≤ 255)
           { literal := (good ++ List.replicate ((branchCore x).rune.length - good.length) 0).toArray }
       | .plus =>
         match (branchCore x).sub with
         | [cc] => if cc.op = .charClass then
                     { charClass := tableOfRangesClamped (pairs cc.rune), hasCharClass := true, minMatch := 1 }
                   else {}
         | _ => {}
       | .star =>
         match (branchCore x).sub with
         | [cc] => if cc.op = .charClass then
                     { charClass := tableOfRangesClamped (pairs cc.rune), hasCharClass := true, minMatch := 0 }
                   else {}
         | _ => {}
       | .concat =>
         match (branchCore x).sub with
         | l :: _ => if l.op = .literal then
                       match literalBytes l.rune with
                       | some b => { literal := b }
                       | none => {}
                     else {}
         | [] => {}
       | _ => {}) := rfl
  rw [hbuild]
  unfold branchOf
  simp only []
  rcases hkind with hl | hc
  · obtain ⟨hop, _, r, rs, hrune, hall⟩ := isLitBranch_shape _ hl
    rw [if_pos hop, hop]
    simp only []
    have hlb : literalBytes (branchCore x).rune = some (branchCore x).rune.toArray := by
      unfold literalBytes
      rw [if_neg]
      simp only [List.any_eq_true, decide_eq_true_eq, not_exists, not_and]
      intro q hq
      have := hall q hq
      omega
    rw [hlb]
    simp only []
    exact ⟨by rw [hrune]; exact (fun h => nomatch h), by simp⟩
  · obtain ⟨hop, _, cc, hsub, hcc, _⟩ := isClsPlusBranch_shape _ hc
    rw [if_neg (by rw [hop]; exact fun h => nomatch h), hop]
    simp only []
    rw [hsub]
    simp only []
    rw [if_pos hcc]
    exact ⟨rfl, rfl, rfl, fun j => rfl⟩

end

theorem branchOf_first_lt (x : Re) (hx : isBDBranch x = true) (j : Nat) (hf : (branchOf x).first j) : j < 256 := by
  obtain ⟨_, hkind⟩ := isBDBranch_cases x hx
  unfold branchOf at hf
  simp only [] at hf
  rcases hkind with hl | hc
  · obtain ⟨hop, _, r, rs, hrune, hall⟩ := isLitBranch_shape _ hl
    rw [if_pos hop, hrune] at hf
    have : r = j := by simpa [Branch.first] using hf
    have := hall r (by rw [hrune]; exact List.mem_cons_self)
    omega
  · obtain ⟨hop, _, cc, hsub, _, _⟩ := isClsPlusBranch_shape _ hc
    rw [if_neg (by rw [hop]; exact fun h => nomatch h)] at hf
    have hf : (tableOfRangesClamped (match (branchCore x).sub with | [cc] => pairs cc.rune | _ => [])).mem j = true := hf
    rw [tableOfRangesClamped_mem] at hf
    simp only [Bool.and_eq_true, decide_eq_true_eq] at hf
    exact hf.1

/-- invariant of the `NewBranchDispatcher` loop after the branches `done` -/
structure LoopInv (done : List Re) (st : BDState) : Prop where
  size : st.dispatch.size = 256
  msize : st.matchers.size = done.length
  noEmpty : st.canMatchEmpty = false
  matcher : ∀ i (hi : i < done.length), st.matchers.getD i {} = buildBranchMatcher done[i]
  range : ∀ x, st.dispatch.getD x (-1) = -1 ∨ ∃ i, i < done.length ∧ st.dispatch.getD x (-1) = (i : Int)
  dispatch : ∀ x i (hi : i < done.length), st.dispatch.getD x (-1) = (i : Int) ↔ (branchOf done[i]).first x

theorem getD_push {α : Type} (a : Array α) (v d : α) (i : Nat) :
    (a.push v).getD i d = if i < a.size then a.getD i d else if i = a.size then v else d := by
  simp only [Array.getD_eq_getD_getElem?, Array.getElem?_push]
  by_cases h1 : i < a.size
  · have : ¬ i = a.size := by omega
    simp [h1, this]
  · by_cases h2 : i = a.size
    · simp [h2]
    · have : a[i]? = none := by simp; omega
      simp [h1, h2]

theorem newBranchLoop_inv :
    ∀ (rest done : List Re) (i : Nat) (st st' : BDState), i = done.length → LoopInv done st →
      (∀ x ∈ rest, isBDBranch x = true) → newBranchLoop rest i st = some st' → LoopInv (done ++ rest) st' := by
  intro rest
  induction rest with
  | nil =>
    intro done i st st' _ hinv _ hl
    rw [newBranchLoop] at hl; cases hl
    simpa using hinv
  | cons b rest ih =>
    intro done i st st' hi hinv hfr hl
    rw [newBranchLoop] at hl
    cases hfb : extractFirstBytes b with
    | none => rw [hfb] at hl; exact nomatch hl
    | some fb =>
      rw [hfb] at hl
      simp only [] at hl
      obtain ⟨hcomp, hcnt, hmem⟩ := extractFirstBytes_branch b (hfr b List.mem_cons_self) fb hfb
      rw [hcomp] at hl
      simp only [Bool.not_true, Bool.false_eq_true, if_false] at hl
      rw [if_neg (by omega)] at hl
      cases hcl : claimBytes fb i (List.range 256) st.dispatch with
      | none => rw [hcl] at hl; exact nomatch hl
      | some d =>
        rw [hcl] at hl
        simp only [] at hl
        obtain ⟨hsz, hfree, hd⟩ := claimBytes_spec fb i (List.range 256) st.dispatch d List.nodup_range
          (fun x hx => by rw [hinv.size]; exact List.mem_range.mp hx) hcl
        have hmem256 : ∀ x, fb.bytes.mem x = true → x < 256 := fun x hx =>
          branchOf_first_lt b (hfr b List.mem_cons_self) x ((hmem x).mp hx)
        have hnew : LoopInv (done ++ [b]) { st with dispatch := d, matchers := st.matchers.push (buildBranchMatcher b) } := by
          refine ⟨by rw [hsz]; exact hinv.size, by simp [hinv.msize], hinv.noEmpty, ?_, ?_, ?_⟩
          · intro idx hidx
            simp only []
            rw [getD_push, hinv.msize]
            by_cases h1 : idx < done.length
            · rw [if_pos h1, hinv.matcher idx h1, List.getElem_append_left h1]
            · have h2 : idx = done.length := by simp at hidx; omega
              subst h2
              rw [if_neg h1, if_pos rfl]
              simp
          · intro x
            simp only []
            rw [hd x]
            split
            · right; exact ⟨done.length, by simp, by rw [hi]⟩
            · rcases hinv.range x with h0 | ⟨j, hj, hjx⟩
              · exact Or.inl h0
              · right; exact ⟨j, by simp; omega, hjx⟩
          · intro x idx hidx
            simp only []
            rw [hd x]
            by_cases h1 : idx < done.length
            · rw [List.getElem_append_left h1, ← hinv.dispatch x idx h1]
              by_cases hx : x ∈ List.range 256 ∧ fb.bytes.mem x = true
              · rw [if_pos hx]
                have := hfree x hx.1 hx.2
                rw [this]
                constructor
                · intro hc; have : (i : Int) = idx := hc; omega
                · intro hc; omega
              · rw [if_neg hx]
            · have h2 : idx = done.length := by simp at hidx; omega
              subst h2
              have hb : (done ++ [b])[done.length] = b := by simp
              rw [hb, ← hmem x]
              by_cases hx : x ∈ List.range 256 ∧ fb.bytes.mem x = true
              · rw [if_pos hx]
                exact ⟨fun _ => hx.2, fun _ => by rw [hi]⟩
              · rw [if_neg hx]
                constructor
                · intro hc
                  rcases hinv.range x with h0 | ⟨j, hj, hjx⟩
                  · rw [h0] at hc; omega
                  · rw [hjx] at hc; omega
                · intro hc
                  exact absurd ⟨List.mem_range.mpr (hmem256 x hc), hc⟩ hx
        have := ih (done ++ [b]) (i + 1) _ st' (by simp [hi]) hnew (fun x hx => hfr x (List.mem_cons_of_mem _ hx)) hl
        simpa using this

theorem getD_replicate_int (x : Nat) : (Array.replicate 256 (-1 : Int)).getD x (-1) = -1 := by
  simp only [Array.getD_eq_getD_getElem?, Array.getElem?_replicate]
  split <;> rfl

/-- **AST-level exactness of the BranchDispatcher on the fragment**: the dispatcher meta builds has well-formed
    tables, hence `Search` = leftmost-first semantics `altFind` of the alternation, and `IsMatch` agrees. -/
theorem branchDispatcher_exact (re : Re) (d : BranchDispatcher) (hd : metaBranchDispatcher re = some d)
    (frag : bdFrag re = true) :
    d.WF ((bdBranches re).map branchOf) ∧
    (∀ h, d.search h = altFind ((bdBranches re).map branchOf) h) ∧
    (∀ h, d.isMatch h = (altFind ((bdBranches re).map branchOf) h).isSome) := by
  unfold bdFrag at frag
  simp only [Bool.and_eq_true, decide_eq_true_eq] at frag
  obtain ⟨hop, frag⟩ := frag
  cases hsub : re.sub with
  | nil => rw [hsub] at frag; exact nomatch frag
  | cons a t =>
    cases t with
    | nil => rw [hsub] at frag; exact nomatch frag
    | cons alt t =>
      cases t with
      | cons _ _ => rw [hsub] at frag; exact nomatch frag
      | nil =>
        rw [hsub] at frag
        simp only [Bool.and_eq_true, Bool.or_eq_true, decide_eq_true_eq, List.all_eq_true] at frag
        obtain ⟨⟨⟨_, haltop⟩, hinner⟩, hbr⟩ := frag
        have hbs : bdBranches re = (bdAlt alt).sub := by unfold bdBranches; rw [hsub]
        -- the alternation part meta selects is `alt`
        have hsel : metaBranchDispatcher re = newBranchDispatcher alt := by
          unfold metaBranchDispatcher
          simp only []
          rw [if_pos ⟨hop, by rw [hsub]; simp⟩, hsub]
          simp only [List.drop_succ_cons, List.drop_zero, List.find?_cons]
          have : (decide (alt.op = .alternate) || decide (alt.op = .capture)) = true := by simpa using haltop
          rw [this]
        rw [hsel] at hd
        unfold newBranchDispatcher at hd
        simp only [] at hd
        have hd : (if (bdAlt alt).op ≠ .alternate then none else
            if (bdAlt alt).sub.length < 2 ∨ (bdAlt alt).sub.length > 127 then none else
              (newBranchLoop (bdAlt alt).sub 0 {}).map fun st =>
                ({ dispatch := st.dispatch, branchMatchers := st.matchers, canMatchEmpty := st.canMatchEmpty } :
                  BranchDispatcher)) = some d := hd
        rw [if_neg (by rw [hinner]; exact fun h => h rfl)] at hd
        split at hd
        · exact nomatch hd
        · cases hloop : newBranchLoop (bdAlt alt).sub 0 {} with
          | none => rw [hloop] at hd; exact nomatch hd
          | some st =>
            rw [hloop, Option.map_some] at hd
            cases hd
            have hinit : LoopInv [] ({} : BDState) :=
              ⟨by simp, by simp, rfl, fun i hi => absurd hi (by simp), fun x => Or.inl (getD_replicate_int x),
               fun x i hi => absurd hi (by simp)⟩
            have hinv := newBranchLoop_inv (bdAlt alt).sub [] 0 {} st rfl hinit hbr hloop
            simp only [List.nil_append] at hinv
            have hwf : BranchDispatcher.WF
                { dispatch := st.dispatch, branchMatchers := st.matchers, canMatchEmpty := st.canMatchEmpty }
                ((bdBranches re).map branchOf) := by
              rw [hbs]
              refine ⟨hinv.noEmpty, ?_, ?_, ?_⟩
              · intro i hi
                have hi' : i < (bdAlt alt).sub.length := by simpa using hi
                rw [List.getElem_map]
                simp only []
                rw [hinv.matcher i hi']
                exact buildBranchMatcher_branch _ (hbr _ (List.getElem_mem hi'))
              · intro x
                rcases hinv.range x with h0 | ⟨j, hj, hjx⟩
                · exact Or.inl h0
                · exact Or.inr ⟨j, by simpa using hj, hjx⟩
              · intro x i hi
                have hi' : i < (bdAlt alt).sub.length := by simpa using hi
                rw [List.getElem_map]
                exact hinv.dispatch x i hi'
            refine ⟨hwf, fun h => BranchDispatcher.search_eq_spec _ _ hwf h, fun h => ?_⟩
            rw [BranchDispatcher.isMatch_eq, BranchDispatcher.search_eq_spec _ _ hwf h]


/-! ## the `[cls]+` specification IS the general leftmost-first semantics (ASCII class, byte haystack) -/

namespace Ref

theorem run_star (h : Bytes) (f : Nat) (x : Re) (lazy : Bool) (pos : Nat) (k : Nat → Option Nat) :
    run h (f+1) (.star x lazy) pos k =
      if lazy then
        orElse (k pos) fun _ => run h f (.one x) pos fun p => if p > pos then run h f (.star x lazy) p k else none
      else
        orElse (run h f (.one x) pos fun p => if p > pos then run h f (.star x lazy) p k else none) fun _ => k pos := by
  rw [run]

end Ref

section
attribute [local irreducible] tableOfRanges

/-- a class of ASCII runes matches exactly the bytes of its table -/
theorem run_one_asciiClass (h : Bytes) (cc : Re) (hcc : cc.op = .charClass)
    (hascii : ∀ p ∈ pairs cc.rune, p.2 ≤ 127) (f pos : Nat) (k : Nat → Option Nat) :
    Ref.run h (f+1) (.one cc) pos k =
      if pos < h.size ∧ (tableOfRanges (pairs cc.rune)).mem (h.at pos) = true then k (pos + 1) else none := by
  rw [Ref.run_one, hcc]
  simp only []
  by_cases hm : pos < h.size ∧ (tableOfRanges (pairs cc.rune)).mem (h.at pos) = true
  · rw [if_pos hm]
    obtain ⟨hp, hmem⟩ := hm
    rw [tableOfRanges_mem] at hmem
    simp only [Bool.and_eq_true, decide_eq_true_eq, List.any_eq_true] at hmem
    obtain ⟨_, p, hpin, h1, h2⟩ := hmem
    have hle : h.at pos ≤ 127 := by have := hascii p hpin; omega
    rw [decode_ascii_fwd h pos hp (by omega)]
    simp only []
    rw [if_pos]
    simp only [Bool.and_eq_true, decide_eq_true_eq]
    refine ⟨by omega, ?_⟩
    unfold Ref.inRanges
    simp only [List.any_eq_true, Bool.and_eq_true, decide_eq_true_eq]
    exact ⟨p, hpin, h1, h2⟩
  · rw [if_neg hm, if_neg]
    intro hc
    simp only [Bool.and_eq_true, decide_eq_true_eq] at hc
    obtain ⟨hw, hin⟩ := hc
    apply hm
    unfold Ref.inRanges at hin
    simp only [List.any_eq_true, Bool.and_eq_true, decide_eq_true_eq] at hin
    obtain ⟨p, hpin, h1, h2⟩ := hin
    have hle : (Utf8.decodeAt h pos).1 ≤ 127 := by have := hascii p hpin; omega
    obtain ⟨hat, hp⟩ := decode_ascii_inv h pos hw hle
    refine ⟨hp, ?_⟩
    rw [tableOfRanges_mem, hat]
    simp only [Bool.and_eq_true, decide_eq_true_eq, List.any_eq_true]
    exact ⟨by omega, p, hpin, h1, h2⟩

/-- greedy `cls*` with the accepting continuation consumes the whole run -/
theorem run_star_asciiClass (h : Bytes) (cc : Re) (hcc : cc.op = .charClass)
    (hascii : ∀ p ∈ pairs cc.rune, p.2 ≤ 127) :
    ∀ m pos f, runLen (tableOfRanges (pairs cc.rune)).mem h pos = m → 2 * m + 2 ≤ f →
      Ref.run h f (.star cc false) pos some = some (pos + m) := by
  intro m
  induction m with
  | zero =>
    intro pos f hrl hf
    obtain ⟨f, rfl⟩ : ∃ f', f = f' + 2 := ⟨f - 2, by omega⟩
    rw [Ref.run_star]
    simp only [Bool.false_eq_true, if_false]
    rw [run_one_asciiClass h cc hcc hascii, if_neg]
    · rfl
    · rintro ⟨hp, hmem⟩
      rw [runLen_lt _ h pos hp, if_pos hmem] at hrl
      omega
  | succ m ih =>
    intro pos f hrl hf
    obtain ⟨f, rfl⟩ : ∃ f', f = f' + 2 := ⟨f - 2, by omega⟩
    rw [Ref.run_star]
    simp only [Bool.false_eq_true, if_false]
    have hp : pos < h.size := by
      false_or_by_contra
      rw [runLen_ge _ h pos (by omega)] at hrl
      omega
    rw [runLen_lt _ h pos hp] at hrl
    split at hrl
    · rename_i hmem
      rw [run_one_asciiClass h cc hcc hascii, if_pos ⟨hp, hmem⟩, if_pos (by omega),
        ih (pos + 1) (f + 1) (by omega) (by omega)]
      unfold Ref.orElse
      simp only []
      congr 1
      omega
    · omega

theorem matchAt_plus_asciiClass (h : Bytes) (re cc : Re) (hop : re.op = .plus)
    (hsub : re.sub = [cc]) (hg : re.nonGreedy = false) (hcc : cc.op = .charClass)
    (hascii : ∀ p ∈ pairs cc.rune, p.2 ≤ 127) (s : Nat) :
    Ref.matchAt re h s =
      if 1 ≤ runLen (tableOfRanges (pairs cc.rune)).mem h s
      then some (s + runLen (tableOfRanges (pairs cc.rune)).mem h s) else none := by
  unfold Ref.matchAt
  have hfuel : 2 * (h.size + 2) + 2 ≤ Ref.fuelFor re h := by
    unfold Ref.fuelFor
    have : 2 * (h.size + 2) ≤ (Ref.sizeAux 32 re + 2) * (h.size + 2) :=
      Nat.mul_le_mul_right _ (by omega)
    omega
  obtain ⟨F, hF⟩ : ∃ F, Ref.fuelFor re h = F + 2 := ⟨Ref.fuelFor re h - 2, by omega⟩
  rw [hF, Ref.run_one, hop]
  simp only []
  rw [hsub]
  simp only []
  rw [run_one_asciiClass h cc hcc hascii, hg]
  by_cases hm : s < h.size ∧ (tableOfRanges (pairs cc.rune)).mem (h.at s) = true
  · rw [if_pos hm]
    have hrl := runLen_lt (tableOfRanges (pairs cc.rune)).mem h s hm.1
    rw [if_pos hm.2] at hrl
    have hle := runLen_le (tableOfRanges (pairs cc.rune)).mem h (s + 1)
    rw [run_star_asciiClass h cc hcc hascii _ (s + 1) (F + 1) rfl (by omega), if_pos (by omega), hrl]
    congr 1
    omega
  · rw [if_neg hm, if_neg]
    intro hc
    apply hm
    by_cases hp : s < h.size
    · rw [runLen_lt _ h s hp] at hc
      split at hc
      · rename_i hmem; exact ⟨hp, hmem⟩
      · omega
    · rw [runLen_ge _ h s (by omega)] at hc
      omega

theorem findLoop_eq_leastFrom (re : Re) (h : Bytes) :
    ∀ k s, s + k = h.size + 1 →
      Ref.findLoop re h k s =
        (leastFrom (fun s => (Ref.matchAt re h s).isSome) h.size s).bind fun s =>
          (Ref.matchAt re h s).map fun e => (s, e) := by
  intro k
  induction k with
  | zero =>
    intro s hk
    rw [Ref.findLoop, leastFrom_gt _ _ _ (by omega)]; rfl
  | succ k ih =>
    intro s hk
    rw [Ref.findLoop, leastFrom_unfold, if_pos (by omega)]
    cases hm : Ref.matchAt re h s with
    | some e => simp [hm]
    | none =>
      simp only [Option.isSome_none, Bool.false_eq_true, if_false]
      exact ih (s + 1) (by omega)

/-- **`ccFind` is the leftmost-first semantics**: for a greedy `cls+` over ASCII runes, the general
    reference matcher (Go rune decoding, backtracking priorities) returns exactly `ccFind … 1`. -/
theorem refFind_plus_eq_ccFind (h : Bytes) (re cc : Re) (hop : re.op = .plus)
    (hsub : re.sub = [cc]) (hg : re.nonGreedy = false) (hcc : cc.op = .charClass)
    (hascii : ∀ p ∈ pairs cc.rune, p.2 ≤ 127) (a : Nat) :
    Ref.refFind re h a = ccFind (tableOfRanges (pairs cc.rune)).mem 1 h a := by
  unfold Ref.refFind ccFind
  by_cases ha : a ≤ h.size + 1
  · rw [findLoop_eq_leastFrom re h _ a (by omega)]
    have hfun : (fun s => (Ref.matchAt re h s).isSome) =
        (fun s => decide (1 ≤ runLen (tableOfRanges (pairs cc.rune)).mem h s)) := by
      funext s
      rw [matchAt_plus_asciiClass h re cc hop hsub hg hcc hascii s]
      split <;> simp [*]
    rw [hfun]
    cases hl : leastFrom (fun s => decide (1 ≤ runLen (tableOfRanges (pairs cc.rune)).mem h s)) h.size a with
    | none => rfl
    | some s =>
      obtain ⟨_, _, h3, _⟩ := (leastFrom_some_iff _ _ _ _).mp hl
      simp only [decide_eq_true_eq] at h3
      simp only [Option.bind_some, Option.map_some]
      rw [matchAt_plus_asciiClass h re cc hop hsub hg hcc hascii s, if_pos h3]
      rfl
  · have : h.size + 1 - a = 0 := by omega
    rw [this, Ref.findLoop, leastFrom_gt _ _ _ (by omega)]; rfl

/-- **CharClassSearcher end to end**: on EVERY pattern `IsSimpleCharClassPlus` accepts, and every haystack and offset,
    the searcher meta builds returns what the general leftmost-first reference matcher returns. -/
theorem charClassSearcher_eq_reference (re : Re) (hok : isSimpleCharClassPlus re = true)
    (h : Bytes) (a : Nat) :
    (buildCharClassSearcher re).map (fun s => s.searchAt h a) = some (Ref.refFind re h a) := by
  obtain ⟨ranges, hfrag, hbuild, hspec⟩ := charClassSearcher_exact re hok
  obtain ⟨hop, greedy, ⟨cc, hsub, hcc, hpairs⟩, _, hascii⟩ := hfrag
  rw [hbuild, Option.map_some, hspec h a, greedy]
  congr 1
  rw [refFind_plus_eq_ccFind h re cc hop hsub greedy hcc (by rw [hpairs]; exact fun p hp => (hascii p hp).2) a,
    hpairs]
  rfl

end



/-! ## the composite specification IS the general leftmost-first semantics (ASCII classes) -/

/-- candidate counts `lo … top` in priority order -/
def candList (lazy : Bool) (lo top : Nat) : List Nat :=
  let up := (List.range (top + 1)).filter (fun k => decide (lo ≤ k))
  if lazy then up else up.reverse

/-- first successful continuation over the candidate counts -/
def candFind (lazy : Bool) (lo top s : Nat) (k : Nat → Option Nat) : Option Nat :=
  (candList lazy lo top).findSome? fun c => k (s + c)

theorem candFind_zero (lazy : Bool) (lo s : Nat) (k : Nat → Option Nat) :
    candFind lazy lo 0 s k = if lo = 0 then k s else none := by
  unfold candFind candList
  by_cases hlo : lo = 0
  · subst hlo
    cases lazy <;> simp [List.range_succ]
  · have : ¬ lo ≤ 0 := by omega
    cases lazy <;> simp [List.range_succ, hlo]

theorem filter_range_succ (lo t : Nat) :
    (List.range (t + 2)).filter (fun k => decide (lo ≤ k)) =
      (if lo = 0 then [0] else []) ++ ((List.range (t + 1)).filter (fun k => decide (lo - 1 ≤ k))).map (· + 1) := by
  rw [List.range_succ_eq_map, List.filter_cons, List.filter_map]
  have hf : ((fun k => decide (lo ≤ k)) ∘ Nat.succ) = fun k => decide (lo - 1 ≤ k) := by
    funext k
    simp only [Function.comp]
    by_cases h : lo ≤ k + 1
    · have : lo - 1 ≤ k := by omega
      simp [h, this]
    · have : ¬ lo - 1 ≤ k := by omega
      simp [h, this]
  rw [hf]
  by_cases hlo : lo = 0
  · simp [hlo]
  · have : ¬ lo ≤ 0 := by omega
    simp [hlo]

/-- peel the FIRST byte: a count `c ≥ 1` at `s` is the count `c - 1` at `s + 1` -/
theorem candFind_succ (lazy : Bool) (lo t s : Nat) (k : Nat → Option Nat) :
    candFind lazy lo (t + 1) s k =
      if lazy then Ref.orElse (if lo = 0 then k s else none) fun _ => candFind lazy (lo - 1) t (s + 1) k
      else Ref.orElse (candFind lazy (lo - 1) t (s + 1) k) fun _ => if lo = 0 then k s else none := by
  have hk : ∀ l : List Nat, (l.map (· + 1)).findSome? (fun c => k (s + c)) = l.findSome? (fun c => k (s + 1 + c)) := by
    intro l
    rw [List.findSome?_map]
    congr 1
    funext c
    simp only [Function.comp]
    congr 1
    omega
  unfold candFind candList
  simp only []
  rw [filter_range_succ]
  cases lazy with
  | true =>
    simp only [if_true]
    rw [List.findSome?_append, hk]
    by_cases hlo : lo = 0
    · subst hlo
      simp only [if_true, List.findSome?_cons, List.findSome?_nil, Nat.add_zero]
      unfold Ref.orElse
      cases k s <;> rfl
    · simp only [hlo, if_false, List.findSome?_nil]
      unfold Ref.orElse
      rfl
  | false =>
    simp only [Bool.false_eq_true, if_false]
    rw [List.reverse_append, List.findSome?_append, ← List.map_reverse, hk]
    by_cases hlo : lo = 0
    · subst hlo
      simp only [if_true, List.reverse_cons, List.reverse_nil, List.nil_append, List.findSome?_cons,
        List.findSome?_nil, Nat.add_zero]
      unfold Ref.orElse
      cases List.findSome? (fun c => k (s + 1 + c))
        (List.filter (fun k => decide (0 - 1 ≤ k)) (List.range (t + 1))).reverse with
      | none => cases k s <;> rfl
      | some e => rfl
    · simp only [hlo, if_false, List.reverse_nil, List.findSome?_nil]
      unfold Ref.orElse
      cases List.findSome? (fun c => k (s + 1 + c))
        (List.filter (fun k => decide (lo - 1 ≤ k)) (List.range (t + 1))).reverse <;> rfl


namespace Ref

theorem run_rep_zero_none (h : Bytes) (f : Nat) (x : Re) (lazy : Bool) (pos : Nat) (k : Nat → Option Nat) :
    run h (f+1) (.rep x 0 none lazy) pos k = run h f (.star x lazy) pos k := by
  rw [run]

theorem run_rep_zero_zero (h : Bytes) (f : Nat) (x : Re) (lazy : Bool) (pos : Nat) (k : Nat → Option Nat) :
    run h (f+1) (.rep x 0 (some 0) lazy) pos k = k pos := by
  rw [run]

theorem run_rep_zero_succ (h : Bytes) (f : Nat) (x : Re) (mx : Nat) (lazy : Bool) (pos : Nat) (k : Nat → Option Nat) :
    run h (f+1) (.rep x 0 (some (mx+1)) lazy) pos k =
      if lazy then orElse (k pos) fun _ => run h f (.one x) pos fun p => run h f (.rep x 0 (some mx) lazy) p k
      else orElse (run h f (.one x) pos fun p => run h f (.rep x 0 (some mx) lazy) p k) fun _ => k pos := by
  rw [run]

theorem run_seq_nil (h : Bytes) (f : Nat) (pos : Nat) (k : Nat → Option Nat) :
    run h (f+1) (.seq []) pos k = k pos := by
  rw [run]

end Ref

section
attribute [local irreducible] tableOfRanges

/-- greatest admissible count given the bound `mx` and the run length `R` -/
def topOf (mx : Option Nat) (R : Nat) : Nat :=
  match mx with
  | none => R
  | some b => min b R

variable (h : Bytes) (cc : Re) (hcc : cc.op = .charClass) (hascii : ∀ p ∈ pairs cc.rune, p.2 ≤ 127)
include hcc hascii

theorem run_star_cls (lazy : Bool) :
    ∀ d s f (k : Nat → Option Nat), h.size - s ≤ d → 2 * d + 2 ≤ f →
      Ref.run h f (.star cc lazy) s k =
        candFind lazy 0 (runLen (tableOfRanges (pairs cc.rune)).mem h s) s k := by
  intro d
  induction d with
  | zero =>
    intro s f k hd hf
    obtain ⟨f, rfl⟩ : ∃ f', f = f' + 2 := ⟨f - 2, by omega⟩
    have hnm : ¬ (s < h.size ∧ (tableOfRanges (pairs cc.rune)).mem (h.at s) = true) := fun hc => by
      have := hc.1; omega
    rw [Ref.run_star, run_one_asciiClass h cc hcc hascii, if_neg hnm, runLen_ge _ h s (by omega), candFind_zero]
    unfold Ref.orElse
    cases lazy
    · rfl
    · simp only [if_true]; cases k s <;> rfl
  | succ d ih =>
    intro s f k hd hf
    obtain ⟨f, rfl⟩ : ∃ f', f = f' + 2 := ⟨f - 2, by omega⟩
    rw [Ref.run_star, run_one_asciiClass h cc hcc hascii]
    by_cases hm : s < h.size ∧ (tableOfRanges (pairs cc.rune)).mem (h.at s) = true
    · have hgt : s + 1 > s := by omega
      rw [if_pos hm, if_pos hgt, ih (s + 1) (f + 1) k (by omega) (by omega)]
      have hrl := runLen_lt (tableOfRanges (pairs cc.rune)).mem h s hm.1
      rw [if_pos hm.2] at hrl
      rw [hrl, candFind_succ]
      rfl
    · rw [if_neg hm]
      have hrl : runLen (tableOfRanges (pairs cc.rune)).mem h s = 0 := by
        by_cases hp : s < h.size
        · rw [runLen_lt _ h s hp, if_neg (fun hc => hm ⟨hp, hc⟩)]
        · exact runLen_ge _ h s (by omega)
      rw [hrl, candFind_zero]
      unfold Ref.orElse
      cases lazy
      · rfl
      · simp only [if_true]; cases k s <;> rfl

theorem run_rep_cls (lazy : Bool) :
    ∀ d s lo mx f (k : Nat → Option Nat), h.size - s ≤ d → 2 * d + 3 ≤ f → (∀ b, mx = some b → lo ≤ b) →
      Ref.run h f (.rep cc lo mx lazy) s k =
        candFind lazy lo (topOf mx (runLen (tableOfRanges (pairs cc.rune)).mem h s)) s k := by
  intro d
  induction d with
  | zero =>
    intro s lo mx f k hd hf hwf
    obtain ⟨f, rfl⟩ : ∃ f', f = f' + 3 := ⟨f - 3, by omega⟩
    have hrl : runLen (tableOfRanges (pairs cc.rune)).mem h s = 0 := runLen_ge _ h s (by omega)
    have htop : topOf mx 0 = 0 := by unfold topOf; cases mx <;> simp
    have hnm : ¬ (s < h.size ∧ (tableOfRanges (pairs cc.rune)).mem (h.at s) = true) := fun hc => by
      have := hc.1; omega
    rw [hrl, htop, candFind_zero]
    cases lo with
    | succ m =>
      rw [Ref.run_rep_succ, run_one_asciiClass h cc hcc hascii, if_neg hnm, if_neg (by omega)]
    | zero =>
      simp only [if_true]
      cases mx with
      | none =>
        rw [Ref.run_rep_zero_none, run_star_cls h cc hcc hascii lazy 0 s (f + 2) k hd (by omega), hrl, candFind_zero]
        rfl
      | some b =>
        cases b with
        | zero => rw [Ref.run_rep_zero_zero]
        | succ b =>
          rw [Ref.run_rep_zero_succ, run_one_asciiClass h cc hcc hascii, if_neg hnm]
          unfold Ref.orElse
          cases lazy
          · rfl
          · simp only [if_true]; cases k s <;> rfl
  | succ d ih =>
    intro s lo mx f k hd hf hwf
    obtain ⟨f, rfl⟩ : ∃ f', f = f' + 3 := ⟨f - 3, by omega⟩
    by_cases hm : s < h.size ∧ (tableOfRanges (pairs cc.rune)).mem (h.at s) = true
    · have hrl := runLen_lt (tableOfRanges (pairs cc.rune)).mem h s hm.1
      rw [if_pos hm.2] at hrl
      cases lo with
      | succ m =>
        rw [Ref.run_rep_succ, run_one_asciiClass h cc hcc hascii, if_pos hm,
          ih (s + 1) m (mx.map (· - 1)) (f + 2) k (by omega) (by omega)
            (by intro b hb; cases mx with
                | none => exact nomatch hb
                | some b' => simp at hb; have := hwf b' rfl; omega)]
        have htop : topOf mx (runLen (tableOfRanges (pairs cc.rune)).mem h s) =
            topOf (mx.map (· - 1)) (runLen (tableOfRanges (pairs cc.rune)).mem h (s + 1)) + 1 := by
          rw [hrl]
          unfold topOf
          cases mx with
          | none => rfl
          | some b' => have := hwf b' rfl; simp only [Option.map_some]; omega
        rw [htop, candFind_succ]
        simp only [Nat.add_sub_cancel, show ¬ (m + 1 = 0) from by omega, if_false]
        unfold Ref.orElse
        cases lazy
        · simp only [Bool.false_eq_true, if_false]
          cases candFind false m _ (s + 1) k <;> rfl
        · rfl
      | zero =>
        cases mx with
        | none =>
          rw [Ref.run_rep_zero_none, run_star_cls h cc hcc hascii lazy (d + 1) s (f + 2) k hd (by omega)]
          rfl
        | some b =>
          cases b with
          | zero =>
            rw [Ref.run_rep_zero_zero]
            have : topOf (some 0) (runLen (tableOfRanges (pairs cc.rune)).mem h s) = 0 := by unfold topOf; simp
            rw [this, candFind_zero]; rfl
          | succ b =>
            rw [Ref.run_rep_zero_succ, run_one_asciiClass h cc hcc hascii, if_pos hm,
              ih (s + 1) 0 (some b) (f + 2) k (by omega) (by omega) (fun _ _ => Nat.zero_le _)]
            have htop : topOf (some (b + 1)) (runLen (tableOfRanges (pairs cc.rune)).mem h s) =
                topOf (some b) (runLen (tableOfRanges (pairs cc.rune)).mem h (s + 1)) + 1 := by
              rw [hrl]; unfold topOf; simp only []; omega
            rw [htop, candFind_succ]
            rfl
    · have hrl : runLen (tableOfRanges (pairs cc.rune)).mem h s = 0 := by
        by_cases hp : s < h.size
        · rw [runLen_lt _ h s hp, if_neg (fun hc => hm ⟨hp, hc⟩)]
        · exact runLen_ge _ h s (by omega)
      have htop : topOf mx 0 = 0 := by unfold topOf; cases mx <;> simp
      rw [hrl, htop, candFind_zero]
      cases lo with
      | succ m =>
        rw [Ref.run_rep_succ, run_one_asciiClass h cc hcc hascii, if_neg hm, if_neg (by omega)]
      | zero =>
        simp only [if_true]
        cases mx with
        | none =>
          rw [Ref.run_rep_zero_none, run_star_cls h cc hcc hascii lazy (d + 1) s (f + 2) k hd (by omega), hrl,
            candFind_zero]
          rfl
        | some b =>
          cases b with
          | zero => rw [Ref.run_rep_zero_zero]
          | succ b =>
            rw [Ref.run_rep_zero_succ, run_one_asciiClass h cc hcc hascii, if_neg hm]
            unfold Ref.orElse
            cases lazy
            · rfl
            · simp only [if_true]; cases k s <;> rfl


omit hcc hascii in
theorem candidates_eq_candList (p : Part) (s : Nat) : p.candidates h s = candList p.lazy p.lo (p.top h s) := rfl

end

section
attribute [local irreducible] tableOfRanges

/-- a quantified ASCII class whose `{n,m}` bounds are consistent (`n ≤ m`; the parser guarantees it) -/
def QuantAscii (x : Re) : Prop :=
  QuantClass x ∧ (∀ r ∈ classRunes x, r ≤ 127) ∧ (x.op = .repeat_ → x.max < 0 ∨ x.min ≤ x.max)

theorem pairs_snd_mem : ∀ (n : Nat) (l : List Nat), l.length ≤ n → ∀ p : Nat × Nat, p ∈ pairs l → p.2 ∈ l := by
  intro n
  induction n with
  | zero =>
    intro l hl p hp
    have : l = [] := List.length_eq_zero_iff.mp (by omega)
    subst this
    exact nomatch hp
  | succ n ih =>
    intro l hl p hp
    match l, hl, hp with
    | [], _, hp => exact nomatch hp
    | [_], _, hp => exact nomatch hp
    | a :: b :: rest, hl, hp =>
      have hp : p ∈ (a, b) :: pairs rest := hp
      rcases List.mem_cons.mp hp with rfl | hp
      · simp
      · have := ih rest (by simp at hl; omega) p hp
        simp [this]

/-- **one part**: the reference matcher tries exactly the part's candidate counts, in priority order -/
theorem run_one_quant (h : Bytes) (x : Re) (p : Part) (hq : QuantAscii x) (hp : astPart x = some p)
    (f s : Nat) (k : Nat → Option Nat) (hf : 2 * h.size + 6 ≤ f) :
    Ref.run h f (.one x) s k = (p.candidates h s).findSome? fun c => k (s + c) := by
  obtain ⟨hqc, hasc, hrep⟩ := hq
  rw [candidates_eq_candList]
  show _ = candFind p.lazy p.lo (p.top h s) s k
  obtain ⟨f, rfl⟩ : ∃ f', f = f' + 2 := ⟨f - 2, by omega⟩
  unfold astPart at hp
  rcases hqc with hbare | ⟨hops, cc, hsub, hcc⟩
  · -- bare class
    rw [hbare] at hp
    simp only [Option.some.injEq] at hp
    subst hp
    have hascii : ∀ q ∈ pairs x.rune, q.2 ≤ 127 := fun q hq =>
      hasc q.2 (by unfold classRunes; rw [if_pos hbare]; exact pairs_snd_mem _ _ (Nat.le_refl _) _ hq)
    rw [run_one_asciiClass h x hbare hascii]
    simp only [Part.top]
    by_cases hm : s < h.size ∧ (tableOfRanges (pairs x.rune)).mem (h.at s) = true
    · have hrl := runLen_lt (tableOfRanges (pairs x.rune)).mem h s hm.1
      rw [if_pos hm.2] at hrl
      have : min 1 (runLen (tableOfRanges (pairs x.rune)).mem h s) = 0 + 1 := by omega
      rw [if_pos hm, this, candFind_succ, candFind_zero]
      simp only [Bool.false_eq_true, if_false, Nat.sub_self, if_true, show ¬ (1 = 0) from by omega]
      unfold Ref.orElse
      cases k (s + 1) <;> rfl
    · have hrl : runLen (tableOfRanges (pairs x.rune)).mem h s = 0 := by
        by_cases hp : s < h.size
        · rw [runLen_lt _ h s hp, if_neg (fun hc => hm ⟨hp, hc⟩)]
        · exact runLen_ge _ h s (by omega)
      have hmin : min 1 0 = 0 := rfl
      rw [if_neg hm, hrl, hmin, candFind_zero]
      simp
  · have hnb : x.op ≠ .charClass := by rcases hops with h1 | h1 | h1 | h1 <;> rw [h1] <;> exact fun hc => nomatch hc
    have hascii : ∀ q ∈ pairs cc.rune, q.2 ≤ 127 := fun q hq =>
      hasc q.2 (by unfold classRunes; rw [if_neg hnb, hsub]; exact pairs_snd_mem _ _ (Nat.le_refl _) _ hq)
    rw [Ref.run_one]
    rcases hops with hop | hop | hop | hop
    · -- plus
      rw [hop] at hp ⊢
      simp only [] at hp ⊢
      rw [hsub] at hp ⊢
      simp only [Option.some.injEq] at hp ⊢
      subst hp
      simp only [Part.top]
      obtain ⟨f, rfl⟩ : ∃ f', f = f' + 1 := ⟨f - 1, by omega⟩
      rw [run_one_asciiClass h cc hcc hascii]
      by_cases hm : s < h.size ∧ (tableOfRanges (pairs cc.rune)).mem (h.at s) = true
      · have hrl := runLen_lt (tableOfRanges (pairs cc.rune)).mem h s hm.1
        rw [if_pos hm.2] at hrl
        rw [if_pos hm, run_star_cls h cc hcc hascii _ h.size (s + 1) _ k (by omega) (by omega), hrl, candFind_succ]
        simp only [Nat.sub_self, show ¬ (1 = 0) from by omega, if_false]
        unfold Ref.orElse
        cases x.nonGreedy
        · simp only [Bool.false_eq_true, if_false]
          cases candFind false 0 _ (s + 1) k <;> rfl
        · rfl
      · have hrl : runLen (tableOfRanges (pairs cc.rune)).mem h s = 0 := by
          by_cases hp : s < h.size
          · rw [runLen_lt _ h s hp, if_neg (fun hc => hm ⟨hp, hc⟩)]
          · exact runLen_ge _ h s (by omega)
        rw [if_neg hm, hrl, candFind_zero]
        simp
    · -- star
      rw [hop] at hp ⊢
      simp only [] at hp ⊢
      rw [hsub] at hp ⊢
      simp only [Option.some.injEq] at hp ⊢
      subst hp
      exact run_star_cls h cc hcc hascii _ h.size s _ k (by omega) (by omega)
    · -- quest
      rw [hop] at hp ⊢
      simp only [] at hp ⊢
      rw [hsub] at hp ⊢
      simp only [Option.some.injEq] at hp ⊢
      subst hp
      exact run_rep_cls h cc hcc hascii _ h.size s 0 (some 1) _ k (by omega) (by omega) (fun _ _ => Nat.zero_le _)
    · -- repeat
      rw [hop] at hp ⊢
      simp only [] at hp ⊢
      rw [hsub] at hp ⊢
      simp only [Option.some.injEq] at hp ⊢
      subst hp
      rw [run_rep_cls h cc hcc hascii _ h.size s _ _ _ k (by omega) (by omega)]
      · rfl
      · intro b hb
        split at hb
        · exact nomatch hb
        · cases hb
          rcases hrep hop with hneg | hle
          · omega
          · omega

/-- the reference matcher over a part list with an arbitrary continuation -/
def refMatchK (h : Bytes) : List Part → Nat → (Nat → Option Nat) → Option Nat
  | [], s, k => k s
  | p :: ps, s, k => (p.candidates h s).findSome? fun c => refMatchK h ps (s + c) k

theorem refMatchK_some (h : Bytes) (ps : List Part) :
    ∀ s, refMatchK h ps s some = (refMatch h ps s).map fun ks => s + ks.sum := by
  induction ps with
  | nil => intro s; rfl
  | cons p ps ih =>
    intro s
    rw [refMatchK, refMatch, CompositeSearcher.findSome?_map]
    congr 1
    funext c
    rw [ih (s + c), Option.map_map]
    congr 1
    funext ks
    simp only [Function.comp, List.sum_cons]
    omega

theorem run_seq_quant (h : Bytes) :
    ∀ (xs : List Re) (ps : List Part), (∀ x ∈ xs, QuantAscii x) → xs.mapM astPart = some ps →
      ∀ f s k, 2 * h.size + 6 + xs.length ≤ f →
        Ref.run h f (.seq xs) s k = refMatchK h ps s k := by
  intro xs
  induction xs with
  | nil =>
    intro ps _ hm f s k hf
    rw [mapM_option_nil] at hm; cases hm
    obtain ⟨f, rfl⟩ : ∃ f', f = f' + 1 := ⟨f - 1, by omega⟩
    rw [Ref.run_seq_nil]; rfl
  | cons x xs ih =>
    intro ps hq hm f s k hf
    rw [mapM_option_cons] at hm
    cases hp : astPart x with
    | none => rw [hp] at hm; exact nomatch hm
    | some p =>
      rw [hp, Option.bind_some] at hm
      cases hps : xs.mapM astPart with
      | none => rw [hps] at hm; exact nomatch hm
      | some ps' =>
        rw [hps, Option.bind_some] at hm
        cases hm
        simp only [List.length_cons] at hf
        obtain ⟨f, rfl⟩ : ∃ f', f = f' + 1 := ⟨f - 1, by omega⟩
        rw [Ref.run_seq_cons, run_one_quant h x p (hq x List.mem_cons_self) hp f s _ (by omega), refMatchK]
        congr 1
        funext c
        exact ih ps' (fun y hy => hq y (List.mem_cons_of_mem _ hy)) hps f (s + c) k (by omega)


theorem sizeAux_pos (f : Nat) (x : Re) : 1 ≤ Ref.sizeAux f x := by
  cases f with
  | zero => exact Nat.le_refl 1
  | succ f => rw [Ref.sizeAux]; omega

theorem sum_map_ge_length (g : Re → Nat) (hg : ∀ x, 1 ≤ g x) : ∀ l : List Re, l.length ≤ (l.map g).sum
  | [] => Nat.le_refl 0
  | x :: l => by
    have := sum_map_ge_length g hg l
    have := hg x
    simp only [List.length_cons, List.map_cons, List.sum_cons]
    omega

theorem matchAt_composite (re : Re) (ps : List Part) (hop : re.op = .concat) (hq : ∀ x ∈ re.sub, QuantAscii x)
    (hps : astParts re = some ps) (h : Bytes) (s : Nat) :
    Ref.matchAt re h s = (refMatch h ps s).map fun ks => s + ks.sum := by
  unfold Ref.matchAt
  have hsz : re.sub.length + 1 ≤ Ref.sizeAux 32 re := by
    rw [Ref.sizeAux]
    have := sum_map_ge_length (Ref.sizeAux 31) (sizeAux_pos 31) re.sub
    omega
  have hfuel : 2 * h.size + 6 + re.sub.length + 1 ≤ Ref.fuelFor re h := by
    unfold Ref.fuelFor
    have h1 : 2 * (h.size + 2) ≤ (Ref.sizeAux 32 re + 2) * (h.size + 2) := Nat.mul_le_mul_right _ (by omega)
    have h2 : (Ref.sizeAux 32 re + 2) * 2 ≤ (Ref.sizeAux 32 re + 2) * (h.size + 2) := Nat.mul_le_mul_left _ (by omega)
    omega
  obtain ⟨F, hF⟩ : ∃ F, Ref.fuelFor re h = F + 1 := ⟨Ref.fuelFor re h - 1, by omega⟩
  rw [hF, Ref.run_one, hop]
  simp only []
  rw [run_seq_quant h re.sub ps hq hps F s some (by omega), refMatchK_some]

/-- **`compFind` is the leftmost-first semantics**: for a concatenation of (greedy or lazy) quantified ASCII classes the
    general reference matcher returns exactly `compFind` over the parts `astParts` reads off the AST. -/
theorem refFind_composite_eq_compFind (re : Re) (ps : List Part) (hop : re.op = .concat)
    (hq : ∀ x ∈ re.sub, QuantAscii x) (hps : astParts re = some ps) (h : Bytes) (a : Nat) :
    Ref.refFind re h a = compFind ps h a := by
  unfold Ref.refFind compFind
  have hfun : (fun s => (Ref.matchAt re h s).isSome) = (fun s => (refMatch h ps s).isSome) := by
    funext s
    rw [matchAt_composite re ps hop hq hps h s, Option.isSome_map]
  by_cases ha : a ≤ h.size + 1
  · rw [findLoop_eq_leastFrom re h _ a (by omega), hfun]
    congr 1
    funext s
    rw [matchAt_composite re ps hop hq hps h s, Option.map_map]
    rfl
  · have : h.size + 1 - a = 0 := by omega
    rw [this, Ref.findLoop, leastFrom_gt _ _ _ (by omega)]; rfl

/-- PARSER INVARIANT (not a restriction of the fragment): `{n,m}` bounds are consistent — `syntax.Parse` rejects
    `x{3,2}` ("invalid repeat count").  Still needed: on a hand-built `x{3,2}` the searcher finds nothing
    (`tryLen` runs from `≤ 2` down to `≥ 3`) while the reference matcher takes the three mandatory copies and then
    `max - min` (truncated to 0) optional ones. -/
def RepeatOK (re : Re) : Prop := ∀ x ∈ re.sub, x.op = .repeat_ → x.max < 0 ∨ x.min ≤ x.max

instance (re : Re) : Decidable (RepeatOK re) := by unfold RepeatOK; exact inferInstance

/-- **CompositeSearcher end to end**: for EVERY pattern `IsCompositeCharClassPattern` accepts, `SearchAt` of the
    searcher `NewCompositeSearcher` builds returns what the general leftmost-first reference matcher returns — on every
    haystack and offset.  `greedy` / `noZeroMax` / `ascii` of the previous statement are now consequences of acceptance;
    the two remaining hypotheses are invariants of `syntax.Parse` output (`RepeatOK`: `n ≤ m` in `{n,m}`;
    `ClassSorted`: `Rune` ascending — Go tests only the last rune against U+007F). -/
theorem compositeSearcher_eq_reference (re : Re) (c : CompositeSearcher) (hok : isCompositeCharClassPattern re = true)
    (hc : newCompositeSearcher re = some c) (repOK : RepeatOK re) (sorted : ClassSorted re)
    (h : Bytes) (a : Nat) : c.searchAt h a = Ref.refFind re h a := by
  obtain ⟨⟨hop, _, hqc⟩, _, _, parts, hparts, hspec⟩ := compositeSearcher_exact re c hok hc
  have ascii := isCompositeCharClassPattern_ascii re hok sorted
  rw [hspec h a, refFind_composite_eq_compFind re parts hop
    (fun x hx => ⟨hqc x hx, ascii x hx, repOK x hx⟩) hparts h a]

end

end Cx.Fast
